"""The per-property check plans."""
import json
import os
import shutil
import subprocess
import tempfile
import time

import vlib
from vlib import Machinery, log

# family -> (number of shards, quick budget (haystacks/pattern), quick max length, thorough budget, thorough max length)
FAMILIES = {
    "G2a": (64, 90, 3, 160, 4),
    "G2m": (64, 90, 3, 160, 4),
    "G2u": (64, 90, 3, 160, 4),
    "G2x": (16, 90, 4, 160, 5),
    "LIT": (8, 120, 4, 400, 5),
    "REV": (8, 120, 4, 400, 5),
    "ANC": (4, 120, 4, 400, 5),
    "CC": (16, 120, 4, 400, 5),
    "DIG": (1, 160, 4, 800, 5),
    "CAP": (4, 120, 4, 400, 5),
    "U8": (2, 120, 3, 400, 4),
}
THOROUGH_SHARDS = 4   # how many consecutive shards of each family a thorough run covers

SEARCH_CFG = "SPECIFICATION Spec\nINVARIANT Emit\n"


def search_jobs(tier, families=None, with_at=False, budget_scale=1.0):
    """(family, shard) TLC jobs of MC_Search for this tier and seed."""
    s = vlib.seed()
    jobs = []
    for fam, (nsh, qb, ql, tb, tl) in FAMILIES.items():
        if families and fam not in families:
            continue
        if tier == "quick":
            shards = [s % nsh]
            b, l = qb, ql
        else:
            k = min(nsh, THOROUGH_SHARDS)
            shards = sorted({(s * k + j) % nsh for j in range(k)})
            b, l = tb, tl
        for sh in shards:
            jobs.append((fam, {"Family": fam, "Shard": sh, "NShards": nsh, "Budget": max(8, int(b * budget_scale)),
                               "LCap": l, "WithAt": with_at}))
    return jobs


def run_search_family(prop, tier, props_arg, level="model_checking", families=None, with_at=False,
                      budget_scale=1.0, subcmd="search", extra_args=None, rule=None, assumptions=None,
                      module="MC_Search", extra_jobs=None):
    """Generic plan: TLC generator jobs (one per family shard) -> harness replay -> classification.
    extra_jobs: additional (module, constants, subcmd) generator jobs."""
    t0 = time.time()
    vh = vlib.build_harness()
    work = tempfile.mkdtemp(prefix=f"v{prop}_")
    try:
        jobs = [(fam, c, module, subcmd) for fam, c in search_jobs(tier, families, with_at, budget_scale)]
        if module != "MC_Search":
            for _, c, _, _ in jobs:
                c.pop("WithAt", None)
        jobs += extra_jobs or []
        results = []

        def mk(fam, consts, i, mod, sub):
            def run():
                out = os.path.join(work, f"tlc_{i}.out")
                r = vlib.run_tlc(mod, consts, SEARCH_CFG, out, workers=4, timeout=3000)
                if r.error or r.violation:
                    return (fam, consts, r, None, None)
                rp = os.path.join(work, f"rep_{i}.json")
                fp = os.path.join(work, f"fail_{i}.ndjson")
                cmd = [vh, sub, "-in", out, "-props", props_arg, "-report", rp, "-fail", fp] + (extra_args or [])
                p = subprocess.run(cmd, capture_output=True, text=True, timeout=3000)
                os.remove(out)
                if p.returncode != 0:
                    r.error = f"harness exit {p.returncode}: {p.stderr[-2000:]}"
                    return (fam, consts, r, None, None)
                return (fam, consts, r, rp, fp)
            return run

        fns = [mk(fam, consts, i, mod, sub) for i, (fam, consts, mod, sub) in enumerate(jobs)]
        results = vlib.run_parallel(fns, 4)
        machinery = []
        states = trans = 0
        agg = {"patterns": 0, "cases": 0, "calls": 0, "nontrivial": 0, "spec_gaps": 0, "by_strategy": {}, "fail_by_strategy": {}}
        samples, gaps, fail_paths, fams = [], [], [], {}
        tlc_wall = 0.0
        for fam, consts, r, rp, fp in results:
            tlc_wall += r.wall
            if r.violation:
                machinery.append(f"TLC: the reference violates its own theorems ({fam}): {r.violation[:500]}")
                continue
            if r.error:
                machinery.append(f"TLC/harness ({fam} shard {consts['Shard']}): {r.error[:800]}")
                continue
            states += r.distinct
            trans += r.generated
            rep = vlib.read_report(rp)
            for k in ("patterns", "cases", "calls", "nontrivial", "spec_gaps"):
                agg[k] += rep.get(k, 0)
            for k in ("by_strategy", "fail_by_strategy"):
                for a, b in (rep.get(k) or {}).items():
                    agg[k][a] = agg[k].get(a, 0) + b
            fams[fam] = fams.get(fam, 0) + rep.get("patterns", 0)
            samples += (rep.get("samples") or [])[:2]
            gaps += (rep.get("gap_samples") or [])[:3]
            machinery += rep.get("machinery_errors") or []
            fail_paths.append(fp)
        kf, known_hit, violations, total = vlib.classify(fail_paths, prop)
        violations = [v for v in violations if v["prop"] == prop]
        coverage = {
            "states": states, "transitions": trans, "traces_validated_against_impl": agg["cases"],
            "samples": samples[:10] or [{"note": "no sample"}],
            "evaluations": agg["calls"], "distinct_nontrivial": agg["nontrivial"],
            "rule": rule or ("TLC enumerates one shard per pattern family of spec/Universe.tla and, per pattern, every haystack "
                             "over the pattern's alphabet up to a length budget; a (pattern, haystack) pair is non-trivial when the "
                             "reference reports at least one match on a non-empty haystack; evaluations = API calls compared"),
            "patterns": agg["patterns"], "pattern_haystack_pairs": agg["cases"], "spec_gaps": agg["spec_gaps"],
            "spec_gap_samples": gaps[:10], "patterns_by_strategy": agg["by_strategy"], "failing_calls_by_strategy": agg["fail_by_strategy"],
            "patterns_by_family": fams, "failing_calls_total": total, "tlc_wall_s": round(tlc_wall, 1),
            "exhaustive": not machinery,
            "tlc_jobs": [{"family": f, "module": m, **c} for f, c, m, _ in jobs],
        }
        return vlib.finish(prop, tier, level, coverage, known_hit, violations, t0, kf,
                           assumptions=assumptions or [
                               "package regexp (Go standard library) is the arbiter of the reference: a reference value that regexp does not confirm is a spec gap, skipped",
                               "TLC evaluates the TLA+ reference semantics correctly",
                           ], machinery=machinery)
    finally:
        keep = os.environ.get("VERIF_KEEP")
        if keep:
            os.makedirs(keep, exist_ok=True)
            for f in os.listdir(work):
                if f.startswith("fail_"):
                    shutil.copy(os.path.join(work, f), os.path.join(keep, f"{prop}_{f}"))
        shutil.rmtree(work, ignore_errors=True)


def c_search(prop, tier):
    return run_search_family(prop, tier, prop)


def c08(prop, tier):
    q = tier == "quick"
    exp = ("EXPAND", {"MaxLen": 4 if q else 5, "Shard": vlib.seed() % (4 if q else 2), "NShards": 4 if q else 2},
           "MC_Expand", "expand")
    return run_search_family(prop, tier, prop, module="MC_Replace", subcmd="replace", extra_jobs=[exp],
                             families=["CAP", "G2a", "G2x", "LIT", "CC", "U8", "G2m"], budget_scale=0.5,
                             rule="TLC enumerates pattern-family shards x haystacks and evaluates regexp.replaceAll/expand/Split of the "
                                  "reference for rotating templates, plus every template of bounded length over the token alphabet "
                                  "{$ { } 0 1 2 n _ x} against 4 capture environments; non-trivial = output differs from input (replace) "
                                  "or from the template (expand)")


REGISTRY = {
    "C08": c08,
    "C01": c_search, "C02": c_search, "C03": c_search, "C04": c_search, "C10": c_search, "C11": c_search,
}


def replay(prop, path):
    vh = vlib.build_harness()
    p = subprocess.run([vh, "replay", "-file", path])
    return p.returncode
