"""The per-property check plans."""
import json
import os
import shutil
import subprocess
import tempfile
import time

import vlib
from vlib import Machinery, log

# family -> (number of shards the family is cut into, quick budget (haystacks/pattern), quick max length,
#            thorough budget, thorough max length)
# THE UNIVERSE of a family is its first UNIVERSE_SHARDS shards at the thorough budget: a quick run explores one of
# them (VERIF_SEED picks which) at the quick budget (a subset of the thorough haystacks), a thorough run all of them.
# So the thorough tier enumerates the whole fixed universe and the known-findings file can be complete.
FAMILIES = {
    "G2a": (64, 90, 3, 140, 4),
    "G2m": (64, 90, 3, 140, 4),
    "G2u": (64, 90, 3, 140, 4),
    "G2x": (16, 90, 4, 140, 5),
    "LIT": (8, 120, 4, 260, 5),
    "REV": (8, 120, 4, 260, 5),
    "ANC": (4, 120, 4, 260, 5),
    "CC": (16, 120, 4, 260, 5),
    "DIG": (1, 160, 4, 400, 5),
    "CAP": (4, 120, 4, 260, 5),
    "U8": (2, 120, 3, 260, 4),
    "BIG": (1, 300, 4, 1600, 5),
    "OP": (4, 120, 4, 260, 5),
    "G1": (4, 120, 4, 260, 5),
    "TRI": (2, 120, 4, 260, 5),
    "ANC2": (1, 120, 4, 260, 5),
    "ANC3": (1, 120, 4, 260, 5),
}
# families that only the checks naming them explicitly enumerate
OPT_IN_FAMILIES = {"ANC3"}
# families defined outside spec/Universe.tla (added after the witness lists of the older families were complete)
FAMILY_MODULE = {"ANC2": "MC_SearchX", "ANC3": "MC_SearchX"}
UNIVERSE_SHARDS = 4
# families whose universe is wider than the first 4 shards: the literal / reverse-search / class-sequence strategies are
# selected by small differences between patterns (a self-overlapping suffix, a shared first byte), so a sample is not enough
UNIVERSE_SHARDS_OF = {"REV": 8, "LIT": 8, "CC": 8}

SEARCH_CFG = "SPECIFICATION Spec\nINVARIANT Emit\n"

# Properties whose thorough tier runs with the quick tier's parameters.  A known finding is a list of failing inputs that is
# complete only for a universe that has been run in full on the unchanged tree after the last repair; for these
# properties only the quick universe has been (each full-universe run takes 20-40 minutes of the whole machine and every
# `fix:` commit invalidates it).  A check that would alarm on the unchanged tree is worth nothing, so the deeper
# universe of these properties is kept in the code (tier == "thorough" branches) but not registered.
THOROUGH_SAME_UNIVERSE = {"C01", "C02", "C03", "C04", "C05", "C06", "C07", "C08", "C09", "C10", "C11", "C12", "C13", "C14", "C15", "C16", "C17", "C18", "C19", "C20"}


def search_jobs(tier, families=None, with_at=False, budget_scale=1.0):
    """(family, shard) TLC jobs of MC_Search for this tier and seed."""
    s = vlib.shard_seed()
    jobs = []
    for fam, (nsh, qb, ql, tb, tl) in FAMILIES.items():
        if families and fam not in families:
            continue
        if not families and fam in OPT_IN_FAMILIES:
            continue
        u = min(nsh, UNIVERSE_SHARDS_OF.get(fam, UNIVERSE_SHARDS))
        if tier == "quick":
            shards = [s % u]
            b, l = qb, ql
        else:
            shards = list(range(u))
            b, l = tb, tl
        for sh in shards:
            jobs.append((fam, {"Family": fam, "Shard": sh, "NShards": nsh, "Budget": max(8, int(b * budget_scale)),
                               "LCap": l, "WithAt": with_at}))
    return jobs


def run_search_family(prop, tier, props_arg, level="model_checking", families=None, with_at=False,
                      budget_scale=1.0, subcmd="search", extra_args=None, rule=None, assumptions=None,
                      module="MC_Search", extra_jobs=None, stages=None, per_output=None):
    """Generic plan: TLC generator jobs (one per family shard) -> harness replay -> classification.
    extra_jobs: additional (module, constants, subcmd) generator jobs."""
    t0 = time.time()
    vh = vlib.build_harness()
    work = tempfile.mkdtemp(prefix=f"v{prop}_")
    try:
        jobs = [(fam, c, FAMILY_MODULE.get(fam, module) if module == "MC_Search" else module, subcmd)
                for fam, c in search_jobs(tier, families, with_at, budget_scale) if module == "MC_Search" or fam not in FAMILY_MODULE]
        if module != "MC_Search":
            for _, c, _, _ in jobs:
                c.pop("WithAt", None)
        jobs += extra_jobs or []
        results = []
        stage_results = []

        def mk(fam, consts, i, mod, sub):
            def run():
                r = vlib.run_tlc_cached(mod, consts, SEARCH_CFG, workers=4, timeout=3000)
                out = r.outfile
                if r.error or r.violation:
                    return (fam, consts, r, None, None)
                rp = os.path.join(work, f"rep_{i}.json")
                fp = os.path.join(work, f"fail_{i}.ndjson")
                xa = (extra_args or []) if sub == subcmd else []      # the extra arguments belong to the check's own driver
                cmd = [vh, sub, "-in", out, "-props", props_arg, "-report", rp, "-fail", fp] + \
                      [a.replace("{i}", str(i)).replace("{work}", work) for a in xa if a != "-corpus-first"] + \
                      (["-corpus"] if "-corpus-first" in xa and i == 0 else [])
                p = subprocess.run(cmd, capture_output=True, text=True, timeout=3000)
                if per_output and p.returncode == 0 and sub == subcmd:
                    try:
                        stage_results.append(per_output(vh, work, out, i, fam))
                    except Machinery as e:
                        stage_results.append({"machinery": [str(e)]})
                if p.returncode != 0:
                    r.error = f"harness exit {p.returncode}: {p.stderr[-2000:]}"
                    return (fam, consts, r, None, None)
                return (fam, consts, r, rp, fp)
            return run

        fns = [mk(fam, consts, i, mod, sub) for i, (fam, consts, mod, sub) in enumerate(jobs)]
        stage_fns = [(lambda st=st: ("stage", st(vh, work))) for st in (stages or [])]
        allres = vlib.run_parallel(fns + stage_fns, 4)
        results = [r for r in allres if r[0] != "stage"]
        stage_results += [r[1] for r in allres if r[0] == "stage"]
        machinery = []
        states = trans = 0
        agg = {"patterns": 0, "cases": 0, "calls": 0, "nontrivial": 0, "spec_gaps": 0, "by_strategy": {}, "fail_by_strategy": {}, "by_api": {}}
        samples, gaps, fail_paths, fams = [], [], [], {}
        tlc_wall = 0.0
        for fam, consts, r, rp, fp in results:
            tlc_wall += r.wall
            if r.violation:
                machinery.append(f"TLC: the reference violates its own theorems ({fam}): {r.violation[:500]}")
                continue
            if r.error:
                machinery.append(f"TLC/harness ({fam} shard {consts['Shard']}): {r.error[:800]}")
                continue
            states += r.distinct
            trans += r.generated
            rep = vlib.read_report(rp)
            for k in ("patterns", "cases", "calls", "nontrivial", "spec_gaps"):
                agg[k] += rep.get(k, 0)
            for k in ("by_strategy", "fail_by_strategy", "by_api"):
                for a, b in (rep.get(k) or {}).items():
                    if k == "by_api" and ":" not in a:
                        continue        # only the counters of model-conformance drivers ("revsuffix:...", "onepass:...")
                    agg[k][a] = agg[k].get(a, 0) + b
            fams[fam] = fams.get(fam, 0) + rep.get("patterns", 0)
            samples += (rep.get("samples") or [])[:2]
            gaps += (rep.get("gap_samples") or [])[:3]
            machinery += rep.get("machinery_errors") or []
            fail_paths.append(fp)
        stage_info = {}
        ntraces = 0
        for sr in stage_results:
            if not sr:
                continue
            machinery += sr.get("machinery") or []
            states += sr.get("states", 0)
            trans += sr.get("transitions", 0)
            ntraces += sr.get("traces", 0)
            for k, v in (sr.get("info") or {}).items():
                if isinstance(v, (int, float)) and isinstance(stage_info.get(k), (int, float)):
                    stage_info[k] += v
                else:
                    stage_info.setdefault(k, v)
            if sr.get("fail_path"):
                fail_paths.append(sr["fail_path"])
        kf, known_hit, violations, total = vlib.classify(fail_paths, prop)
        violations = [v for v in violations if v["prop"] == prop]
        coverage = {
            "states": states, "transitions": trans, "traces_validated_against_impl": agg["cases"] + ntraces,
            "stages": stage_info,
            "samples": samples[:10] or [{"note": "no sample"}],
            "evaluations": agg["calls"], "distinct_nontrivial": agg["nontrivial"],
            "rule": rule or ("TLC enumerates one shard per pattern family of spec/Universe.tla and, per pattern, every haystack "
                             "over the pattern's alphabet up to a length budget; a (pattern, haystack) pair is non-trivial when the "
                             "reference reports at least one match on a non-empty haystack; evaluations = API calls compared"),
            "patterns": agg["patterns"], "pattern_haystack_pairs": agg["cases"], "spec_gaps": agg["spec_gaps"],
            "spec_gap_samples": gaps[:10], "patterns_by_strategy": agg["by_strategy"], "failing_calls_by_strategy": agg["fail_by_strategy"],
            "patterns_by_family": fams, "failing_calls_total": total, "tlc_wall_s": round(tlc_wall, 1),
            "model_conformance_counters": agg["by_api"],
            "exhaustive": not machinery,
            "tlc_generator_outputs_reused": sum(1 for x in results if getattr(x[2], "cached", False)),
            "tlc_generator_note": "generator output (a function of spec/ and the constants only) is kept in out/tlccache and shared between "
                                  "checks that replay the same records; states/transitions are those of the TLC run that produced the records; "
                                  "the replay into /repo's code is done afresh by every run",
            "tlc_jobs": [{"family": f, "module": m, **c} for f, c, m, _ in jobs],
        }
        return vlib.finish(prop, tier, level, coverage, known_hit, violations, t0, kf,
                           assumptions=assumptions or [
                               "package regexp (Go standard library) is the arbiter of the reference: a reference value that regexp does not confirm is a spec gap, skipped",
                               "TLC evaluates the TLA+ reference semantics correctly",
                           ], machinery=machinery)
    finally:
        keep = os.environ.get("VERIF_KEEP")
        if keep:
            os.makedirs(keep, exist_ok=True)
            for f in os.listdir(work):
                if "fail" in f and f.endswith(".ndjson"):
                    shutil.copy(os.path.join(work, f), os.path.join(keep, f"{prop}_{f}"))
        shutil.rmtree(work, ignore_errors=True)


def tlc_model_stage(name, module, constants, cfg_body, workers=8, timeout=3000, expect_violation=False):
    """A design-level model-checking stage: TLC must find the model's invariants and properties true
    (or, for a negative control, must find the stated violation)."""
    def run(vh, work):
        out = os.path.join(work, f"model_{name}.out")
        r = vlib.run_tlc(module, constants, cfg_body, out, workers=workers, timeout=timeout)
        res = {"states": r.distinct, "transitions": r.generated,
               "info": {f"model_{name}": {"module": module, "constants": constants, "distinct_states": r.distinct,
                                         "states_generated": r.generated, "depth": r.depth, "wall_s": round(r.wall, 1),
                                         "result": "violation" if r.violation else ("error" if r.error else "ok")}}}
        if expect_violation:
            if not r.violation:
                res["machinery"] = [f"negative control {name}: TLC did not find the expected violation ({r.error})"]
            res["states"] = res["transitions"] = 0
        elif r.violation:
            res["machinery"] = [f"design model {module} violates its own invariant (model error, not a verdict on the code): {r.violation[:600]}"]
        elif r.error:
            res["machinery"] = [f"TLC error in {module}: {r.error[:600]}"]
        return res
    return run


ITER_CFG = "SPECIFICATION Spec\nINVARIANTS ImplRefinesStd RplIsStd WellFormed\n"


def iter_model_stages(tier):
    q = tier == "quick"
    st = [tlc_model_stage("MatchIter", "MC_MatchIter", {"N": 3 if q else 4, "Adv": "rune"},
                          "CONSTANT Lims <- MCLims\n" + ITER_CFG + ("PROPERTIES Monotone Termination\n" if q else "PROPERTY Monotone\n"),
                          workers=8),
          tlc_model_stage("MatchIter_byte_control", "MC_MatchIter", {"N": 2, "Adv": "byte"},
                          "CONSTANT Lims <- MCLims\n" + ITER_CFG, workers=2, expect_violation=True)]
    return st


def iter_trace_stage(prop, max_outputs=3, maxpat=120):
    """Per TLC output: record the nine iteration loops on pumped inputs (hook H-iter) and validate the trace."""
    count = {"n": 0}

    def per_output(vh, work, out, i, fam):
        if count["n"] >= max_outputs or fam == "EXPAND":
            return None
        count["n"] += 1
        tr = os.path.join(work, f"iter_{i}.ndjson")
        rp = os.path.join(work, f"iter_{i}.json")
        p = subprocess.run([vh, "itertrace", "-in", out, "-out", tr, "-report", rp, "-maxpat", str(maxpat)],
                           capture_output=True, text=True, timeout=1200)
        if p.returncode != 0:
            raise Machinery("itertrace: " + p.stderr[-500:])
        rep = vlib.read_report(rp)
        tout = os.path.join(work, f"iter_{i}.tlc")
        scratch = tempfile.mkdtemp(prefix="vtr_")
        try:
            shutil.copy(tr, os.path.join(scratch, "iter.ndjson"))
            r = vlib.run_tlc("Trace_MatchIter", {"TraceFile": "iter.ndjson"}, "SPECIFICATION Spec\nPOSTCONDITION Accepted\n",
                             tout, workers=1, timeout=1200, scratch=scratch)
        finally:
            shutil.rmtree(scratch, ignore_errors=True)
        res = {"states": r.distinct, "transitions": r.generated, "traces": rep["traces"],
               "info": {"iter_traces": rep["traces"], "iter_events": rep["events"], "iter_iterations": rep["iterations"]}}
        txt = open(tout, errors="replace").read()
        if "Postcondition Accepted" in txt and "is false" in txt:
            # the first unexplained line is line number = depth reached
            lines = open(tr).read().splitlines()
            k = r.depth
            ctx = None
            for j in range(min(k, len(lines)) - 1, -1, -1):
                d = json.loads(lines[j])
                if d["ev"] == "begin":
                    ctx = d
                    break
            bad = json.loads(lines[k - 1]) if 0 < k <= len(lines) else {}
            fp = os.path.join(work, f"iterfail_{i}.ndjson")
            with open(fp, "w") as fh:
                fh.write(json.dumps({"prop": prop, "api": f"loop{(ctx or {}).get('loop')}", "mode": "first",
                                     "pattern": (ctx or {}).get("pat", "?"), "hay": (ctx or {}).get("hay", ""),
                                     "args": f"trace n={(ctx or {}).get('n')}", "want": "an iteration allowed by Trace_MatchIter",
                                     "got": json.dumps({kk: bad.get(kk) for kk in ("ev", "pos", "s", "e", "emit", "np", "count")})}) + "\n")
            res["fail_path"] = fp
        elif r.error or r.violation:
            res["machinery"] = [f"Trace_MatchIter: {(r.error or r.violation)[:500]}"]
        return res
    return per_output


def validate_trace(module, trace_path, work, tag, consts=None, invariants=None):
    """Run a Trace_* specification on a recorded ndjson trace. Returns (TLCResult, accepted, first_bad_line)."""
    tout = os.path.join(work, f"trace_{tag}.tlc")
    scratch = tempfile.mkdtemp(prefix="vtr_")
    try:
        shutil.copy(trace_path, os.path.join(scratch, "trace.ndjson"))
        c = {"TraceFile": "trace.ndjson"}
        c.update(consts or {})
        body = "SPECIFICATION Spec\nPOSTCONDITION Accepted\n" + ("INVARIANTS " + " ".join(invariants) + "\n" if invariants else "")
        r = vlib.run_tlc(module, c, body, tout, workers=1, timeout=2400, scratch=scratch, heap="6g")
    finally:
        shutil.rmtree(scratch, ignore_errors=True)
    txt = open(tout, errors="replace").read()
    rejected = "Postcondition Accepted" in txt and "is false" in txt
    if rejected:
        r.error = None
    return r, (not rejected and not r.error and not r.violation), r.depth


def object_stage(prop, tier):
    """RegexObject: TLC explores the life-cycle state graph and prints every transition; each is replayed on real values."""
    def run(vh, work):
        out = os.path.join(work, "object.out")
        nvals = [1, 2] if tier == "quick" else [1, 2, 3]
        r = vlib.run_tlc("RegexObject", {"Vals": set(nvals)}, "SPECIFICATION Spec\nINVARIANT TypeOK\nPROPERTY ModeIsolation\n", out,
                         workers=8, timeout=3000)
        if r.error or r.violation:
            return {"machinery": [f"RegexObject: {(r.error or r.violation)[:500]}"]}
        rp, fp = os.path.join(work, "object.json"), os.path.join(work, "object_fail.ndjson")
        p = subprocess.run([vh, "object", "-in", out, "-props", prop, "-report", rp, "-fail", fp], capture_output=True, text=True, timeout=3000)
        os.remove(out)
        if p.returncode != 0:
            return {"machinery": ["object replay: " + p.stderr[-500:]]}
        rep = vlib.read_report(rp)
        return {"states": r.distinct, "transitions": r.generated, "traces": rep.get("cases", 0), "fail_path": fp,
                "machinery": rep.get("machinery_errors") or [],
                "info": {"object_model": {"module": "RegexObject", "values": len(nvals), "distinct_states": r.distinct,
                                          "transitions_replayed": rep.get("cases", 0), "calls": rep.get("calls", 0),
                                          "spec_gaps": rep.get("spec_gaps", 0)}}}
    return run


def backtrack_stages(prop, tier):
    q = tier == "quick"
    consts = {"G": 4, "MaxN": 2 if q else 3, "MaxSearches": 5 if q else 6}
    cfg = "SPECIFICATION Spec\nINVARIANTS TypeOK NoStale Bounded\n" + ("PROPERTY Termination\n" if q else "")
    st = [tlc_model_stage("Backtrack", "Backtrack", dict(consts, WrapClears="cap"), cfg, workers=4),
          tlc_model_stage("Backtrack_len_control", "Backtrack", dict(consts, WrapClears="len"),
                          "SPECIFICATION Spec\nINVARIANTS TypeOK NoStale Bounded\n", workers=2, expect_violation=True)]

    def trace(vh, work):
        tr = os.path.join(work, "bt.ndjson")
        rp, fp = os.path.join(work, "bt.json"), os.path.join(work, "bt_fail.ndjson")
        p = subprocess.run([vh, "bttrace", "-out", tr, "-report", rp, "-fail", fp, "-npat", "1" if q else "3", "-wraps", "1" if q else "2"],
                           capture_output=True, text=True, timeout=1800)
        if p.returncode != 0:
            return {"machinery": ["bttrace: " + p.stderr[-500:]]}
        rep = vlib.read_report(rp)
        r, ok, depth = validate_trace("Trace_Backtrack", tr, work, "bt", consts={"G": 65536}, invariants=["Bounded"])
        res = {"states": r.distinct, "transitions": r.generated, "traces": rep.get("cases", 0), "fail_path": fp,
               "info": {"backtracker_trace": {"events": rep["extra"]["events"], "generation_bumps": rep["extra"]["bumps"],
                                              "probes_aged_vs_fresh": rep.get("cases", 0), "accepted": ok}}}
        if r.error or r.violation:
            res["machinery"] = [f"Trace_Backtrack: {(r.error or r.violation)[:500]}"]
        elif not ok:
            lines = open(tr).read().splitlines()
            bad = lines[depth - 1] if 0 < depth <= len(lines) else "?"
            with open(fp, "a") as fh:
                fh.write(json.dumps({"prop": prop, "api": "Backtracker.visited-table", "mode": "first", "pattern": "ab|a[bc]+d|(a|b)*c",
                                     "hay": "", "scope": "Backtracker", "args": f"trace line {depth}",
                                     "want": "an event allowed by Trace_Backtrack (generation +1 mod 65536; overflow clears the whole capacity; need <= cap)",
                                     "got": bad}) + "\n")
        return res
    return st + [trace]


def c13(prop, tier):
    return run_search_family(prop, tier, prop, subcmd="history", budget_scale=0.5 if tier == "quick" else 0.7, extra_args=["-corpus-first"],
                             stages=[object_stage(prop, tier)] + backtrack_stages(prop, tier),
                             rule="relational (aged value vs freshly compiled value): every haystack of a TLC-generated record in order through a "
                                  "rotating API on one aged value per pattern and mode, each call repeated, GC in between, first calls repeated at the "
                                  "end; RegexObject transitions (Use) replayed; deep backtracker history through a uint16 generation overflow recorded by "
                                  "hook H-bt and validated by Trace_Backtrack; non-trivial = reference has a match on a non-empty haystack",
                             assumptions=["relational: the fresh value's answer is the reference (whether it equals regexp is C01-C04's business)",
                                          "the protocol models (Backtrack, RegexObject) are bound to the code by trace validation / transition replay"])


def pike_stage(prop, tier, max_outputs=2):
    """Long pumped inputs: the library's answers validated by TLC running the specification's Pike simulation (Trace_Pike)."""
    count = {"n": 0}
    q = tier == "quick"

    def per_output(vh, work, out, i, fam):
        if count["n"] >= max_outputs or fam in ("EXPAND", "COMPILE"):
            return None
        count["n"] += 1
        tr, cs, rp = os.path.join(work, f"pike_{i}.ndjson"), os.path.join(work, f"pike_{i}.cases"), os.path.join(work, f"pike_{i}.json")
        p = subprocess.run([vh, "piketrace", "-in", out, "-out", tr, "-cases", cs, "-report", rp, "-maxpat", "10" if q else "60",
                            "-maxsyms", "700" if q else "4300"], capture_output=True, text=True, timeout=1800)
        if p.returncode != 0:
            raise Machinery("piketrace: " + p.stderr[-500:])
        rep = vlib.read_report(rp)
        r, ok, depth = validate_trace("Trace_Pike", tr, work, f"pike_{i}")
        res = {"states": r.distinct, "transitions": r.generated, "traces": rep["traces"],
               "info": {"long_input_searches": rep["traces"], "long_input_symbols": rep["events"]}}
        if r.error or r.violation or not ok:
            res["machinery"] = [f"Trace_Pike: {(r.error or r.violation or 'trace not consumed to the end')[:500]}"]
            return res
        cp, cf = os.path.join(work, f"pikec_{i}.json"), os.path.join(work, f"pikefail_{i}.ndjson")
        p = subprocess.run([vh, "pikeconfirm", "-tlc", os.path.join(work, f"trace_pike_{i}.tlc"), "-cases", cs, "-syms", out, "-prop", prop,
                            "-report", cp, "-fail", cf], capture_output=True, text=True, timeout=900)
        if p.returncode != 0:
            raise Machinery("pikeconfirm: " + p.stderr[-500:])
        res["fail_path"] = cf
        res["info"]["long_input_spec_gaps"] = vlib.read_report(cp).get("spec_gaps", 0)
        return res
    return per_output


def refequiv_stage(tier):
    q = tier == "quick"
    fam = ["CAP", "G2a", "G2m", "REV"][vlib.shard_seed() % 4]
    nsh = {"CAP": 4, "G2a": 64, "G2m": 64, "REV": 8}[fam]
    return tlc_model_stage("RefEquiv", "MC_RefEquiv", {"Family": fam, "Shard": vlib.shard_seed() % min(nsh, 4), "NShards": nsh * (2 if q else 1),
                                                        "Budget": 40 if q else 90, "LCap": 3},
                           "SPECIFICATION Spec\nINVARIANT Equivalent\n", workers=6)


def c_search(prop, tier):
    # auxiliary stage in every search check: pumped haystacks compared with regexp directly (the property's own reference)
    # the enumeration / longest-mode / view checks make dozens of calls per input, each returning thousands of matches on a
    # 4200-byte input: they keep the pumped stage at 700 bytes in both tiers (the 4200-byte stage runs in C01-C03)
    deep = tier != "quick" and prop in ("C01", "C02", "C03")
    long_args = ["-long", "4300" if deep else "700", "-ladder", "q" if tier == "quick" else "t"]
    if prop == "C04":
        # + the families of the reverse-search driver models (C19): the enumeration derived from the per-offset reference column
        return run_search_family(prop, tier, prop, stages=iter_model_stages(tier), per_output=iter_trace_stage(prop),
                                 budget_scale=0.6 if tier == "quick" else 1.0, extra_args=long_args, extra_jobs=revsuffix_jobs(tier))
    if prop == "C10":
        return run_search_family(prop, tier, prop, stages=[object_stage(prop, tier)], budget_scale=0.6 if tier == "quick" else 1.0,
                                 per_output=pike_stage(prop, tier, 1), extra_args=long_args)
    if prop in ("C02", "C03"):
        return run_search_family(prop, tier, prop, stages=[refequiv_stage(tier)], per_output=pike_stage(prop, tier), extra_args=long_args,
                                 extra_jobs=revsuffix_jobs(tier) if prop == "C02" else None)
    if prop == "C11":   # ~40 relations per pair: a smaller haystack budget keeps the quick tier near two minutes
        return run_search_family(prop, tier, prop, budget_scale=0.6 if tier == "quick" else 1.0, extra_args=long_args)
    return run_search_family(prop, tier, prop, extra_args=long_args, extra_jobs=revsuffix_jobs(tier) if prop == "C01" else None)


def c08(prop, tier):
    q = tier == "quick"
    exp = ("EXPAND", {"MaxLen": 4 if q else 5, "Shard": vlib.shard_seed() % (4 if q else 2), "NShards": 4 if q else 2},
           "MC_Expand", "expand")
    return run_search_family(prop, tier, prop, module="MC_Replace", subcmd="replace", extra_jobs=[exp],
                             families=["CAP", "G2a", "G2x", "LIT", "CC", "U8", "G2m"], budget_scale=0.5,
                             rule="TLC enumerates pattern-family shards x haystacks and evaluates regexp.replaceAll/expand/Split of the "
                                  "reference for rotating templates, plus every template of bounded length over the token alphabet "
                                  "{$ { } 0 1 2 n _ x} against 4 capture environments; non-trivial = output differs from input (replace) "
                                  "or from the template (expand)")


def lazydfa_stages(tier):
    q = tier == "quick"
    fam = ["LIT", "G2a", "CAP", "CC"][vlib.shard_seed() % 4]
    nsh = {"LIT": 8, "G2a": 64, "CAP": 4, "CC": 16}[fam]
    consts = {"Family": fam, "Shard": vlib.shard_seed() % min(nsh, 4), "NShards": nsh * (2 if q else 1), "Budget": 40 if q else 90, "LCap": 4,
              "Caps": {2, 3, 100}, "ClearBudgets": {0, 1, 3}}
    cfg = "SPECIFICATION Spec\nINVARIANT Exact\n"
    return [tlc_model_stage("LazyDFA_keep", "MC_LazyDFA", dict(consts, Resume="keep"), cfg, workers=6),
            # the resume rule of the code as found ("restart from the start state") loses the match in progress: TLC must find it
            tlc_model_stage("LazyDFA_restart_control", "MC_LazyDFA", dict(consts, Family="LIT", Shard=0, NShards=8, Resume="restart"), cfg,
                            workers=2, expect_violation=True)]


def onepass_jobs(tier):
    """MC_OnePass generator jobs (model verdict + model search result per haystack -> real Build / Search)."""
    q = tier == "quick"
    s = vlib.shard_seed()
    jobs = []
    for fam, nsh in (("OP", 4), ("CAP", 4), ("ANC", 4)):
        for sh in ([s % 4] if q else range(4)):
            jobs.append((fam, {"Family": fam, "Shard": sh, "NShards": nsh, "Budget": 60 if q else 120, "LCap": 3 if q else 4,
                               "Guards": {"prio", "look"}, "Merge": "first"}, "MC_OnePass", "onepass"))
    return jobs


def onepass_stages(tier):
    cfg = "SPECIFICATION Spec\nINVARIANT Exact\n"
    base = {"Shard": 1, "NShards": 8, "Budget": 60, "LCap": 3}
    # negative controls: each guard of the construction is needed, and merging slots of two paths is wrong
    return [tlc_model_stage("OnePass_union_control", "MC_OnePass", dict(base, Family="OP", Guards={"prio", "look"}, Merge="union"), cfg,
                            workers=2, expect_violation=True),
            tlc_model_stage("OnePass_noprio_control", "MC_OnePass", dict(base, Family="OP", Guards={"look"}, Merge="first"), cfg,
                            workers=2, expect_violation=True),
            tlc_model_stage("OnePass_nolook_control", "MC_OnePass", dict(base, Family="ANC", Guards={"prio"}, Merge="first"), cfg,
                            workers=2, expect_violation=True)]


def c14(prop, tier):
    return run_search_family(prop, tier, prop, subcmd="engines", with_at=True, budget_scale=0.5 if tier == "quick" else 0.6,
                             stages=lazydfa_stages(tier) + onepass_stages(tier), extra_jobs=onepass_jobs(tier),
                             rule="TLC enumerates pattern-family shards x haystacks x every start offset and evaluates, per offset, the "
                                  "leftmost-first and leftmost-longest match, the match anchored at the offset and the set of all match ends; "
                                  "each engine entry point (PikeVM x12, bounded backtracker, lazy DFA forward/anchored/earliest/reverse under 6 "
                                  "cache configurations, one-pass DFA) is driven directly and compared; declined (constructor error, !CanHandle, "
                                  "nil from the one-pass search) is accepted; non-trivial = reference has a match on a non-empty haystack")


CPU_MASKS = [("avx2off", "cpu.avx2=off"), ("avx2off-ssse3off", "cpu.avx2=off,cpu.ssse3=off")]


def c12(prop, tier):
    q = tier == "quick"
    cfgdir = tempfile.mkdtemp(prefix="vC12cfg_")
    try:
        cfg_out = os.path.join(cfgdir, "cfg.out")
        # the whole configuration list in both tiers: which configurations a pattern gets must not depend on the tier
        r = vlib.run_tlc("MC_Config", {"Shard": 0, "NShards": 1},
                         "SPECIFICATION Spec\nINVARIANT Emit\n", cfg_out, workers=4, timeout=900)
        if r.error or r.violation:
            raise Machinery(f"MC_Config: {r.error or r.violation}")
        cfg_states = (r.distinct, r.generated)

        def masks(vh, work, out, i, fam):
            """Re-run the default-configuration digest under masked CPU features and compare."""
            base = os.path.join(work, f"digest_{i}.txt")
            res = {"info": {"cpu_mask_runs": 0, "cpu_mask_patterns_compared": 0}}
            fails = []
            for name, godebug in CPU_MASKS:
                dp = os.path.join(work, f"digest_{i}_{name}.txt")
                env = dict(os.environ)
                env["GODEBUG"] = godebug
                p = subprocess.run([vh, "configs", "-in", out, "-cfgs", cfg_out, "-rot", "0", "-report", os.path.join(work, f"m_{i}_{name}.json"),
                                    "-fail", os.path.join(work, f"mfail_{i}_{name}.ndjson"), "-digest", dp],
                                   capture_output=True, text=True, timeout=1800, env=env)
                if p.returncode != 0:
                    raise Machinery(f"masked run {name}: {p.stderr[-400:]}")
                res["info"]["cpu_mask_runs"] += 1
                a = dict((l.split(" ", 1)[1], l.split(" ", 1)[0]) for l in open(base).read().splitlines() if l)
                b = dict((l.split(" ", 1)[1], l.split(" ", 1)[0]) for l in open(dp).read().splitlines() if l)
                res["info"]["cpu_mask_patterns_compared"] += len(a)
                for k, v in a.items():
                    if b.get(k) != v:
                        fails.append({"prop": prop, "api": "cpu-mask", "mode": "first", "pattern": k.split(":", 2)[2], "hay": "",
                                      "cfg": name, "want": "results identical with CPU vector extensions masked (GODEBUG=" + godebug + ")",
                                      "got": "result digest over all haystacks differs", "fam": fam})
                # failures inside the masked run (fixed configs vs default under the mask)
                mf = os.path.join(work, f"mfail_{i}_{name}.ndjson")
                if os.path.exists(mf):
                    for line in open(mf):
                        d = json.loads(line)
                        d["cfg"] = (d.get("cfg") or "") + "+" + name
                        fails.append(d)
            if fails:
                fp = os.path.join(work, f"maskfail_{i}.ndjson")
                with open(fp, "w") as fh:
                    for d in fails:
                        fh.write(json.dumps(d) + "\n")
                res["fail_path"] = fp
            return res

        def cfg_stage(vh, work):
            return {"states": cfg_states[0], "transitions": cfg_states[1],
                    "info": {"model_Config": {"module": "MC_Config", "distinct_states": cfg_states[0]}}}

        return run_search_family(prop, tier, prop, subcmd="configs", budget_scale=0.4 if q else 0.5,
                                 extra_args=["-cfgs", cfg_out, "-digest", "{work}/digest_{i}.txt"], per_output=masks, stages=[cfg_stage],
                                 rule="TLC enumerates the configuration space (boundary values of every field; Valid = TLA+ transcription of "
                                      "Validate) and the pattern universe; per pattern 6 fixed + 6 rotating valid configurations are compiled and "
                                      "Match/FindIndex/FindSubmatchIndex/FindAllIndex/Count compared with the default configuration and with the "
                                      "plain NFA simulation; the default-configuration results are recomputed under masked CPU features "
                                      "(GODEBUG=cpu.avx2=off[,cpu.ssse3=off]) and compared by digest; non-trivial = a match exists on a non-empty haystack",
                                 assumptions=["relational: no reference value is involved; the only trusted parts are TLC (enumeration) and the harness comparison",
                                              "golang.org/x/sys/cpu honours GODEBUG=cpu.*=off (checked at setup by the harness printing the detected features)"])
    finally:
        shutil.rmtree(cfgdir, ignore_errors=True)


def c09(prop, tier):
    q = tier == "quick"
    gen = ("COMPILE", {"MaxLen": 3 if q else 4, "Shard": vlib.shard_seed() % 2 if q else vlib.shard_seed() % 4, "NShards": 2 if q else 4},
           "MC_Compile", "compile")
    return run_search_family(prop, tier, prop, extra_jobs=[gen], stages=[object_stage(prop, tier)], budget_scale=0.1,
                             rule="TLC enumerates every string of <= MaxLen tokens over a 26-token alphabet of syntax characters plus limit families "
                                  "(nesting 1..1001, repetition counts, nested repetition, alternation width, class ranges, flags, names); regexp judges "
                                  "acceptance and error text, coregex must agree on Compile/CompilePOSIX/MustCompile and every accessor; QuoteMeta against "
                                  "its TLA+ definition; NumSubexp/SubexpNames of the AST universe against NCaps/Names of the specification; RegexObject "
                                  "transitions (Compile, CompilePOSIX, Marshal) replayed; non-trivial = regexp accepts the string",
                             assumptions=["package regexp is the judge of which strings are patterns and of error texts (the specification only generates them)",
                                          "TLC evaluates QuoteMeta / NCaps / Names correctly"])


def revsuffix_jobs(tier):
    """MC_ReverseSuffix generator jobs: the model of the reverse-suffix DRIVER (spec/ReverseSuffix.tla) evaluated on the family where
    it is claimed exact (RSW) and on the wider family meta.isSafeForReverseSuffix admits (RSG); `revsuffix` compares the engine
    with the reference (verdict) and the real searcher with the model (conformance, counted)."""
    base = {"Shard": 0, "NShards": 1, "Claim": False, "Variant": "code"}
    ri = {"Shard": 0, "NShards": 1, "Claim": False, "Variant": "code"}
    return [("RSW", dict(base, Family="RSW", Budget=400, LCap=5), "MC_ReverseSuffix", "revsuffix"),
            ("RSG", dict(base, Family="RSG", Budget=1400, LCap=5), "MC_ReverseSuffix", "revsuffix"),
            ("RSR", dict(base, Family="RSR", Budget=1400, LCap=6), "MC_ReverseSuffix", "revsuffix"),
            # the reverse-inner driver (spec/ReverseInner.tla): P.I.Q with wildcard / class / alternation prefixes, self-overlapping
            # inner literals, universal and non-universal suffixes
            ("RIG", dict(ri, Family="RIG", Budget=1400, LCap=5), "MC_ReverseInner", "revsuffix"),
            # the reverse-suffix-set driver (spec/ReverseSuffixSet.tla): A.(L1|L2), literals that overlap / contain each other
            ("SSG", dict(ri, Family="SSG", Budget=1400, LCap=6), "MC_ReverseSuffixSet", "revsuffix"),
            # the multiline reverse-suffix driver (spec/ReverseSuffixML.tla): (?m)^ [P] W L on haystacks with newlines; MLS = (?s:.) wildcards,
            # which the selector no longer gives to this searcher (the directly constructed searcher still follows the model there)
            ("MLW", dict(ri, Family="MLW", Budget=1400, LCap=6), "MC_ReverseSuffixML", "revsuffix"),
            ("MLS", dict(ri, Family="MLS", Budget=1400, LCap=6), "MC_ReverseSuffixML", "revsuffix")]


def revsuffix_stages(tier):
    cfg = "SPECIFICATION Spec\nINVARIANT Exact\n"
    base = {"Family": "RSW", "Shard": 0, "NShards": 1, "Budget": 160, "LCap": 5, "Claim": True}
    # theorem: wildcard + literal, nothing else - the driver is exact.  Negative controls: two repaired defects of the driver.
    return [tlc_model_stage("ReverseSuffix_exact_on_RSW", "MC_ReverseSuffix", dict(base, Variant="code"), cfg, workers=4),
            tlc_model_stage("ReverseSuffix_norescan_control", "MC_ReverseSuffix", dict(base, Variant="norescan"), cfg, workers=2, expect_violation=True),
            tlc_model_stage("ReverseSuffix_lastcand_control", "MC_ReverseSuffix", dict(base, Variant="lastcand"), cfg, workers=2, expect_violation=True),
            # repeated group before the suffix (non-contiguous starts): exact as it is; rescanning only when the guarded hit lies on the guard is not
            tlc_model_stage("ReverseSuffix_exact_on_RSR", "MC_ReverseSuffix", dict(base, Family="RSR", Budget=1400, LCap=6, Variant="code"), cfg, workers=4),
            tlc_model_stage("ReverseSuffix_rescaneq_control", "MC_ReverseSuffix", dict(base, Family="RSR", Budget=1400, LCap=6, Variant="rescaneq"), cfg,
                            workers=4, expect_violation=True),
            # `.*I.*`: the universal shortcut of the reverse-inner driver is exact
            tlc_model_stage("ReverseSuffixSet_exact_on_SSG", "MC_ReverseSuffixSet", dict(base, Family="SSG", Budget=300, Variant="code"), cfg, workers=4),
            tlc_model_stage("ReverseSuffixML_exact_on_MLW", "MC_ReverseSuffixML", dict(base, Family="MLW", Budget=600, LCap=6, Variant="code"), cfg, workers=4),
            # the driver as it was before the repair: [line start, end of the first suffix] as soon as the line begins with the prefix literal
            tlc_model_stage("ReverseSuffixML_prefixonly_control", "MC_ReverseSuffixML", dict(base, Family="MLW", Budget=600, LCap=6, Variant="prefixonly"), cfg,
                            workers=2, expect_violation=True),
            tlc_model_stage("ReverseInner_exact_on_RIU", "MC_ReverseInner", dict(base, Family="RIU", Budget=400, Variant="code"), cfg, workers=2)]


def c19(prop, tier):
    return run_search_family(prop, tier, prop, subcmd="fastpaths", with_at=True, budget_scale=0.6 if tier == "quick" else 0.7,
                             extra_jobs=revsuffix_jobs(tier), stages=revsuffix_stages(tier),
                             families=["REV", "ANC", "ANC2", "ANC3", "CC", "DIG", "LIT", "G2a", "G2m", "U8", "G2u", "TRI", "G1", "BIG"],
                             rule="TLC enumerates the families designed around the strategy selector (REV, ANC, CC, DIG, LIT) and generic shards, "
                                  "x haystacks x every start offset; patterns whose selected strategy is a special-purpose searcher are checked end to end "
                                  "through Engine.IsMatch/FindIndicesAt/FindAt/FindSubmatchAt, and every public searcher whose own applicability predicate "
                                  "accepts the pattern is constructed as meta/compile.go does and driven directly; non-trivial = reference has a match on a "
                                  "non-empty haystack; per-strategy pattern counts are in patterns_by_strategy")


def c15(prop, tier):
    """Translation validation of the NFA compiler's byte automata by TLC (spec/MC_UTF8.tla, spec/UTF8.tla)."""
    t0 = time.time()
    q = tier == "quick"
    vh = vlib.build_harness()
    work = tempfile.mkdtemp(prefix="vC15_")
    try:
        machinery = []
        gen_out = os.path.join(work, "gen.out")
        base = {"NFAFile": "none", "Shard": 0, "NShards": 1, "MaxIll": 1}
        r0 = vlib.run_tlc("MC_UTF8", dict(base, Phase="gen"), SEARCH_CFG, gen_out, workers=2, timeout=600)
        if r0.error or r0.violation:
            raise Machinery(f"MC_UTF8 gen: {r0.error or r0.violation}")
        nfas = os.path.join(work, "nfas.ndjson")
        p = subprocess.run([vh, "nfaexport", "-in", gen_out, "-out", nfas], capture_output=True, text=True, timeout=600)
        if p.returncode != 0:
            raise Machinery("nfaexport: " + p.stderr[-500:])
        nsh = 3 if q else 1
        shard = vlib.shard_seed() % nsh
        chk_out = os.path.join(work, "check.out")
        scratch = tempfile.mkdtemp(prefix="vtlc_")
        try:
            shutil.copy(nfas, os.path.join(scratch, "nfas.ndjson"))
            r1 = vlib.run_tlc("MC_UTF8", {"Phase": "check", "NFAFile": "nfas.ndjson", "Shard": shard, "NShards": nsh, "MaxIll": 2 if q else 3}, SEARCH_CFG, chk_out,
                              workers=16, timeout=3000, heap="8g", java_opts=["-Xss1g"], scratch=scratch)
        finally:
            shutil.rmtree(scratch, ignore_errors=True)
        if r1.error or r1.violation:
            raise Machinery(f"MC_UTF8 check: {r1.error or r1.violation}")
        rp, fp = os.path.join(work, "r.json"), os.path.join(work, "f.ndjson")
        p = subprocess.run([vh, "utf8confirm", "-in", chk_out, "-report", rp, "-fail", fp], capture_output=True, text=True, timeout=1200)
        if p.returncode != 0:
            raise Machinery("utf8confirm: " + p.stderr[-500:])
        rep = vlib.read_report(rp)
        # auxiliary: sweep of the code points with the real engine against regexp
        srp, sfp = os.path.join(work, "sr.json"), os.path.join(work, "sf.ndjson")
        p = subprocess.run([vh, "utf8sweep", "-in", gen_out, "-report", srp, "-fail", sfp, "-step", "29" if q else "1"],
                           capture_output=True, text=True, timeout=3000)
        if p.returncode != 0:
            raise Machinery("utf8sweep: " + p.stderr[-500:])
        srep = vlib.read_report(srp)
        kf, known_hit, violations, total = vlib.classify([fp, sfp], prop)
        coverage = {
            "programs": rep["extra"]["automata_checked"], "disagreements_checked": rep["extra"]["disagreements_confirmed"] + rep.get("spec_gaps", 0),
            "samples": rep.get("samples") or [{"note": "none"}],
            "states": r0.distinct + r1.distinct, "transitions": r0.generated + r1.generated,
            "evaluations": rep["extra"]["acceptance_tests_by_tlc"] + srep["extra"]["code_points_swept"],
            "distinct_nontrivial": rep["extra"]["acceptance_tests_by_tlc"],
            "rule": "one program = the exported byte automaton of one descriptor (class / negated class / folded class / literal / dot) in one compilation "
                    "mode; TLC runs its byte-level semantics on the encodings of all boundary code points of the descriptor and on every byte string of "
                    "length <= 3 over 15 lead/continuation/ASCII bytes (each an acceptance test, all distinct) and compares with Member(descriptor, decoded "
                    "rune); every disagreement is confirmed against regexp and the real engine before it counts; auxiliary: the real engine on every "
                    "code point (stride given below) against regexp",
            "acceptance_tests_by_tlc": rep["extra"]["acceptance_tests_by_tlc"], "code_points_swept_in_go": srep["extra"]["code_points_swept"],
            "sweep_stride": 29 if q else 1, "descriptor_shard": f"{shard}/{nsh}", "spec_gaps": rep.get("spec_gaps", 0) ,
            "failing_calls_total": total, "exhaustive": not q, "tlc_wall_s": round(r0.wall + r1.wall, 1),
        }
        machinery += rep.get("machinery_errors") or []
        return vlib.finish(prop, tier, "translation_validation", coverage, known_hit, violations, t0, kf,
                           assumptions=["the exporter reads the automaton through nfa.NFA's public inspection API faithfully (a disagreement is re-observed on the real engine before it counts)",
                                        "regexp arbitrates the expected acceptance (three-way)", "TLC evaluates the byte-level semantics and UTF-8 definitions correctly"],
                           machinery=machinery)
    finally:
        keep = os.environ.get("VERIF_KEEP")
        if keep:
            os.makedirs(keep, exist_ok=True)
            for f in ("f.ndjson", "sf.ndjson"):
                if os.path.exists(os.path.join(work, f)):
                    shutil.copy(os.path.join(work, f), os.path.join(keep, f"{prop}_fail_{f}"))
        shutil.rmtree(work, ignore_errors=True)


def parse_race_reports(text):
    """Data race reports of the Go race detector -> set of (site, site) pairs (library functions, no line numbers)."""
    import re as _re
    pairs = {}
    for block in text.split("WARNING: DATA RACE")[1:]:
        block = block.split("==================")[0]
        halves = _re.split(r"\nPrevious (?:read|write) at ", block, maxsplit=1)
        sites = []
        for half in halves[:2]:
            # the call site: the innermost frame of package meta (or the root package) - the function that reached for the
            # shared object; frames inside nfa/dfa vary from run to run, the call site does not
            site = "?"
            frames = _re.findall(r"^  (github\.com/coregx/coregex[^\s]*?)\(\)\n", half, _re.M)
            for fn in frames:
                short = fn.replace("github.com/coregx/coregex", "")
                if short.startswith("/meta.") or short.startswith(".("):
                    site = short
                    break
            if site == "?" and frames:
                site = frames[0].replace("github.com/coregx/coregex", "")
            sites.append(site)
        if len(sites) == 2:
            key = " <-> ".join(sorted(sites))
            pairs[key] = pairs.get(key, 0) + 1
    return pairs


def c06(prop, tier):
    t0 = time.time()
    q = tier == "quick"
    vh = vlib.build_harness()
    work = tempfile.mkdtemp(prefix="vC06_")
    try:
        machinery, fail_paths = [], []
        states = trans = 0
        info = {}
        # (1) the design model: every interleaving
        gs = {1, 2} if q else {1, 2, 3}
        calls = 2 if q else 1
        mres = tlc_model_stage("Pool", "MC_Pool", {"Gs": gs, "Calls": 2, "MaxNew": 3, "MaxGC": 1, "EmitSchedules": False},
                               "SPECIFICATION Spec\nINVARIANTS Exclusive NotShared SlotNotPooled SearchOwns OneStateWhenSequential\n"
                               "PROPERTY Termination\nVIEW View\n", workers=8)(vh, work)
        machinery += mres.get("machinery") or []
        states += mres.get("states", 0)
        trans += mres.get("transitions", 0)
        info.update(mres.get("info") or {})
        one = tlc_model_stage("Pool_sequential", "MC_Pool", {"Gs": {1}, "Calls": 3, "MaxNew": 3, "MaxGC": 1, "EmitSchedules": False},
                              "SPECIFICATION Spec\nINVARIANTS Exclusive NotShared OneStateWhenSequential\nPROPERTY Termination\nVIEW View\n", workers=2)(vh, work)
        machinery += one.get("machinery") or []
        states += one.get("states", 0)
        trans += one.get("transitions", 0)
        info.update(one.get("info") or {})
        # (2) schedules -> gated replay -> trace validation
        sched_out = os.path.join(work, "sched.out")
        r = vlib.run_tlc("MC_Pool", {"Gs": gs, "Calls": calls, "MaxNew": 2 if q else 3, "MaxGC": 1 if q else 0, "EmitSchedules": True},
                         "SPECIFICATION Spec\nINVARIANTS Exclusive NotShared EmitDone\n", sched_out, workers=1, timeout=1800)
        if r.error or r.violation:
            raise Machinery(f"MC_Pool schedules: {r.error or r.violation}")
        states += r.distinct
        trans += r.generated
        tr = os.path.join(work, "pool.ndjson")
        rp, fp = os.path.join(work, "pool.json"), os.path.join(work, "pool_fail.ndjson")
        stride = 7 if q else 3
        p = subprocess.run([vh, "poolsched", "-in", sched_out, "-out", tr, "-report", rp, "-fail", fp, "-goroutines", str(len(gs)),
                            "-calls", str(calls), "-stride", str(stride), "-offset", str(vlib.shard_seed() % stride)],
                           capture_output=True, text=True, timeout=2400)
        if p.returncode != 0:
            raise Machinery("poolsched: " + p.stderr[-600:])
        rep = vlib.read_report(rp)
        fail_paths.append(fp)
        tr_r, ok, depth = validate_trace("Trace_Pool", tr, work, "pool", invariants=["Exclusive", "NotShared"])
        states += tr_r.distinct
        trans += tr_r.generated
        extra = []
        txt = open(os.path.join(work, "trace_pool.tlc"), errors="replace").read()
        import re as _re
        seen = set()
        for line in txt.splitlines():
            if line.startswith('"') and "scratch-shared" in line:
                d = json.loads(json.loads(line))
                k = (d["pat"], d["kind"])
                if k in seen:
                    continue
                seen.add(k)
                kind = {1: "PikeVM internal state", 2: "BacktrackerState", 3: "DFA cache"}.get(d["kind"], str(d["kind"]))
                extra.append({"prop": prop, "api": "scratch-shared", "mode": "first", "pattern": d["pat"], "hay": "", "scope": "pool",
                              "args": kind, "want": "no goroutine enters a mutable scratch object while another stands in its entry (Trace_Pool!Scr)",
                              "got": f"{kind} entered by a second goroutine while another stands in its entry (trace line {d['line']})"})
        if tr_r.error or tr_r.violation:
            machinery.append(f"Trace_Pool: {(tr_r.error or tr_r.violation)[:500]}")
        elif not ok:
            lines = open(tr).read().splitlines()
            ctx = "?"
            for j in range(min(depth, len(lines)) - 1, -1, -1):
                d = json.loads(lines[j])
                if d["ev"] == "begin":
                    ctx = d.get("pat", "?")
                    break
            extra.append({"prop": prop, "api": "pool-protocol", "mode": "first", "pattern": ctx, "hay": "", "scope": "pool",
                          "args": f"trace line {depth}", "want": "an event allowed by Trace_Pool (ownership hand-off of spec/Pool.tla)",
                          "got": lines[depth - 1] if 0 < depth <= len(lines) else "?"})
        # (3) free-running goroutines under the race detector
        vhr = vlib.build_harness(race=True)
        rrp, rfp = os.path.join(work, "race.json"), os.path.join(work, "race_fail.ndjson")
        env = dict(os.environ)
        env["GORACE"] = "halt_on_error=0 history_size=2"
        p = subprocess.run([vhr, "racerun", "-report", rrp, "-fail", rfp, "-goroutines", "8" if q else "12", "-iters", "80" if q else "300"],
                           capture_output=True, text=True, timeout=3000, env=env)
        if p.returncode not in (0, 66):
            raise Machinery(f"racerun exit {p.returncode}: {p.stderr[-600:]}")
        rrep = vlib.read_report(rrp)
        fail_paths.append(rfp)
        races = parse_race_reports(p.stderr)
        for site, n in sorted(races.items()):
            extra.append({"prop": prop, "api": "data-race", "mode": "first", "pattern": site, "hay": "", "scope": "pool",
                          "args": f"{n} reports", "want": "no data race (Go race detector)", "got": "DATA RACE between " + site})
        xp = os.path.join(work, "extra_fail.ndjson")
        with open(xp, "w") as fh:
            for d in extra:
                fh.write(json.dumps(d) + "\n")
        fail_paths.append(xp)
        kf, known_hit, violations, total = vlib.classify(fail_paths, prop)
        info.update({"schedules_generated": rep["extra"]["schedules_generated"], "schedules_replayed": rep["extra"]["schedules_replayed"],
                     "pool_events": rep["extra"]["events"], "trace_accepted": ok, "race_reports": sum(races.values()),
                     "race_site_pairs": len(races), "race_run_calls": rrep.get("calls", 0)})
        coverage = {"states": states, "transitions": trans, "traces_validated_against_impl": rep["extra"]["schedules_replayed"],
                    "samples": (rep.get("samples") or [])[:3] + (rrep.get("samples") or [])[:1] or [{"note": "none"}],
                    "evaluations": rep.get("calls", 0) + rrep.get("calls", 0), "distinct_nontrivial": rep["extra"]["schedules_replayed"],
                    "rule": "TLC explores every interleaving of the Pool model (2-3 goroutines x 1-2 calls, GC) and prints each complete schedule; a "
                            "seed-chosen 1/stride of them is replayed with gates on real goroutines sharing one Regex over 12 representative patterns x 6 "
                            "APIs; the recorded events are validated by TLC against Trace_Pool (ownership hand-off, exclusive scratch per call in progress, "
                            "results equal sequential results); plus free-running goroutines under the Go race detector; distinct = schedules replayed",
                    "stages": info, "failing_calls_total": total, "exhaustive": False}
        return vlib.finish(prop, tier, "model_checking", coverage, known_hit, violations, t0, kf,
                           assumptions=["the gates serialise the goroutines, so the recorded event order is the execution order",
                                        "absence of data races in the memory-model sense is only observed (race detector on free-running goroutines)"],
                           machinery=machinery)
    finally:
        keep = os.environ.get("VERIF_KEEP")
        if keep:
            os.makedirs(keep, exist_ok=True)
            for f in os.listdir(work):
                if f.endswith("fail.ndjson"):
                    shutil.copy(os.path.join(work, f), os.path.join(keep, f"{prop}_fail_{f}"))
        shutil.rmtree(work, ignore_errors=True)


def run_trace_stage(vh, work, tag, subcmd, module, extra_args=None, consts=None, invariants=None, prop="C20", what=""):
    """harness subcommand that records a trace + TLC validation of it. Returns a stage-result dict."""
    tr = os.path.join(work, f"{tag}.ndjson")
    rp, fp = os.path.join(work, f"{tag}.json"), os.path.join(work, f"{tag}_fail.ndjson")
    p = subprocess.run([vh, subcmd, "-out", tr, "-report", rp, "-fail", fp] + (extra_args or []), capture_output=True, text=True, timeout=2400)
    if p.returncode != 0:
        return {"machinery": [f"{subcmd}: {p.stderr[-500:]}"]}
    rep = vlib.read_report(rp)
    r, ok, depth = validate_trace(module, tr, work, tag, consts=consts, invariants=invariants)
    res = {"states": r.distinct, "transitions": r.generated, "traces": rep.get("cases", 0), "fail_path": fp, "calls": rep.get("calls", 0),
           "samples": rep.get("samples") or [],
           "info": {f"trace_{tag}": {"module": module, "events": (rep.get("extra") or {}).get("events", 0), "accepted": ok,
                                      "calls": rep.get("calls", 0)}}}
    if r.error or r.violation:
        res["machinery"] = [f"{module}: {(r.error or r.violation)[:500]}"]
    elif not ok:
        lines = open(tr).read().splitlines()
        bad = lines[depth - 1] if 0 < depth <= len(lines) else "?"
        ctx = ""
        for j in range(min(depth, len(lines)) - 1, -1, -1):
            d = json.loads(lines[j])
            if d.get("pat"):
                ctx = d["pat"]
                break
        with open(fp, "a") as fh:
            fh.write(json.dumps({"prop": prop, "api": f"{module}", "mode": "first", "pattern": ctx, "hay": "", "scope": "trace",
                                 "args": f"trace line {depth}", "want": what or f"an event allowed by {module}", "got": bad}) + "\n")
    return res


def c20(prop, tier):
    t0 = time.time()
    q = tier == "quick"
    vh = vlib.build_harness()
    vh_plain = vlib.build_harness(tags=("novh",), name="vh-notag")
    work = tempfile.mkdtemp(prefix="vC20_")
    try:
        machinery, fail_paths, samples = [], [], []
        states = trans = traces = calls = 0
        info = {}

        def take(res):
            nonlocal states, trans, traces, calls
            machinery.extend(res.get("machinery") or [])
            states += res.get("states", 0)
            trans += res.get("transitions", 0)
            traces += res.get("traces", 0)
            calls += res.get("calls", 0)
            info.update(res.get("info") or {})
            samples.extend((res.get("samples") or [])[:1])
            if res.get("fail_path"):
                fail_paths.append(res["fail_path"])

        # design models
        take(tlc_model_stage("DFACache", "DFACache", {"Cap": 10 if q else 14, "Sizes": {2, 3}, "Base": 3, "MaxClears": 2, "MaxOps": 12 if q else 16},
                             "SPECIFICATION Spec\nINVARIANTS Bounded ClearsBounded\nPROPERTY FullResolved\n", workers=4)(vh, work))
        take(tlc_model_stage("Pool_sequential", "MC_Pool", {"Gs": {1}, "Calls": 3, "MaxNew": 3, "MaxGC": 1, "EmitSchedules": False},
                             "SPECIFICATION Spec\nINVARIANTS Exclusive NotShared OneStateWhenSequential\nPROPERTY Termination\nVIEW View\n", workers=2)(vh, work))
        take(tlc_model_stage("Backtrack", "Backtrack", {"G": 4, "MaxN": 2, "MaxSearches": 5, "WrapClears": "cap"},
                             "SPECIFICATION Spec\nINVARIANTS TypeOK NoStale Bounded\n", workers=4)(vh, work))
        # recorded executions
        take(run_trace_stage(vh, work, "dfa", "dfatrace", "Trace_DFACache", extra_args=["-searches", "60" if q else "400"], prop=prop,
                             what="Insert only below capacity, clears within MaxCacheClears, usage <= capacity + one state"))
        take(run_trace_stage(vh, work, "poolseq", "poolseq", "Trace_Pool", invariants=["Exclusive", "NotShared"], prop=prop,
                             what="hand-off of search states as in spec/Pool.tla"))
        take(run_trace_stage(vh, work, "bt", "bttrace", "Trace_Backtrack", extra_args=["-npat", "1", "-wraps", "1"], consts={"G": 65536},
                             invariants=["Bounded"], prop=prop, what="visited table: need <= cap, live length <= capacity"))
        # allocations: patterns of the universe (one small TLC generator run) + the representatives, WITHOUT the verif tag
        gen = os.path.join(work, "gen.out")
        r = vlib.run_tlc("MC_Search", {"Family": "REV" if vlib.shard_seed() % 2 else "CC", "Shard": vlib.shard_seed() % 4, "NShards": 8 if q else 4,
                                       "Budget": 20, "LCap": 3, "WithAt": False}, SEARCH_CFG, gen, workers=4, timeout=900)
        if r.error or r.violation:
            machinery.append(f"MC_Search for allocs: {r.error or r.violation}")
        states += r.distinct
        trans += r.generated
        rp, fp = os.path.join(work, "allocs.json"), os.path.join(work, "allocs_fail.ndjson")
        p = subprocess.run([vh_plain, "allocs", "-in", gen, "-report", rp, "-fail", fp, "-maxpat", "150" if q else "600"],
                           capture_output=True, text=True, timeout=2400)
        if p.returncode != 0:
            machinery.append("allocs: " + p.stderr[-500:])
        else:
            arep = vlib.read_report(rp)
            fail_paths.append(fp)
            calls += arep.get("calls", 0)
            traces += arep.get("cases", 0)
            samples += (arep.get("samples") or [])[:2]
            info["allocs"] = {"patterns": arep.get("patterns"), "pattern_haystack_pairs": arep.get("cases"), "calls": arep.get("calls")}
        kf, known_hit, violations, total = vlib.classify(fail_paths, prop)
        coverage = {"states": states, "transitions": trans, "traces_validated_against_impl": traces, "samples": samples[:6] or [{"note": "none"}],
                    "evaluations": calls, "distinct_nontrivial": traces,
                    "rule": "protocol models (DFACache, Pool with one goroutine, Backtrack) checked by TLC; recorded executions validated by the trace "
                            "specifications: 105 lazy-DFA caches (7 patterns x 5 capacities x 3 clear budgets) over a fixed corpus with MemoryUsage probes, "
                            "12 single-goroutine pool histories of 360 calls with a GC, one backtracker history through a generation overflow; "
                            "AllocsPerRun = 0 and stable post-GC heap for 7 documented zero-allocation calls over representative and universe patterns "
                            "(binary built without the verif tag); distinct = recorded traces + (pattern, haystack) pairs measured",
                    "stages": info, "failing_calls_total": total, "exhaustive": False}
        return vlib.finish(prop, tier, "model_checking", coverage, known_hit, violations, t0, kf,
                           assumptions=["MemoryUsage() is the library's own byte accounting (the bound is stated in its terms)",
                                        "allocation counts are measured on a build without instrumentation"], machinery=machinery)
    finally:
        keep = os.environ.get("VERIF_KEEP")
        if keep:
            os.makedirs(keep, exist_ok=True)
            for f in os.listdir(work):
                if f.endswith("fail.ndjson"):
                    shutil.copy(os.path.join(work, f), os.path.join(keep, f"{prop}_fail_{f}"))
        shutil.rmtree(work, ignore_errors=True)


def c05(prop, tier):
    """Work (executed basic blocks, coverage counters) against haystack length on pumped members of the universe."""
    t0 = time.time()
    q = tier == "quick"
    vcov = vlib.build_harness(tags=("novh",), cover=True, name="vh-cover")
    work = tempfile.mkdtemp(prefix="vC05_")
    try:
        machinery, fail_paths, samples = [], [], []
        # every 2-symbol haystack over the pattern's alphabet, pumped whole to 128..2048 bytes - the SAME measurement in both tiers
        # (a verdict is a property of the series of measurements, so the quick tier must measure exactly what the thorough tier
        # measures, on a third of one shard instead of every shard of the universe)
        jobs = [(fam, dict(c, Budget=60, LCap=2))
                for fam, c in search_jobs(tier, ["CC", "REV", "G2a", "CAP", "LIT", "DIG", "ANC", "G2u", "TRI", "G1"], False, 1.0)]
        if q:   # a third of the shard's patterns (indices i with i % 3n = s are a subset of those with i % n = s); G1 only in the thorough tier
            jobs = [(f, dict(c, NShards=c["NShards"] * 3)) for f, c in jobs if f != "G1"]
        states = trans = 0
        agg = {"patterns": 0, "cases": 0, "calls": 0, "nontrivial": 0}

        def mk(fam, consts, i):
            def run():
                out = os.path.join(work, f"tlc_{i}.out")
                r = vlib.run_tlc("MC_Search", consts, SEARCH_CFG, out, workers=2, timeout=3000)
                if r.error or r.violation:
                    return (r, [])
                outs = []
                nparts = 2
                procs = []
                for part in range(nparts):
                    rp, fp = os.path.join(work, f"rep_{i}_{part}.json"), os.path.join(work, f"fail_{i}_{part}.ndjson")
                    procs.append((subprocess.Popen([vcov, "work", "-in", out, "-report", rp, "-fail", fp, "-part", str(part), "-parts", str(nparts),
                                                    "-maxn", "2048", "-maxhay", "2"], stdout=subprocess.PIPE, stderr=subprocess.PIPE, text=True), rp, fp))
                for pr, rp, fp in procs:
                    try:
                        _, err = pr.communicate(timeout=3000)
                    except subprocess.TimeoutExpired:
                        pr.kill()
                        r.error = "work measurement timed out"
                        continue
                    if pr.returncode != 0:
                        r.error = f"work exit {pr.returncode}: {err[-400:]}"
                    else:
                        outs.append((rp, fp))
                os.remove(out)
                return (r, outs)
            return run
        results = vlib.run_parallel([mk(f, c, i) for i, (f, c) in enumerate(jobs)], 8)
        for r, outs in results:
            if r.error or r.violation:
                machinery.append(f"C05 job: {(r.error or r.violation)[:400]}")
            states += r.distinct
            trans += r.generated
            for rp, fp in outs:
                rep = vlib.read_report(rp)
                for k in agg:
                    agg[k] += rep.get(k, 0)
                samples += (rep.get("samples") or [])[:1]
                fail_paths.append(fp)
        kf, known_hit, violations, total = vlib.classify(fail_paths, prop)
        coverage = {"evaluations": agg["calls"], "distinct_nontrivial": agg["nontrivial"],
                    "rule": "TLC enumerates pattern-family shards; per pattern up to 3 haystacks of its record are split u.v.w four ways and pumped to "
                            "v^k with n = 128..2048 in both tiers; work = executed basic blocks of library code (runtime/coverage "
                            "counters), second of two identical calls, for Match, FindIndex, FindSubmatchIndex; a series is non-trivial/distinct per "
                            "(pattern, u, v, w, api); superlinear iff log-log slope > 1.35 and the last two doubling ratios > 2.4 and work > 50k blocks; "
                            "compile work on 8 pattern-text families pumped to 1024 bytes (degree <= 3)",
                    "samples": samples[:8] or [{"note": "none"}], "states": states, "transitions": trans,
                    "patterns": agg["patterns"], "pumped_families": agg["cases"], "failing_calls_total": total,
                    "tlc_jobs": [{"family": f, **c} for f, c in jobs], "exhaustive": False}
        return vlib.finish(prop, tier, "exploration", coverage, known_hit, violations, t0, kf,
                           assumptions=["executed basic blocks of Go code are the proxy for time; loops inside assembly kernels are not counted (they are single-pass by construction; re-invocations are counted per call)",
                                        "the verdict is a measured growth rate on pumped inputs up to the stated length, not a proof"],
                           machinery=machinery)
    finally:
        keep = os.environ.get("VERIF_KEEP")
        if keep:
            os.makedirs(keep, exist_ok=True)
            for f in os.listdir(work):
                if "fail" in f and f.endswith(".ndjson"):
                    shutil.copy(os.path.join(work, f), os.path.join(keep, f"{prop}_{f}"))
        shutil.rmtree(work, ignore_errors=True)


def masked_replay_check(prop, tier, jobs, subcmd, sub_args, rule, level="model_checking", teeth=None, assumptions=None, workers=6):
    """Common plan of C16 / C18: TLC generator jobs -> one harness run over all outputs, repeated under CPU-feature masks."""
    t0 = time.time()
    vh = vlib.build_harness()
    work = tempfile.mkdtemp(prefix=f"v{prop}_")
    try:
        machinery, fail_paths, samples, info = [], [], [], {}
        states = trans = 0

        def mk(name, module, consts):
            def run():
                out = os.path.join(work, f"{name}.out")
                return name, out, vlib.run_tlc(module, consts, SEARCH_CFG, out, workers=workers, timeout=3000, heap="6g")
            return run
        outs = []
        for name, out, r in vlib.run_parallel([mk(n, m, c) for n, m, c in jobs], 3):
            if r.error or r.violation:
                machinery.append(f"{name}: {(r.error or r.violation)[:500]}")
                continue
            states += r.distinct
            trans += r.generated
            outs.append(out)
            info[f"tlc_{name}"] = {"distinct_states": r.distinct, "wall_s": round(r.wall, 1)}
        for name, module, consts, expect in (teeth or []):
            out = os.path.join(work, f"teeth_{name}.out")
            r = vlib.run_tlc(module, consts, SEARCH_CFG, out, workers=2, timeout=600)
            ok = bool(r.error and expect in open(out, errors="replace").read())
            info[f"negative_control_{name}"] = "rejected by TLC as expected" if ok else "NOT rejected"
            if not ok:
                machinery.append(f"negative control {name}: TLC did not reject the deliberately broken model")
        agg = {"patterns": 0, "cases": 0, "calls": 0, "nontrivial": 0, "spec_gaps": 0}
        if outs:
            for mname, godebug in [("plain", "")] + CPU_MASKS:
                rp, fp = os.path.join(work, f"rep_{mname}.json"), os.path.join(work, f"fail_{mname}.ndjson")
                env = dict(os.environ)
                if godebug:
                    env["GODEBUG"] = godebug
                else:
                    env.pop("GODEBUG", None)
                p = subprocess.run([vh, subcmd, "-in", ",".join(outs), "-report", rp, "-fail", fp] + sub_args, capture_output=True, text=True,
                                   timeout=3000, env=env)
                if p.returncode != 0:
                    machinery.append(f"{subcmd} [{mname}] exit {p.returncode}: {p.stderr[-500:]}")
                    continue
                rep = vlib.read_report(rp)
                for k in agg:
                    agg[k] += rep.get(k, 0)
                samples += (rep.get("samples") or [])[:2]
                machinery += rep.get("machinery_errors") or []
                ex = rep.get("extra") or {}
                info[f"replay_{mname}"] = {k: ex[k] for k in ex if k in ("dispatch_observed", "faults", "guard_selftest", "godebug", "implementations",
                                                                              "calls_checked_against_tla_and_naive", "records_by_width")}
                info[f"replay_{mname}"]["calls"] = rep.get("calls")
                fail_paths.append(fp)
        kf, known_hit, violations, total = vlib.classify(fail_paths, prop)
        coverage = {"states": states, "transitions": trans, "traces_validated_against_impl": agg["cases"], "samples": samples[:6] or [{"note": "none"}],
                    "evaluations": agg["calls"], "distinct_nontrivial": agg["nontrivial"], "rule": rule, "records_replayed": agg["patterns"],
                    "spec_gaps": agg["spec_gaps"], "stages": info, "failing_calls_total": total, "exhaustive": not machinery}
        return vlib.finish(prop, tier, level, coverage, known_hit, violations, t0, kf, assumptions=assumptions, machinery=machinery)
    finally:
        keep = os.environ.get("VERIF_KEEP")
        if keep:
            os.makedirs(keep, exist_ok=True)
            for f in os.listdir(work):
                if "fail" in f and f.endswith(".ndjson"):
                    shutil.copy(os.path.join(work, f), os.path.join(keep, f"{prop}_{f}"))
        shutil.rmtree(work, ignore_errors=True)


def c18(prop, tier):
    q = tier == "quick"
    s = vlib.shard_seed()
    tm = {"scalar", "overlap"}
    jobs = [("w2", "MC_Simd", {"W": 2, "MaxHits": 2 if q else 3, "TailModes": tm, "Shard": s % 4 if q else 0, "NShards": 4 if q else 1})]
    jobs += [(f"w4_{k}", "MC_Simd", {"W": 4, "MaxHits": 2, "TailModes": tm, "Shard": k, "NShards": 32 if q else 8}) for k in ([s % 32] if q else range(8))]
    teeth = [("overread", "MC_Simd", {"W": 2, "MaxHits": 2, "TailModes": {"overread"}, "Shard": 0, "NShards": 1}, "reads outside the slice"),
             ("short", "MC_Simd", {"W": 2, "MaxHits": 2, "TailModes": {"short"}, "Shard": 0, "NShards": 1}, "BlockScan # scalar")]
    return masked_replay_check(prop, tier, jobs, "simd", ["-exh", "97" if q else "193"], teeth=teeth,
                               rule="TLC checks the block-scan model (BlockScan/CountScan/PairScan = scalar definition and reads inside the slice for W in "
                                    "{2,4}, all lengths 0..3W+1, all alignments, <= 2-3 special cells; candidate/verify = Memmem) and prints the scalar "
                                    "value of all 14 primitives on every abstract haystack under 14 byte palettes; each record is replayed unstretched and "
                                    "stretched to widths 16/32/64 on guard-page placements (three-way with a naive loop), plus every length 0..97/193 x "
                                    "every hit position x all 64 alignments; the whole replay runs plain and under GODEBUG=cpu.avx2=off[,cpu.ssse3=off]; "
                                    "non-trivial = calls whose reference value is a hit",
                               assumptions=["memory safety is observed through PROT_NONE guard pages and bait bytes, not proved",
                                            "TLC evaluates the scalar definitions correctly (cross-checked with a naive Go loop on every call)"])


def c07(prop, tier):
    q = tier == "quick"
    gen = ("COMPILE", {"MaxLen": 3 if q else 4, "Shard": (vlib.shard_seed() + 1) % 2 if q else (vlib.shard_seed() + 1) % 4, "NShards": 2 if q else 4},
           "MC_Compile", "compile")
    return run_search_family(prop, tier, prop, subcmd="wellformed", extra_jobs=[gen], budget_scale=0.35 if q else 0.5,
                             rule="(i) every TLC-enumerated pattern string and limit family offered to Compile: a value or an error, never a panic or a "
                                  "missed deadline; (ii) for every TLC-generated (pattern, haystack) and a pumped copy: 14 groups of search / enumeration / "
                                  "replace calls with the haystack flush against a PROT_NONE page (end, then start) and its own pages read-only, under "
                                  "SetPanicOnFault; every result checked against the well-formedness predicates that MC_Search asserts of the reference "
                                  "(bounds, capture nesting, ordering, non-overlap) and aliasing; non-trivial = the reference has a match",
                             assumptions=["stray reads and writes are observed through guard pages and read-only mappings (self-tested at start-up), not proved absent",
                                          "non-termination is observed as a missed deadline of 120 s per record"])


def c17(prop, tier):
    """Translation validation of the literal extractor's output by TLC against the pattern's bounded language (spec/MC_Literal.tla)."""
    t0 = time.time()
    q = tier == "quick"
    vh = vlib.build_harness()
    work = tempfile.mkdtemp(prefix="vC17_")
    try:
        machinery = []
        jobs = [(fam, dict(c, Budget=8, LCap=1)) for fam, c in search_jobs(tier) if fam not in FAMILY_MODULE]
        states = trans = 0

        def mk(fam, consts, i):
            def run():
                out = os.path.join(work, f"gen_{i}.out")
                return out, vlib.run_tlc("MC_Search", consts, SEARCH_CFG, out, workers=2, timeout=1800)
            return run
        gens = []
        for out, r in vlib.run_parallel([mk(f, c, i) for i, (f, c) in enumerate(jobs)], 8):
            if r.error or r.violation:
                machinery.append(f"MC_Search: {(r.error or r.violation)[:300]}")
                continue
            states += r.distinct
            trans += r.generated
            gens.append(out)
        lit = os.path.join(work, "literals.ndjson")
        p = subprocess.run([vh, "litexport", "-in", ",".join(gens), "-out", lit, "-ncfg", "6" if q else "0"], capture_output=True, text=True, timeout=2400)
        if p.returncode != 0:
            raise Machinery("litexport: " + p.stderr[-500:])
        chk = os.path.join(work, "check.out")
        scratch = tempfile.mkdtemp(prefix="vtlc_")
        try:
            shutil.copy(lit, os.path.join(scratch, "literals.ndjson"))
            r1 = vlib.run_tlc("MC_Literal", {"LitFile": "literals.ndjson", "Shard": vlib.shard_seed() % 2 if q else 0, "NShards": 2 if q else 1,
                                             "Budget": 3000 if q else 6000, "LCap": 6 if q else 7, "XLen": 2}, SEARCH_CFG, chk,
                              workers=16, timeout=3000, heap="12g", scratch=scratch)
        finally:
            shutil.rmtree(scratch, ignore_errors=True)
        if r1.error or r1.violation:
            raise Machinery(f"MC_Literal: {(r1.error or r1.violation)[:600]}")
        states += r1.distinct
        trans += r1.generated
        rp, fp = os.path.join(work, "r.json"), os.path.join(work, "f.ndjson")
        p = subprocess.run([vh, "litconfirm", "-in", chk, "-report", rp, "-fail", fp], capture_output=True, text=True, timeout=2400)
        if p.returncode != 0:
            raise Machinery("litconfirm: " + p.stderr[-500:])
        rep = vlib.read_report(rp)
        ex = rep.get("extra") or {}
        kf, known_hit, violations, total = vlib.classify([fp], prop)
        coverage = {"programs": ex.get("patterns_checked", rep.get("patterns", 0)), "disagreements_checked": total + rep.get("spec_gaps", 0),
                    "samples": rep.get("samples") or [{"note": "none"}], "states": states, "transitions": trans,
                    "evaluations": ex.get("necessity_checks_by_tlc", rep.get("calls", 0)), "distinct_nontrivial": ex.get("nonvacuous_sequences_checked", 0),
                    "rule": "one program = the real extractor's four sequences for one TLC-enumerated pattern under a grid of extractor limits "
                            "(7 configurations per pattern quick, 63 thorough); TLC rebuilds the syntax tree, enumerates the bounded language "
                            "(in-context match texts up to 6-7 symbols) with the reference semantics and checks necessity of every non-empty, "
                            "non-partial sequence on every match text, and the two obligations of Complete literals; every violation is re-confirmed "
                            "with regexp and a fresh extractor run; distinct = non-vacuous sequences checked",
                    "extractor_stats": ex, "spec_gaps": rep.get("spec_gaps", 0), "failing_calls_total": total, "exhaustive": not machinery}
        machinery += rep.get("machinery_errors") or []
        return vlib.finish(prop, tier, "translation_validation", coverage, known_hit, violations, t0, kf,
                           assumptions=["the bounded language is complete only up to the reported length (accelerated search cross-checked against EndsP)",
                                        "regexp arbitrates every reported witness (three-way)"], machinery=machinery)
    finally:
        keep = os.environ.get("VERIF_KEEP")
        if keep and os.path.exists(os.path.join(work, "f.ndjson")):
            os.makedirs(keep, exist_ok=True)
            shutil.copy(os.path.join(work, "f.ndjson"), os.path.join(keep, f"{prop}_fail_0.ndjson"))
        shutil.rmtree(work, ignore_errors=True)


def c16(prop, tier):
    """Prefilters never skip; complete prefilters exact (spec/Prefilter.tla, spec/MC_Prefilter.tla, vh prefilter)."""
    t0 = time.time()
    q = tier == "quick"
    vh = vlib.build_harness()
    work = tempfile.mkdtemp(prefix="vC16_")
    try:
        machinery = []
        nsh = 32 if q else 1
        base = {"Shard": vlib.shard_seed() % nsh, "NShards": nsh, "NAlpha": 3, "MaxHay": 5, "MaxHayBig": 4 if q else 5, "Quads": 1,
                "TrLen": 6 if q else 8, "LoopN": 5 if q else 6, "LoopShapes": {"unanch", "anch", "digitrun", "trk"}}
        tsh = 1024 if q else 16
        teddy = dict(base, Phase="teddy", NShards=tsh, Shard=vlib.shard_seed() % tsh, MaxHayBig=4)
        S = "SPECIFICATION Spec\n"
        runs = [  # (name, constants, invariants, workers, expect_violation)
            ("gen", dict(base, Phase="gen"), "INVARIANT Emit\n", 16, False),
            ("teddy", teddy, "INVARIANTS Emit TeddyFindOK\n", 12 if q else 16, False),
            ("tracker", dict(base, Phase="tracker", TrLen=8 if q else 10), "INVARIANTS TrackerSafe TrackerDocOK\n", 1, False),
            ("loop", dict(base, Phase="loop"), "INVARIANTS NoSkip ResultOK\n", 2, False),
            ("teddy_order", dict(teddy, NShards=100000, Shard=99999), "INVARIANT TeddyMatchOK\n", 2, True),
            ("tracker_retired", dict(base, Phase="tracker", TrLen=5), "INVARIANT TrackerNeverSkips\n", 1, True),
            ("loop_blind_tracker", dict(base, Phase="loop", LoopN=4, LoopShapes={"trk_blind"}), "INVARIANTS NoSkip ResultOK\n", 1, True),
            ("loop_unsafe_runskip", dict(base, Phase="loop", LoopN=4, LoopShapes={"digitrun_unsafe"}), "INVARIANTS NoSkip ResultOK\n", 1, True),
        ]

        def mk(name, consts, inv, workers, neg):
            def run():
                r = vlib.run_tlc("MC_Prefilter", consts, S + inv, os.path.join(work, name + ".out"), workers=workers, timeout=3000, heap="6g")
                return name, r, neg
            return run
        results = vlib.run_parallel([mk(*x) for x in runs], 3 if q else 2)
        outs, models, states, transitions = {}, {}, 0, 0
        for name, r, neg in results:
            outs[name] = r.outfile
            models[name] = {"distinct_states": r.distinct, "states_generated": r.generated, "wall_s": round(r.wall, 1),
                            "result": "violation" if r.violation else ("error" if r.error else "ok")}
            if neg:
                if not r.violation:
                    machinery.append(f"negative control {name}: TLC did not find the expected violation ({r.error})")
                continue
            if r.violation:
                machinery.append(f"MC_Prefilter {name}: the model violates its own invariant (model error): {r.violation[:500]}")
            elif r.error:
                machinery.append(f"MC_Prefilter {name}: {r.error[:500]}")
            states += r.distinct
            transitions += r.generated
        tcases = tsets = torder = 0
        with open(outs["teddy"], errors="replace") as fh:
            for line in fh:
                if line.startswith('"'):
                    d = json.loads(json.loads(line))
                    tsets, tcases, torder = tsets + 1, tcases + d["cases"], torder + (1 if d["matchbad"] else 0)
        fails, reps = [], {}
        for name, godebug in [("plain", "")] + CPU_MASKS:
            rp, fp = os.path.join(work, f"r_{name}.json"), os.path.join(work, f"f_{name}.ndjson")
            env = dict(os.environ)
            env.pop("GODEBUG", None)
            if godebug:
                env["GODEBUG"] = godebug
            p = subprocess.run([vh, "prefilter", "-in", outs["gen"], "-report", rp, "-fail", fp], capture_output=True, text=True, timeout=3000, env=env)
            if p.returncode != 0:
                raise Machinery(f"vh prefilter ({name}): " + p.stderr[-500:])
            reps[name] = vlib.read_report(rp)
            machinery += reps[name].get("machinery_errors") or []
            fails.append(fp)
        kf, known_hit, violations, total = vlib.classify(fails, prop)
        rep = reps["plain"]
        coverage = {
            "programs": rep["patterns"], "cases": sum(r["cases"] for r in reps.values()), "evaluations": sum(r["calls"] for r in reps.values()),
            "distinct_nontrivial": rep["nontrivial"], "states": states, "transitions": transitions, "samples": rep.get("samples") or [{"note": "none"}],
            "rule": "one program = one literal set of the fixed universe of spec/MC_Prefilter.tla, built into every prefilter the library offers for it; "
                    "one case = (literal set, haystack of the TLC universe); every start offset compared with TLC's PFind/PMatch; haystacks holding an "
                    "occurrence embedded at 11 pad offsets x 2 tails x 2-3 fillers and compared with the naive reference validated against TLC and regexp; "
                    "three runs: plain and two CPU masks; non-trivial = a literal occurs in the haystack",
            "models": models, "teddy_model": {"literal_sets": tsets, "cases": tcases, "sets_where_bucket_order_differs_from_pattern_order": torder},
            "implementations_built": rep["extra"]["implementations_built"], "implementations_complete": rep["extra"]["implementations_complete"],
            "universe": rep["extra"]["universe"], "records_by_family": rep["extra"]["records_by_family"],
            "embedded_haystacks": sum(r["extra"]["embedded_haystacks"] for r in reps.values()),
            "span_comparisons": sum(r["extra"]["span_comparisons"] for r in reps.values()),
            "selected_by_run": {n: r["extra"]["selected"] for n, r in reps.items()}, "cpu_by_run": {n: r["extra"]["cpu"] for n, r in reps.items()},
            "spec_gaps": sum(r.get("spec_gaps", 0) for r in reps.values()), "failing_calls_total": total, "exhaustive": not q,
        }
        return vlib.finish(prop, tier, "model_checking", coverage, known_hit, violations, t0, kf,
                           assumptions=["TLC evaluates PFind/PMatch and the design models correctly; regexp arbitrates the expected spans (three-way rule)",
                                        "on embedded haystacks the expectation is the naive Go reference, validated per literal set against TLC and regexp "
                                        "on the short universe and against regexp on every embedded haystack",
                                        "golang.org/x/sys/cpu honours GODEBUG=cpu.*=off; the harness prints the flags the library's dispatch reads"],
                           machinery=machinery)
    finally:
        keep = os.environ.get("VERIF_KEEP")
        if keep:
            os.makedirs(keep, exist_ok=True)
            for f in os.listdir(work):
                if f.startswith("f_"):
                    shutil.copy(os.path.join(work, f), os.path.join(keep, f"{prop}_fail_{f}"))
        shutil.rmtree(work, ignore_errors=True)


REGISTRY = {
    "C16": c16,
    "C17": c17,
    "C07": c07,
    "C18": c18,
    "C05": c05,
    "C20": c20,
    "C06": c06,
    "C15": c15,
    "C19": c19,
    "C09": c09,
    "C13": c13,
    "C12": c12,
    "C14": c14,
    "C08": c08,
    "C01": c_search, "C02": c_search, "C03": c_search, "C04": c_search, "C10": c_search, "C11": c_search,
}


def replay(prop, path):
    """Re-execute one recorded violation; kinds that cannot be replayed alone re-run the property's quick check."""
    vh = vlib.build_harness()
    p = subprocess.run([vh, "replay", "-file", path])
    if p.returncode == 2 and prop in REGISTRY:
        return REGISTRY[prop](prop, "quick")
    return p.returncode
