#!/bin/sh
# Development tool: run the THOROUGH tier of every property on the UNCHANGED tree, keeping the failure files, so that
# lib/kfgen.py can rebuild known_findings.json (after every failing cluster has been judged a genuine defect).
# usage: lib/kfrun.sh <keepdir> [props...]
set -u
cd "$(dirname "$0")/.."
KEEP=${1:?keepdir}; shift
PROPS=${*:-C01 C02 C03 C04 C05 C06 C07 C08 C09 C10 C11 C12 C13 C14 C15 C16 C17 C18 C19 C20}
mkdir -p "$KEEP"
for p in $PROPS; do
  for tier in ${TIERS:-quick thorough}; do
    start=$(date +%s)
    VERIF_KEEP="$KEEP/$p.$tier" ./vcheck $p $tier > "$KEEP/$p.$tier.log" 2>&1
    rc=$?
    echo "$p $tier exit=$rc $(( $(date +%s) - start ))s $(grep -c '^VIOLATION' "$KEEP/$p.$tier.log") violation lines" | tee -a "$KEEP/summary.txt"
    cp evidence/$p.json "$KEEP/$p.$tier.evidence.json" 2>/dev/null
  done
done
