#!/usr/bin/env python3
"""Development tool: (re)writes the `fixed` list of known_findings.json from /repo's `fix:` commits.
A fixed entry suppresses nothing; it records which property's check exposed the defect and what failed."""
import json
import os
import subprocess
import sys

sys.path.insert(0, os.path.dirname(os.path.abspath(__file__)))
import vlib

# subject keyword -> (properties, what failed: the specific input / history)
TABLE = [
    ("advance by one code point after an empty match", "C04", "`a*` on \"é\": FindAllIndex resumed inside the rune after the empty match at 0 (nine loops)"),
    ("AppendAllIndex keeps the elements", "C04", "AppendAllIndex(dst=[[7 7]], ...) dropped dst"),
    ("reader variants report byte offsets", "C02", "FindReaderIndex after an ill-formed byte reported shifted offsets"),
    ("Expand implements the full template syntax", "C08", "Expand(\"${1}x$$\", ...) / $name rules differed from regexp"),
    ("Split follows regexp", "C08", "Split(s, 1), Split with n > 1 and matches at the edges"),
    ("reverse NFA keeps the byte of a loop edge", "C14", "`a*$` on \"a\": reverse DFA reported [1 1]"),
    ("lazy DFA cache key keeps NFA thread priority", "C13", "two priority orders of one NFA set shared a cached DFA state: answers depended on earlier calls"),
    ("capture search at end of input", "C03", "FindSubmatchIndex at end of input lost groups of an empty match"),
    ("byte transition follows Match in priority", "C14", "one-pass DFA on `(a)+?`: reported the longest match"),
    ("whole simple-folding orbit", "C15", "`(?i)k` did not match U+212A, `(?i)s` did not match U+017F"),
    ("first-byte rejection uses UTF-8 lead bytes", "C19", "anchored first-byte table held rune values, not lead bytes; ignored case folding"),
    ("branch dispatcher declines case-folded", "C19", "`^((?i)foo|bar)`: raw byte comparison of a folded literal"),
    ("anchored-literal fast path does not treat a case-folded", "C19", "`^(?i)a.*b$` compared exact bytes"),
    ("suffix extraction stops at a case-folded", "C17", "suffix literal of `.*(?i)ab` reported as exact bytes"),
    ("LiteralPrefix stops at the first case-folded", "C09", "LiteralPrefix of `a(?i)b`"),
    ("look-around assertions split byte classes", "C13", "`\\b` patterns: DFA transitions cached for one byte reused for another of the same class"),
    ("one-pass DFA declines patterns whose assertions", "C14", "one-pass DFA on `\\ba`, `a^b`"),
    ("\\B is not satisfied inside a multi-byte", "C01", "`\\B` matched between the bytes of é"),
    ("keeps word-boundary patterns off engines", "C19", "`\\b` patterns routed to strategies whose searchers ignore look-around"),
    ("also clears the flat transition table", "C13", "after a cache clear stale flat transitions pointed at re-issued state ids"),
    ("stays anchored when it falls back", "C14", "SearchAtAnchored fell back to an unanchored NFA search"),
    ("decline lazy quantifiers", "C19", "`.*?ab`, `.+?ab.*` on the reverse-suffix / reverse-inner searchers"),
    ("generation overflow clears the whole visited capacity", "C13", "history: long input, 65535 resets on short inputs, then a longer input sees stale stamps (found by TLC in Backtrack.tla)"),
    ("CompilePOSIX parses POSIX", "C09 C10", "CompilePOSIX(`a**`) / `\\d` accepted or rejected unlike regexp"),
    ("MustCompile panic message", "C09", "panic text of MustCompile(`a(`)"),
    ("LiteralPrefix is computed from the compiled program", "C09", "LiteralPrefix of `a+b`, `(ab)c`, `^ab`"),
    ("LiteralPrefix applies the anchored rule", "C09", "LiteralPrefix of `^a|^b`"),
    ("end anchor that is followed by input", "C14", "one-pass DFA on `$a`"),
    ("^(alternation) with nothing after it", "C19", "`^(a|b)c`: dispatcher reported the branch end"),
    ("composite searcher declines class repetitions", "C19", "`[aé]+[b]+`, `[a]+?[b]+`, `[a]{0}[b]+` on the composite searcher"),
    ("composite sequence DFA requires min 1", "C19", "`[a]{2,}[b]+`, skipped valid starts after a failed attempt"),
    ("first-byte set covers non-ASCII class members", "C19", "`^[aé]`, `^(|a)b`"),
    ("Teddy FindMatch reports the first literal", "C16", "FindMatch returned the lowest bucket, not the first literal in pattern order (predicted by MC_Prefilter!TeddyMatchOK)"),
    ("one-pass DFA keeps the slots of the preferred path", "C14 C03", "`^(?:a|()a)` on \"a\": group 1 reported as [0 0] (found by TLC in OnePass.tla, Merge=\"union\")"),
    ("no longer share engine-level scratch", "C06", "8 goroutines on one Regex: wrong FindIndex results and index-out-of-range panics through Engine.pikevm, the lazy DFA's fallback PikeVM, the reverse searchers' PikeVMs and the ASCII backtracker"),
    ("leftmost-longest mode searches with the NFA engines", "C10", "after Longest(): FindAll of `a|aa` on \"aa\" = [0 1] [1 2]; long matches truncated on DFA / Teddy / reverse strategies"),
    ("reverse-suffix search reports the leftmost match", "C02 C04 C11", "`.*\\.txt` on \"a.txt\\nb.txt\": FindIndex [6 11]; `[a-z]+\\.txt` on \"1.txtabc.txt\": FindAll [5 12]"),
    ("reverse-inner search verifies the whole pattern", "C01 C02", "`[a-c]+@[a-c]+x.*` on \"a@b c@cx\" = [0 8]; `.+ba.*` matched \"ba\""),
    ("located by the NFA from the search start", "C02", "`(?s:.)(?s:.)*` on 150 bytes: FindIndex [50 150] (length ladder / pumped inputs)"),
    ("lazy class repetition is not handled by the greedy", "C02 C04", "`[ab]+?` on \"ab\": FindAll [0 2] (family G1)"),
    ("anchored-literal matcher respects newlines", "C01 C02", "`^/.*\\.php$` matched \"/a\\nb.php\"; (?m) anchors compared against the whole input"),
    ("4-byte UTF-8 ranges are compiled exactly", "C15", "`[\\x{10005}-\\x{FEE20}]` accepted U+10004 (unaligned range descriptors of MC_UTF8)"),
    ("copy-on-write reference before the sibling branch", "C07 C03", "`(?:([ab])-){1,2}(b)` on \"a-b\": group 1 = [2 1], ReplaceAll panicked (named / repeated group shapes of the CAP family)"),
    ("backtracking composite searcher is only used on short inputs", "C05", "`[ab]+[ab]{2,}[a0]+` on 4200 bytes of \"b\": Match + FindIndex took 80 s (cubic; found when the long-input stage of the search checks stopped finishing)"),
    ("digit runs are only skipped when the leading class", "C19 C02", "`[0-5]+(?:[a-c]|\\.\\d)` on \"65a\": no match (the rest of the digit run was skipped although 6 is outside the class)"),
    ("reverse-suffix-set Find reports the leftmost match", "C19 C02", "`[a-z]+\\.(txt|log)` on \"a.txt b.log\": FindIndex [6 11] (last suffix candidate kept)"),
    ("anchored-literal matcher encodes U+0080..U+00FF", "C19 C01", "`^é.*x$` on \"éax\": no match (é stored as the byte 0xE9); `^a.*[à-ÿ]+x$` tested code points as bytes"),
    ("reverse-suffix-set search takes the match end", "C02 C04", "`.+(?:aaa|abb)` on \"é\" + 18 x \"a\": FindAllIndex [0 5] (end of the first suffix candidate, not of the greedy match)"),
    ("skips only the digits of the leading class", "C05 C02", "`[01]+[ab]+[a]+` on 1024 x \"0\" + \"k\": quadratic Match once subset classes stopped skipping at all; `[0-5]+a` on \"65a\""),
    ("prefilter over the common suffix", "C01 C11", "`.*(?:bab|abb)` on \"abb\": Match false, FindIndex [0 3] (candidates were starts of bab/abb, the reverse scan began one byte after them)"),
    ("only accepts branches it can match exactly", "C19 C02", "`^([à-ÿ]+|x\\d)` on \"x1\" = [0 1]; `^(foo|bar|baz)` matched \"bax\""),
    ("verifies a candidate line with the anchored forward DFA", "C02 C04 C19", "`(?m)^/.*\\.php` on \"/a.php/b.php\": [0 6] and a bogus second match [6 12] instead of [0 12]; `(?m)^/.+\\.php` on \"/.php\": a match where there is none (prefix-literal fast path; the repaired driver is the theorem of ReverseSuffixML.tla, the old one its negative control)"),
    ("only selected when a match cannot span lines", "C02 C19", "`(?m)^ab(?s:.)*\\.b` on \"ab\\n.b\": no match (regexp [0 5]); `(?m)^(?s:.)*ab` on \"\\naab\": [1 4] instead of [0 4] (predicted by TLC on the family MLS of MC_ReverseSuffixML)"),
]


def main():
    out = subprocess.run(["git", "-C", vlib.REPO, "log", "--reverse", "--format=%h\t%s"], capture_output=True, text=True).stdout
    fixed, unmatched = [], []
    for line in out.splitlines():
        h, subj = line.split("\t", 1)
        if not subj.startswith("fix:"):
            continue
        for kw, props, what in TABLE:
            if kw in subj:
                for p in props.split():
                    fixed.append(f"fixed: property={p} {h} {what}  [{subj}]")
                break
        else:
            unmatched.append(line)
    path = os.path.join(vlib.VERIF, "known_findings.json")
    kf = json.load(open(path))
    kf["fixed"] = fixed
    json.dump(kf, open(path, "w"), indent=1, ensure_ascii=False)
    print(len(fixed), "fixed entries;", "unmatched:", unmatched)


if __name__ == "__main__":
    main()
