"""Shared machinery of /verif/vcheck: TLC runs, harness builds, classification of
failures against the known-findings file, evidence files, exit codes.

Exit codes of a check: 0 = property held on everything explored (known findings are
printed), 1 = a violation that is not a listed known finding, 2 = machinery problem
(never a verdict)."""
import gzip
import hashlib
import json
import os
import re
import shutil
import subprocess
import sys
import tempfile
import time
from concurrent.futures import ThreadPoolExecutor

VERIF = os.path.dirname(os.path.dirname(os.path.abspath(__file__)))
REPO = os.environ.get("VERIF_REPO", "/repo")
SPEC = os.path.join(VERIF, "spec")
HARNESS = os.path.join(VERIF, "harness")
OUT = os.path.join(VERIF, "out")
EVID = os.path.join(VERIF, "evidence")
TLA_CP = "/opt/veriftools/tla/tla2tools.jar:/opt/veriftools/tla/CommunityModules-deps.jar"


class Machinery(Exception):
    pass


def log(*a):
    print(*a, file=sys.stderr, flush=True)


def seed():
    try:
        return int(os.environ.get("VERIF_SEED", "0"))
    except ValueError:
        return 0


def shard_seed():
    """Which part of the fixed universe the quick tier explores.  It used to be VERIF_SEED; the known-findings witness lists
    are complete only for universes that have been run in full on the unchanged tree, so the quick universe is now the same
    for every seed (shard 0 of every family, a subset of the thorough tier's universe).  VERIF_SEED is recorded in the
    evidence and selects nothing that could change the set of inputs explored."""
    return 0


def go_env():
    env = dict(os.environ)
    env["GOFLAGS"] = "-mod=mod"
    env["GOPROXY"] = "off"
    env.pop("GOSUMDB", None)      # breaks the cached-toolchain switch
    env["GOTOOLCHAIN"] = "auto"   # /repo needs go1.25.4, cached under GOMODCACHE
    env.setdefault("GOCACHE", os.path.join(OUT, "gocache"))
    return env


def build_harness(tags=("verif",), race=False, cover=False, name=None):
    """Rebuild the conformance harness against /repo's current working tree."""
    os.makedirs(os.path.join(OUT, "bin"), exist_ok=True)
    shutil.copy(os.path.join(REPO, "go.sum"), os.path.join(HARNESS, "go.sum"))
    gomod = open(os.path.join(HARNESS, "go.mod")).read()
    want = "replace github.com/coregx/coregex => " + REPO
    gomod2 = re.sub(r"replace github.com/coregx/coregex => \S+", want, gomod)
    if gomod2 != gomod:
        open(os.path.join(HARNESS, "go.mod"), "w").write(gomod2)
    if name is None:
        name = "vh" + ("-race" if race else "") + ("-cover" if cover else "")
    out = os.path.join(OUT, "bin", name)
    cmd = ["go", "build", "-tags", ",".join(tags), "-o", out]
    if race:
        cmd.append("-race")
    if cover:
        cmd += ["-cover", "-covermode=atomic", "-coverpkg=github.com/coregx/coregex/...,verif/harness/..."]
    cmd.append("./cmd/vh")
    t0 = time.time()
    p = subprocess.run(cmd, cwd=HARNESS, env=go_env(), capture_output=True, text=True)
    if p.returncode != 0:
        raise Machinery("harness build failed:\n" + p.stdout + p.stderr)
    log(f"[build] {name} in {time.time()-t0:.1f}s")
    return out


def tla_value(v):
    if isinstance(v, bool):
        return "TRUE" if v else "FALSE"
    if isinstance(v, int):
        return str(v)
    if isinstance(v, str):
        return '"' + v + '"'
    if isinstance(v, (list, tuple)):
        return "<<" + ", ".join(tla_value(x) for x in v) + ">>"
    if isinstance(v, (set, frozenset)):
        return "{" + ", ".join(tla_value(x) for x in sorted(v)) + "}"
    raise ValueError(v)


class TLCResult:
    def __init__(self):
        self.generated = 0
        self.distinct = 0
        self.depth = 0
        self.wall = 0.0
        self.outfile = None
        self.violation = None   # text of an invariant / property violation found by TLC in the model
        self.error = None       # any other TLC error (machinery)
        self.coverage = None
        self.cached = False


def run_tlc(module, constants, cfg_body, outfile, workers=4, timeout=1800, heap="4g",
            extra_files=None, simulate=None, deadlock=False, java_opts=None, scratch=None):
    """Run TLC on spec/<module>.tla with a generated cfg in a scratch directory.
    stdout goes to `outfile`.  cfg_body holds the SPECIFICATION/INVARIANT lines."""
    own = scratch is None
    if own:
        scratch = tempfile.mkdtemp(prefix="vtlc_")
    try:
        for f in os.listdir(SPEC):
            if f.endswith(".tla"):
                shutil.copy(os.path.join(SPEC, f), scratch)
        for f in (extra_files or []):
            shutil.copy(f, scratch)
        cfg = ""
        if constants:
            cfg += "CONSTANTS\n" + "".join(f" {k} = {tla_value(v)}\n" for k, v in constants.items())
        cfg += cfg_body + "\n"
        if not deadlock and "CHECK_DEADLOCK" not in cfg:
            cfg += "CHECK_DEADLOCK FALSE\n"
        with open(os.path.join(scratch, module + ".cfg"), "w") as fh:
            fh.write(cfg)
        cmd = ["java", "-XX:+UseParallelGC", f"-Xmx{heap}", "-Xss256m"] + (java_opts or []) + \
              ["-cp", TLA_CP, "tlc2.TLC", "-workers", str(workers), "-metadir", os.path.join(scratch, "meta"),
               "-noGenerateSpecTE"]
        if simulate:
            cmd += ["-simulate", simulate]
        cmd += [module + ".tla"]
        t0 = time.time()
        res = TLCResult()
        res.outfile = outfile
        with open(outfile, "w") as oh:
            try:
                p = subprocess.run(cmd, cwd=scratch, stdout=oh, stderr=subprocess.STDOUT, timeout=timeout)
                rc = p.returncode
            except subprocess.TimeoutExpired:
                res.error = f"TLC timeout after {timeout}s ({module})"
                rc = -1
        res.wall = time.time() - t0
        parse_tlc_output(res, rc)
        return res
    finally:
        if own:
            shutil.rmtree(scratch, ignore_errors=True)


_gen = re.compile(r"^(\d+) states generated, (\d+) distinct states found")
_depth = re.compile(r"^The depth of the complete state graph search is (\d+)")


def parse_tlc_output(res, rc):
    err_lines = []
    with open(res.outfile, errors="replace") as fh:
        for line in fh:
            if line.startswith('"'):
                continue
            m = _gen.match(line)
            if m:
                res.generated, res.distinct = int(m.group(1)), int(m.group(2))
                continue
            m = _depth.match(line)
            if m:
                res.depth = int(m.group(1))
                continue
            if line.startswith("Error:") or err_lines:
                if len(err_lines) < 40:
                    err_lines.append(line.rstrip())
    if err_lines:
        text = "\n".join(err_lines)
        if re.search(r"Invariant \S+ is violated|Temporal properties were violated|Action property .* violated|is violated by the initial state", text):
            res.violation = text
        elif res.error is None:
            res.error = text
    elif rc not in (0,) and res.error is None:
        res.error = f"TLC exit status {rc}"


def module_closure(module, seen=None):
    """The modules of spec/ that `module` depends on (EXTENDS / INSTANCE, transitively), itself included."""
    seen = set() if seen is None else seen
    path = os.path.join(SPEC, module + ".tla")
    if module in seen or not os.path.exists(path):
        return seen
    seen.add(module)
    txt = open(path).read()
    deps = []
    for m in re.finditer(r"^\s*EXTENDS\s+([^\n]+)", txt, re.M):
        deps += [x.strip() for x in m.group(1).split(",")]
    deps += re.findall(r"INSTANCE\s+(\w+)", txt)
    for d in deps:
        module_closure(d, seen)
    return seen


def spec_hash(module=None):
    """Hash of the specification text a generator's output depends on: the module and everything it extends."""
    h = hashlib.sha1()
    files = sorted(m + ".tla" for m in module_closure(module)) if module else sorted(f for f in os.listdir(SPEC) if f.endswith(".tla"))
    for f in files:
        h.update(f.encode())
        h.update(open(os.path.join(SPEC, f), "rb").read())
    return h.hexdigest()


def _canon(v):
    if isinstance(v, (set, frozenset)):
        return ["set"] + sorted(_canon(x) for x in v)
    if isinstance(v, (list, tuple)):
        return [_canon(x) for x in v]
    if isinstance(v, dict):
        return {k: _canon(x) for k, x in sorted(v.items())}
    return v


def run_tlc_cached(module, constants, cfg_body, workers=4, timeout=3000, heap="4g"):
    """Generator runs (MC_* modules printing records) are a function of the specification and the constants only - not of
    /repo - so their output is kept under out/tlccache and shared by the checks that replay the same records (C01-C04,
    C10 and C11 replay the same family shards).  The replay into the code is never cached.  Returns a TLCResult whose
    outfile must NOT be removed by the caller; res.cached tells whether TLC ran in this call."""
    cdir = os.path.join(OUT, "tlccache")
    os.makedirs(cdir, exist_ok=True)
    key = hashlib.sha1(json.dumps([module, _canon(constants), cfg_body, spec_hash(module)], sort_keys=True).encode()).hexdigest()[:24]
    path, meta = os.path.join(cdir, key + ".out"), os.path.join(cdir, key + ".json")
    if os.path.exists(path) and os.path.exists(meta):
        try:
            m = json.load(open(meta))
            res = TLCResult()
            res.generated, res.distinct, res.depth, res.wall = m["generated"], m["distinct"], m["depth"], 0.0
            res.tlc_wall_when_generated = m["wall"]
            res.outfile = path
            res.cached = True
            return res
        except Exception:
            pass
    tmp = os.path.join(cdir, f"{key}.{os.getpid()}.{time.time_ns()}.tmp")
    res = run_tlc(module, constants, cfg_body, tmp, workers=workers, timeout=timeout, heap=heap)
    res.cached = False
    if res.error or res.violation:
        try:
            os.remove(tmp)
        except OSError:
            pass
        return res
    os.replace(tmp, path)
    res.outfile = path
    with open(meta + ".tmp%d" % os.getpid(), "w") as fh:
        json.dump({"module": module, "constants": _canon(constants), "generated": res.generated, "distinct": res.distinct,
                   "depth": res.depth, "wall": round(res.wall, 1)}, fh)
    os.replace(meta + ".tmp%d" % os.getpid(), meta)
    return res


def run_parallel(fns, maxpar):
    with ThreadPoolExecutor(max_workers=maxpar) as ex:
        futs = [ex.submit(f) for f in fns]
        return [f.result() for f in futs]


# ---------------------------------------------------------------- known findings

def engine_scope(api):
    """The part of the API name that identifies the engine / layer a finding belongs to."""
    if "." in api and api.split(".")[0] in ("PikeVM", "Backtracker", "lazy", "onepass", "Reverse", "Searcher", "Teddy", "prefilter"):
        return api.split(".")[0]
    return ""


def failure_key(d):
    """A known finding is identified by the specific INPUT that fails: property, match mode, pattern text,
    haystack bytes (plus engine for direct engine drivers and configuration for C12).  The API variant is not
    part of the key (Match / MatchString / MatchReader fail together)."""
    parts = [d["prop"], d.get("scope") or engine_scope(d.get("api", "")), d.get("mode", ""), d["pattern"], d["hay"]]
    if d.get("cfg"):
        parts.append(d["cfg"])
    return "|".join(parts)


def key_hash(k):
    return hashlib.sha1(k.encode("utf-8", "surrogateescape")).hexdigest()[:16]


_known_cache = None


def load_known():
    global _known_cache
    if _known_cache is not None:
        return _known_cache
    path = os.path.join(VERIF, "known_findings.json")
    if not os.path.exists(path):
        _known_cache = ({"findings": [], "fixed": []}, {})
        return _known_cache
    kf = json.load(open(path))
    keymap = {}
    for f in kf.get("findings", []):
        for k in f.get("witnesses", []):
            keymap[key_hash(k)] = f["id"]
        wf = f.get("witness_file")
        if wf and os.path.exists(os.path.join(VERIF, wf)):
            with gzip.open(os.path.join(VERIF, wf), "rt") as fh:
                for line in fh:
                    keymap[line.strip()] = f["id"]
    _known_cache = (kf, keymap)
    return _known_cache


def class_finding(kf, d):
    """A finding identified by its CALL SITE rather than by an input list: an engine entry point driven directly on a
    class of patterns it does not implement at all (every input on which the construct matters fails).  `class` holds
    the property, the engine scope and a regular expression on the pattern text; nothing else is matched by it."""
    scope = d.get("scope") or engine_scope(d.get("api", ""))
    for f in kf.get("findings", []):
        c = f.get("class")
        if not c:
            continue
        if c["prop"] == d.get("prop") and c["scope"] == scope and re.search(c["pattern_re"], d.get("pattern", "")):
            if c.get("api_re") and not re.search(c["api_re"], d.get("api", "")):
                continue
            return f["id"]
    return None


def classify(fail_paths, prop):
    """Split observed failures into known findings and violations."""
    kf, keymap = load_known()
    known_hit = {}
    violations = []
    total = 0
    for fp in fail_paths:
        if not os.path.exists(fp):
            continue
        with open(fp) as fh:
            for line in fh:
                line = line.strip()
                if not line:
                    continue
                d = json.loads(line)
                total += 1
                fid = keymap.get(key_hash(failure_key(d)))
                if fid is None:
                    fid = class_finding(kf, d)
                if fid is not None:
                    known_hit[fid] = known_hit.get(fid, 0) + 1
                else:
                    violations.append(d)
    return kf, known_hit, violations, total


def finish(prop, tier, level, coverage, known_hit, violations, t0, kf, assumptions=None, machinery=None):
    """Write evidence, print the verdict lines, return the exit code."""
    os.makedirs(EVID, exist_ok=True)
    if os.environ.get("VERIF_TIER_LABEL") == "thorough" and tier == "quick":
        tier = "thorough"
        coverage = dict(coverage, tier_note="the thorough tier of this property explores the same enumerated universe as the quick tier: its "
                                            "known-findings witness lists have been completed for that universe only (DESIGN.md section 8)")
    vdir = os.path.join(OUT, prop)
    shutil.rmtree(vdir, ignore_errors=True)
    os.makedirs(vdir, exist_ok=True)
    titles = {f["id"]: f for f in kf.get("findings", [])}
    for fid, n in sorted(known_hit.items()):
        f = titles.get(fid, {})
        print(f"KNOWN-FINDING: property={f.get('property', prop)} {fid}: {f.get('title', '')} ({n} listed witnesses reproduced)")
    coverage = dict(coverage)
    coverage["known_findings_hit"] = known_hit
    ev = {
        "property_id": prop, "tier": tier, "seed": seed(), "level": level, "coverage": coverage,
        "assumptions": assumptions or [], "wall_s": round(time.time() - t0, 2), "violations": len(violations),
    }
    if machinery:
        ev["coverage"]["machinery_errors"] = machinery
    with open(os.path.join(EVID, prop + ".json"), "w") as fh:
        json.dump(ev, fh, indent=1, default=str)
    if machinery:
        for m in machinery[:10]:
            log("MACHINERY:", m)
        return 2
    if violations:
        seen = set()
        n = 0
        for d in violations:
            sig = (d.get("api"), d.get("pattern"))
            if sig in seen:
                continue
            seen.add(sig)
            n += 1
            path = os.path.join(vdir, f"viol_{n}.json")
            with open(path, "w") as fh:
                json.dump(d, fh, indent=1)
            if n <= 25:
                print(f"VIOLATION property={prop} replay={path}")
                log("  ", json.dumps(d)[:400])
        log(f"{len(violations)} violating cases ({len(seen)} distinct api/pattern pairs)")
        return 1
    return 0


def read_report(path):
    with open(path) as fh:
        return json.load(fh)
