#!/usr/bin/env python3
"""dev tool: summarise failure files by (prop, api, strategy)"""
import sys, json, collections, glob
c = collections.Counter(); ex = {}
pats = collections.defaultdict(set)
for f in sys.argv[1:]:
    for l in open(f):
        d = json.loads(l)
        k = (d['prop'], d['api'].split('.')[-1] if False else d['api'], d['mode'], d.get('strategy'))
        c[k] += 1; ex.setdefault(k, d); pats[k].add(d['pattern'])
for k, v in sorted(c.items()):
    e = ex[k]
    print(k, v, len(pats[k]), '|', e['pattern'], e['hay'], e.get('args', ''), 'want', e['want'][:50], 'got', e['got'][:50])
