#!/usr/bin/env python3
"""Development tool (not a registered check): confirm and screen seeded changes.

  seedtest.py confirm <dir>            dir = a delivered change (patch.diff, demo/, meta.json): scratch worktree of /repo HEAD,
                                       apply, build, run the repository's suite, run the demonstration with and without the change
  seedtest.py screen <dir> <prop> <tier> [seed]
                                       run ./vcheck <prop> <tier> of a scratch copy of /verif against a scratch worktree with
                                       the change applied (VERIF_REPO), print exit code and VIOLATION lines

The registered way (apply in /repo, run, `git -C /repo checkout -- .`) gives the same verdicts; scratch copies only allow
several screenings to run side by side."""
import json
import os
import re
import shutil
import subprocess
import sys

ENV = dict(os.environ, GOFLAGS="-mod=mod", GOPROXY="off", GOTOOLCHAIN="auto")
ENV.pop("GOSUMDB", None)


def sh(cmd, cwd=None, timeout=3600, env=None):
    p = subprocess.run(cmd, shell=True, cwd=cwd, env=env or ENV, capture_output=True, text=True, timeout=timeout)
    return p.returncode, (p.stdout + p.stderr)


def worktree(tag):
    wt = f"/tmp/mut/{tag}"
    sh(f"git -C /repo worktree remove --force {wt}")
    shutil.rmtree(wt, ignore_errors=True)
    os.makedirs("/tmp/mut", exist_ok=True)
    rc, out = sh(f"git -C /repo worktree add --detach {wt} HEAD")
    if rc != 0:
        raise SystemExit(out)
    return wt


def drop(wt):
    sh(f"git -C /repo worktree remove --force {wt}")
    shutil.rmtree(wt, ignore_errors=True)


def apply(wt, patch):
    rc, out = sh(f"git apply --3way {patch}", cwd=wt)
    if rc != 0:
        rc, out = sh(f"patch -p1 --no-backup-if-mismatch < {patch}", cwd=wt)
    rc2, st = sh("git status --short", cwd=wt)
    if "UU" in st or rc != 0:
        return False, out + st
    sh("git reset -q", cwd=wt)
    return True, st


def demo(d, wt):
    """run the demonstration against worktree wt; returns (rc, tail)"""
    meta = json.load(open(os.path.join(d, "meta.json")))
    src = os.path.join(d, "demo")
    dst = f"/tmp/mut/demo_{os.path.basename(wt)}"
    shutil.rmtree(dst, ignore_errors=True)
    shutil.copytree(src, dst)
    for root, _, files in os.walk(dst):
        for f in files:
            if f == "go.mod":
                p = os.path.join(root, f)
                s = open(p).read()
                s = re.sub(r"(github.com/coregx/coregex\s*=>\s*)\S+", r"\g<1>" + wt, s)
                open(p, "w").write(s)
                shutil.copy(os.path.join(wt, "go.sum"), os.path.join(root, "go.sum"))
    cmd = meta.get("demo_cmd") or "go test -count=1 ./..."
    cmd = re.split(r"\s{2,}\(", cmd)[0]
    cmd = re.sub(r"cd\s+\S*demo\S*\s*&&\s*", "", cmd)
    cmd = re.sub(r"(export\s+)?GOFLAGS=\S+\s*|GOPROXY=\S+\s*|;\s*", " ", cmd).strip()
    cmd = re.sub(r"^(export\s*)?(&&\s*)+", "", cmd).strip()
    rc, out = sh(cmd, cwd=dst, timeout=1800)
    shutil.rmtree(dst, ignore_errors=True)
    return rc, out[-1500:], cmd


def confirm(d):
    tag = "c_" + d.strip("/").replace("/", "_")[-20:]
    wt = worktree(tag)
    res = {"dir": d}
    try:
        rc0, out0, cmd = demo(d, wt)
        res["demo_cmd"] = cmd
        res["demo_passes_without"] = rc0 == 0
        ok, st = apply(wt, os.path.join(d, "patch.diff"))
        res["applies"] = ok
        if not ok:
            res["apply_out"] = st[-800:]
            return res
        res["files"] = st.split()
        rc, out = sh("go build ./... && go build -tags verif ./...", cwd=wt)
        res["builds"] = rc == 0
        rc1, out1, _ = demo(d, wt)
        res["demo_fails_with"] = rc1 != 0
        res["demo_tail_with"] = out1[-600:]
        if rc0 != 0:
            res["demo_tail_without"] = out0[-600:]
        rc, out = sh("go test -vet=off -count=1 ./... 2>&1 | grep -v '^ok\\|no test files'", cwd=wt, timeout=3000)
        res["suite_passes"] = out.strip() == ""
        if out.strip():
            res["suite_out"] = out[-1200:]
            if "TestAntiQuadratic_LargeInputPerformance" in out:
                rc, o2 = sh("go test -vet=off -count=1 ./meta 2>&1 | tail -5", cwd=wt, timeout=3000)
                res["suite_meta_rerun"] = o2[-400:]
                res["suite_passes"] = o2.strip().startswith("ok")
    finally:
        drop(wt)
    return res


def keyset(keepdir, prop):
    import glob
    sys.path.insert(0, "/verif/lib")
    import vlib
    ks = {}
    for f in glob.glob(os.path.join(keepdir, "*")):
        try:
            for line in open(f):
                try:
                    d = json.loads(line)
                except Exception:
                    continue
                if d.get("prop") == prop:
                    ks.setdefault(vlib.failure_key(d), d)
        except Exception:
            pass
    return ks


def screen(d, prop, tier, seed="0", base=None):
    """base: directory holding the clean tree's keep dirs (<base>/<prop>.<tier>) and logs; detection = a failure key the clean
    run does not have (or, for checks without failure files, a VIOLATION where the clean run printed none)."""
    tag = "s_" + d.strip("/").replace("/", "_")[-20:] + f"_{prop}_{tier}_{seed}"
    wt = worktree(tag)
    vr = f"/tmp/vrun/{tag}"
    keep = f"/tmp/vrun/{tag}.keep"
    try:
        ok, st = apply(wt, os.path.join(d, "patch.diff"))
        if not ok:
            return {"dir": d, "applies": False, "out": st[-500:]}
        shutil.rmtree(vr, ignore_errors=True)
        shutil.rmtree(keep, ignore_errors=True)
        os.makedirs("/tmp/vrun", exist_ok=True)
        shutil.copytree("/verif", vr, ignore=shutil.ignore_patterns("out", ".git", "proto", "seeded"))
        os.makedirs(os.path.join(vr, "out"), exist_ok=True)
        if os.path.isdir("/verif/out/tlccache"):     # generator outputs depend on spec/ only: share them
            os.symlink("/verif/out/tlccache", os.path.join(vr, "out", "tlccache"))
        env = dict(ENV, VERIF_REPO=wt, VERIF_SEED=seed, VERIF_TIER=tier, VERIF_KEEP=keep)
        rc, out = sh(f"./vcheck {prop} {tier}", cwd=vr, timeout=4 * 3600, env=env)
        viol = [l for l in out.splitlines() if l.startswith("VIOLATION")]
        res = {"dir": d, "prop": prop, "tier": tier, "seed": seed, "exit": rc, "violation_lines": len(viol), "tail": out[-700:] if rc == 2 else ""}
        if base:
            bk = keyset(os.path.join(base, f"{prop}.{tier}"), prop)
            sk = keyset(keep, prop)
            new = [k for k in sk if k not in bk]
            res["base_keys"], res["seed_keys"], res["new_keys"] = len(bk), len(sk), len(new)
            res["new_samples"] = [{k: sk[x].get(k) for k in ("api", "mode", "pattern", "hay", "args", "want", "got", "strategy", "scope", "cfg")} for x in new[:3]]
            blog = os.path.join(base, f"{prop}.{tier}.log")
            bviol = sum(1 for l in open(blog) if l.startswith("VIOLATION")) if os.path.exists(blog) else None
            res["base_violation_lines"] = bviol
            # non-file violations (stage-level): sample lines that mention api kinds not present in the baseline log
            btxt = open(blog).read() if os.path.exists(blog) else ""
            extra = [l.strip()[:300] for l in out.splitlines() if l.startswith("   {") and l.strip()[:120] not in btxt]
            res["new_detail_lines"] = extra[:3]
            res["detected"] = bool(new) or (rc == 1 and bviol == 0) or bool(extra and not sk and not bk)
        else:
            res["detected"] = rc == 1
            res["detail"] = [l.strip()[:300] for l in out.splitlines() if l.startswith("   {")][:3]
        return res
    finally:
        drop(wt)
        shutil.rmtree(vr, ignore_errors=True)
        shutil.rmtree(keep, ignore_errors=True)


if __name__ == "__main__":
    if sys.argv[1] == "confirm":
        print(json.dumps(confirm(sys.argv[2]), indent=1))
    elif sys.argv[1] == "screen":
        a = sys.argv[2:]
        print(json.dumps(screen(a[0], a[1], a[2], a[3] if len(a) > 3 else "0", a[4] if len(a) > 4 else None), indent=1))
