#!/usr/bin/env python3
"""Development tool: copy confirmed seeded changes into /verif/seeded/<id>/ and write the detection table.

usage: seedkeep.py <seeds-root> <confirm-dir> <screen-dir>
  <seeds-root>/<Cxx>/<k>/{patch.diff,demo/,meta.json}     as delivered by the mutation agents (patch possibly ported)
  <confirm-dir>/<Cxx>_<k>.json                            result of `seedtest.py confirm` on the final tree
  <screen-dir>/<Cxx>_<k>_<prop>_<tier>.json               results of `seedtest.py screen`
Writes seeded/<Cxx>-<k>/{patch.diff,demo/,meta.json} and seeded/TABLE.md."""
import glob
import json
import os
import shutil
import sys

V = os.path.dirname(os.path.dirname(os.path.abspath(__file__)))


def main():
    root, cdir, sdir = sys.argv[1:4]
    rows = []
    for d in sorted(glob.glob(os.path.join(root, "C*", "*"))):
        if not os.path.exists(os.path.join(d, "patch.diff")) or not os.path.exists(os.path.join(d, "meta.json")):
            continue
        prop, k = d.split("/")[-2:]
        sid = f"{prop}-{k}"
        cf = os.path.join(cdir, f"{prop}_{k}.json")
        conf = json.load(open(cf)) if os.path.exists(cf) else {}
        confirmed = all(conf.get(x) for x in ("applies", "builds", "demo_passes_without", "demo_fails_with", "suite_passes"))
        meta = json.load(open(os.path.join(d, "meta.json")))
        screens = []
        for f in sorted(glob.glob(os.path.join(sdir, f"{prop}_{k}_*.json"))):
            try:
                s = json.load(open(f))
            except Exception:
                continue
            if "prop" not in s:
                continue
            rnd = "final" if f.endswith("_rF.json") else ("second" if f.endswith("_r2.json") else "first")
            screens.append({"round": rnd, "check": s["prop"], "tier": s["tier"], "detected": bool(s.get("detected")), "exit": s.get("exit"),
                            "new_failing_inputs": s.get("new_keys") if s.get("new_keys") is not None else s.get("violation_lines"),
                            "sample": (s.get("new_samples") or s.get("new_detail_lines") or s.get("detail") or [None])[0]})
        if not confirmed:
            rows.append((sid, meta, conf, screens, False))
            continue
        out = os.path.join(V, "seeded", sid)
        shutil.rmtree(out, ignore_errors=True)
        os.makedirs(out)
        shutil.copy(os.path.join(d, "patch.diff"), out)
        if os.path.exists(os.path.join(d, "patch.orig.diff")):
            shutil.copy(os.path.join(d, "patch.orig.diff"), out)
        shutil.copytree(os.path.join(d, "demo"), os.path.join(out, "demo"), ignore=shutil.ignore_patterns("go.sum"))
        meta["confirmed_on_final_tree"] = {x: conf.get(x) for x in ("applies", "builds", "demo_passes_without", "demo_fails_with", "suite_passes")}
        meta["demo_cmd_used"] = conf.get("demo_cmd")
        meta["checks_run"] = screens
        meta["caught_by"] = sorted({f"{s['check']} {s['tier']} ({s['round']} round)" for s in screens if s["detected"]})
        json.dump(meta, open(os.path.join(out, "meta.json"), "w"), indent=1, ensure_ascii=False)
        rows.append((sid, meta, conf, screens, True))
    with open(os.path.join(V, "seeded", "TABLE.md"), "w") as fh:
        fh.write("Rounds: *first* = the machinery as it was when the changes were delivered (quick tier of the change's own property); "
                 "*second* = after the strengthening described in DESIGN.md section 10 (quick tier); *final* = the committed machinery with the "
                 "committed known-findings lists (a VIOLATION line = caught).\n\n")
        fh.write("| change | files | what it needs to show | first round | caught by (second / final) | still missed by |\n|---|---|---|---|---|---|\n")
        for sid, meta, conf, screens, kept in rows:
            if not kept:
                continue
            first = ", ".join(sorted({f"{s['check']} {s['tier']}: {'caught' if s['detected'] else 'missed'}" for s in screens if s["round"] == "first"})) or "-"
            later = [s for s in screens if s["round"] != "first"]
            caught = sorted({f"{s['check']} {s['tier']}" for s in later if s["detected"]})
            missed = sorted({f"{s['check']} {s['tier']}" for s in later if not s["detected"]} - set(caught))
            need = (meta.get("needs_to_manifest") or "")[:140].replace("|", "\\|").replace("\n", " ")
            fh.write(f"| {sid} | {', '.join(meta.get('files', []))} | {need} | {first} | {', '.join(caught) or '-'} | {', '.join(missed) or '-'} |\n")
        dropped = [sid for sid, *_r, kept in rows if not kept]
        if dropped:
            fh.write("\nNot kept (not confirmed on the final tree: the existing suite fails with it, or a duplicate): " + ", ".join(dropped) + "\n")
    print(len([r for r in rows if r[4]]), "kept,", len([r for r in rows if not r[4]]), "dropped")


if __name__ == "__main__":
    main()
