#!/usr/bin/env python3
"""Development tool (never run by a check): rebuilds known_findings.json from failure files kept by
`VERIF_KEEP=<dir> ./vcheck <prop> thorough` runs on the UNCHANGED tree, after each failing cluster has been
examined and judged a genuine defect of coregex (see DESIGN.md section 7).

usage: kfgen.py <keepdir> [<keepdir>...]
Findings are grouped by (property, engine scope, strategy, mode); each gets a sorted, gzip-compressed file of
witness key hashes (sha1/16 hex of property|scope|mode|pattern|haystack-hex[|cfg])."""
import collections, glob, gzip, json, os, sys
sys.path.insert(0, os.path.dirname(os.path.abspath(__file__)))
import vlib

V = vlib.VERIF
_p = os.path.join(vlib.VERIF, "known_findings.json")
old_kf = json.load(open(_p)) if os.path.exists(_p) else {"findings": [], "fixed": []}
groups = collections.defaultdict(set)
example = {}
count = collections.Counter()
for d in sys.argv[1:]:
    for f in sorted(glob.glob(os.path.join(d, "*fail*.ndjson"))):
        for line in open(f):
            line = line.strip()
            if not line:
                continue
            r = json.loads(line)
            scope = r.get("scope") or vlib.engine_scope(r.get("api", ""))
            import re as _re
            site = r.get("strategy") or _re.sub(r"[^A-Za-z0-9.]+", "_", r.get("api", "any").split("[")[0].split("(")[0])[:40]
            if vlib.class_finding(old_kf, r):
                continue
            gid = "KF-%s-%s-%s-%s" % (r["prop"], scope or "api", site, r.get("mode") or "first")
            k = vlib.failure_key(r)
            groups[gid].add(vlib.key_hash(k))
            count[gid] += 1
            if gid not in example or len(r["hay"]) < len(example[gid]["hay"]):
                example[gid] = r
path = os.path.join(V, "known_findings.json")
old = json.load(open(path)) if os.path.exists(path) else {"findings": [], "fixed": []}
notes = {f["id"]: f for f in old.get("findings", [])}
os.makedirs(os.path.join(V, "kf"), exist_ok=True)
for f in glob.glob(os.path.join(V, "kf", "*.keys.gz")):
    os.remove(f)
findings = [f for f in old.get("findings", []) if f.get("class")]
for gid in sorted(groups):
    e = example[gid]
    wf = f"kf/{gid}.keys.gz"
    with gzip.open(os.path.join(V, wf), "wt", compresslevel=9) as fh:
        for h in sorted(groups[gid]):
            fh.write(h + "\n")
    prev = notes.get(gid, {})
    findings.append({
        "id": gid, "property": e["prop"],
        "title": prev.get("title") or f"{e['api']} [{e.get('mode')}] e.g. {e['pattern']!r} on 0x{e['hay']} {e.get('args','')}: want {e['want'][:60]} got {e['got'][:60]}",
        "root_cause": prev.get("root_cause", ""),
        "call_site": prev.get("call_site", e.get("strategy") or ""),
        "inputs": len(groups[gid]), "failing_calls_seen": count[gid],
        "witness_file": wf,
        "example": {k: e.get(k) for k in ("api", "mode", "pattern", "hay", "args", "want", "got", "strategy", "cfg")},
    })
json.dump({"format": "witness files hold sha1[:16] of 'property|scope|mode|pattern|haystack-hex[|cfg]', one per line, sorted",
           "findings": findings, "fixed": old.get("fixed", [])}, open(path, "w"), indent=1, ensure_ascii=False)
print(len(findings), "findings,", sum(len(v) for v in groups.values()), "witness inputs")
