#!/usr/bin/env python3
"""Regenerates MANIFEST.json from the registry below (single source of truth for the interface)."""
import json, os, subprocess
V = os.path.dirname(os.path.dirname(os.path.abspath(__file__)))
props = [json.loads(l) for l in open(os.path.join(V, "properties.jsonl"))]

CHECKS = {}
NOT_APPLICABLE = {}

def reg(pid, category, text, note, technique, design_ref):
    CHECKS[pid] = dict(category=category, text=text, note=note, technique=technique, design_ref=design_ref)

exec(open(os.path.join(V, "lib", "manifest_entries.py")).read())

hook_commits = []
try:
    out = subprocess.run(["git", "-C", "/repo", "log", "--format=%H %s"], capture_output=True, text=True).stdout
    hook_commits = [l.split()[0] for l in out.splitlines() if " verif-hook:" in l or l.split(" ", 1)[1].startswith("verif:")]
except Exception:
    pass

m = {
    "version": 1,
    "setup_cmd": "./setup.sh",
    "hooks": {
        "guard": "verif",
        "enable": "go build -tags verif (the harness is built with -tags verif against /repo's working tree by every check)",
        "baseline_off_cmd": "cd /repo && GOFLAGS=-mod=mod GOPROXY=off go test -json -vet=off -count=1 -timeout 25m ./...",
        "source_commits": hook_commits,
        "add_only": True,
    },
    "engines": [
        {"name": "tlc", "path": "spec/", "serves_properties": sorted(CHECKS), "kind_free_text": "TLA+ specification checked and enumerated by TLC 1.8 (generators, protocol models, trace specs)"},
        {"name": "vh", "path": "harness/", "serves_properties": sorted(CHECKS), "kind_free_text": "Go conformance harness: replays TLC-generated vectors/behaviours into coregex, records traces for TLC"},
    ],
    "checks": [],
    "not_applicable": [{"property_id": p, "reason": r} for p, r in sorted(NOT_APPLICABLE.items())],
    "notes": "See DESIGN.md. Exit 0 = held (KNOWN-FINDING lines for listed defects), 1 = VIOLATION, 2 = machinery problem.",
}
for p in props:
    pid = p["id"]
    if pid not in CHECKS:
        if pid not in NOT_APPLICABLE:
            m["not_applicable"].append({"property_id": pid, "reason": "check not built yet in this round"})
        continue
    c = CHECKS[pid]
    m["checks"].append({
        "property_id": pid,
        "quick_cmd": f"./vcheck {pid} quick",
        "thorough_cmd": f"./vcheck {pid} thorough",
        "evidence_file": f"evidence/{pid}.json",
        "replay_cmd_template": f"./vcheck {pid} --replay {{path}}",
        "engine": "tlc+vh",
        "level_claimed": {"category": c["category"], "text": c["text"], "design_ref": c["design_ref"]},
        "level_note": c["note"],
        "technique": c["technique"],
    })
json.dump(m, open(os.path.join(V, "MANIFEST.json"), "w"), indent=1)
print("checks:", [c["property_id"] for c in m["checks"]])
print("not_applicable:", [c["property_id"] for c in m["not_applicable"]])
