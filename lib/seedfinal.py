#!/usr/bin/env python3
"""Development tool: record the FINAL screening round (the committed machinery with the committed known-findings lists:
exit 1 with a VIOLATION line = caught) in seeded/<id>/meta.json and rewrite seeded/TABLE.md from all meta.json files.

usage: seedfinal.py <screen-dir>      <screen-dir>/<id>_<prop>.json = output of `seedtest.py screen seeded/<id> <prop> quick`"""
import glob
import json
import os
import sys

V = os.path.dirname(os.path.dirname(os.path.abspath(__file__)))


def main():
    sdir = sys.argv[1]
    for f in sorted(glob.glob(os.path.join(sdir, "*.json"))):
        sid, prop = os.path.basename(f)[:-5].rsplit("_", 1)
        mp = os.path.join(V, "seeded", sid, "meta.json")
        if not os.path.exists(mp):
            continue
        try:
            s = json.load(open(f))
        except Exception:
            continue
        if "exit" not in s:
            continue
        meta = json.load(open(mp))
        runs = [r for r in meta.get("checks_run", []) if not (r.get("round") == "final" and r.get("check") == prop)]
        runs.append({"round": "final", "check": prop, "tier": "quick", "detected": s.get("exit") == 1 and s.get("violation_lines", 0) > 0,
                     "exit": s.get("exit"), "violation_lines": s.get("violation_lines"), "sample": (s.get("detail") or [None])[0]})
        meta["checks_run"] = runs
        meta["caught_by"] = sorted({f"{r['check']} {r['tier']} ({r['round']} round)" for r in runs if r["detected"]})
        json.dump(meta, open(mp, "w"), indent=1, ensure_ascii=False)
    rows = []
    for mp in sorted(glob.glob(os.path.join(V, "seeded", "*", "meta.json"))):
        rows.append((os.path.basename(os.path.dirname(mp)), json.load(open(mp))))
    with open(os.path.join(V, "seeded", "TABLE.md"), "w") as fh:
        fh.write("Rounds: *first* = the machinery as it was when the change was delivered (quick tier of the change's own property); "
                 "*second* = after the strengthening described in DESIGN.md section 10 (quick tier, judged against a clean-tree baseline); "
                 "*final* = the committed machinery with the committed known-findings lists, `git -C /repo apply` + `./vcheck <prop> quick` "
                 "(exit 1 with a VIOLATION line = caught).  A change without a final entry was last screened in the round shown.\n\n")
        fh.write("| change | files | what it needs to show | first round | caught by (second / final) | still missed by |\n|---|---|---|---|---|---|\n")
        for sid, meta in rows:
            screens = meta.get("checks_run", [])
            first = ", ".join(sorted({f"{s['check']} {s['tier']}: {'caught' if s['detected'] else 'missed'}" for s in screens if s["round"] == "first"})) or "-"
            later = [s for s in screens if s["round"] != "first"]
            caught = sorted({f"{s['check']} {s['tier']} ({s['round']})" for s in later if s["detected"]})
            cset = {(s["check"]) for s in later if s["detected"]}
            missed = sorted({f"{s['check']} {s['tier']} ({s['round']})" for s in later if not s["detected"] and s["check"] not in cset})
            need = (meta.get("needs_to_manifest") or "")[:140].replace("|", "\\|").replace("\n", " ")
            fh.write(f"| {sid} | {', '.join(meta.get('files', []))} | {need} | {first} | {', '.join(caught) or '-'} | {', '.join(missed) or '-'} |\n")
    print(len(rows), "changes in the table")


if __name__ == "__main__":
    main()
