_MA = ("model-based: TLA+ reference semantics (spec/RegexRef, RegexAPI) enumerated by TLC over the pattern universe "
       "(spec/Universe) x all haystacks over the pattern alphabet up to a length bound; every generated vector replayed into the real code")
_NOTE = ("Trusted: TLC's evaluation of the specification; package regexp as arbiter of the reference (a reference value regexp does not "
         "confirm is a spec gap, never a violation); bounded universe (families of spec/Universe.tla, haystack length <= 3..5 symbols).")
for pid, what in [
    ("C01", "Match/MatchString/MatchReader/package-level Match*/Engine.IsMatch = reference existence of a match"),
    ("C02", "Find/FindString/FindIndex/FindStringIndex/FindReaderIndex/Engine.FindIndices/Engine.Find = reference leftmost-first span"),
    ("C03", "FindSubmatch family = reference capture slots (length 2(NumSubexp+1))"),
    ("C04", "FindAll family, Count, iterators (complete and abandoned), AppendAllIndex with non-empty dst, n in {-1,0,1,2,3} = regexp.allMatches of the reference"),
    ("C10", "every search/enumeration API after Longest() and via CompilePOSIX = reference in leftmost-longest mode; default-mode twin unaffected"),
]:
    reg(pid, "model_checking", "Exhaustive within the bound: " + what + ". " + _MA, _NOTE,
        "TLC-generated vectors from an explicit TLA+ reference semantics, replayed into the implementation (three-way with regexp)", "DESIGN.md §6 " + pid)
reg("C11", "model_checking",
    "Oracle-free relations between ~40 views of one Regex value (and the engine-level API) on every TLC-generated (pattern, haystack) pair, in both match modes",
    "Relational: no reference value is used; bounded universe as for C01.", "TLC-generated inputs; relational conformance of the implementation's own results", "DESIGN.md §6 C11")
reg("C08", "model_checking",
    "ReplaceAll*/Split against regexp.replaceAll/Split of the reference on every generated (pattern, haystack, template, n); Expand/ExpandString "
    "against the TLA+ transcription of regexp.expand on every template of bounded length x 4 capture environments",
    _NOTE, "TLC-generated vectors from RegexAPI!RepPieces/Render/Expand/Split replayed into the implementation", "DESIGN.md §6 C08")

reg("C14", "model_checking",
    "Each exposed engine (PikeVM through 12 entry points, bounded backtracker with CanHandle, lazy DFA forward/anchored/earliest/reverse under 6 cache "
    "configurations including caches too small for the automaton, one-pass DFA) driven directly on every TLC-generated (pattern, haystack, start offset) "
    "and compared with the quantity the specification defines for it (existence, end, anchored end, earliest end, least start for an end, span, slots); "
    "declining is accepted, a wrong answer is not",
    _NOTE + " Engine objects (and DFA caches) are reused across all haystacks of a pattern, as the library reuses them.",
    "TLC-generated per-offset vectors (Find from every offset, anchored match, set of all match ends) replayed into each engine", "DESIGN.md §6 C14")

reg("C12", "model_checking",
    "Relational: TLC enumerates the configuration space (every field at its boundary values, validity by the TLA+ transcription of Validate) and the "
    "pattern universe; Validate() is checked against the specification on every enumerated configuration; every pattern is compiled under 6 fixed and 6 "
    "rotating valid configurations and all results compared with the default configuration and the plain NFA simulation, and recomputed under masked CPU "
    "vector extensions (child runs with GODEBUG=cpu.avx2=off[,cpu.ssse3=off])",
    "No oracle. Bounded universe as for C01; configurations: the product of boundary values (14 700 per shard), a rotating subset per pattern.",
    "TLC-enumerated configurations x TLC-enumerated inputs; relational conformance between configurations", "DESIGN.md §6 C12")
reg("C13", "model_checking",
    "Relational aged-vs-fresh: one aged value per pattern and mode driven through every haystack of the record with rotating APIs, repeats and GCs; "
    "RegexObject life-cycle state graph explored exhaustively by TLC and every transition replayed on real values; Backtrack protocol model checked by TLC "
    "(NoStale, Bounded, Termination; negative control for the defective wrap) and bound to the code by validating H-bt traces of a history that drives the "
    "uint16 generation counter through an overflow (Trace_Backtrack, real modulus)",
    "No oracle for the relational part; protocol models are trusted only as far as trace validation binds them to the code.",
    "TLA+ protocol models (RegexObject, Backtrack) + trace validation of recorded executions + relational replay", "DESIGN.md §6 C13")

reg("C09", "model_checking",
    "Every TLC-enumerated pattern string (all token strings of bounded length over the syntax alphabet, limit families at their boundaries) compiled by "
    "regexp and coregex: acceptance, error text, MustCompile panic text, CompilePOSIX, String/NumSubexp/SubexpNames/SubexpIndex/LiteralPrefix/Marshal/Copy; "
    "QuoteMeta against its TLA+ definition (with the unescape theorem checked by TLC); metadata of the AST universe against the specification's NCaps/Names; "
    "RegexObject life-cycle transitions replayed",
    "regexp is the judge of acceptance and of error texts - the specification generates the inputs and defines QuoteMeta and the metadata functions.",
    "TLC-enumerated pattern strings and limit families; differential conformance with regexp as judge; TLA+ definitions for QuoteMeta/metadata", "DESIGN.md §6 C09")

reg("C19", "model_checking",
    "Every special-purpose searcher on every TLC-generated (pattern, haystack, start offset) it accepts: end to end for patterns whose selected strategy is a "
    "fast path (Engine.IsMatch/FindIndicesAt/FindAt/FindSubmatchAt vs the reference), and directly for the public searchers constructed as meta/compile.go "
    "constructs them when their own applicability predicate accepts (CharClassSearcher, CompositeSearcher, CompositeSequenceDFA, BranchDispatcher, anchored "
    "literal matcher, first-byte rejection set); TLA+ models of the four reverse-search DRIVERS (spec/ReverseSuffix, ReverseInner, ReverseSuffixSet, "
    "ReverseSuffixML: candidate loop, anti-quadratic guard, rescan, shortcuts, hand-overs; automata taken as exact) with exactness theorems on the "
    "families where the driver is right, negative controls (repaired defects and a seeded change), and every answer of the model replayed into the "
    "directly constructed real searcher at every start offset (model = code is counted; the verdict is the engine vs the reference on patterns whose "
    "own strategy is that searcher)",
    _NOTE + " A pattern that the selector no longer routes to a fast path is not counted (dropping a fast path violates nothing); per-strategy coverage is reported.",
    "TLC-generated per-offset vectors replayed end to end by strategy and into directly constructed searchers; TLC-checked driver models "
    "(theorems + negative controls) whose behaviours are replayed into the real reverse searchers", "DESIGN.md §6 C19")

reg("C15", "translation_validation",
    "The byte automaton the real compiler produces for each descriptor (classes at every UTF-8 length boundary, negations, folded classes and literals, dot, "
    "(?s)dot) in each compilation mode (default, sparse dot, ASCII-only) is exported through nfa.NFA's inspection API and TLC runs its byte-level semantics "
    "on all boundary code points and all byte strings of length <= 3 over 15 critical bytes, against Member(descriptor, utf8-decoded rune) of the "
    "specification (spec/UTF8.tla transcribes utf8.DecodeRune); plus a sweep of the code points with the real engine against regexp",
    "Trusted: the exporter (each disagreement is re-observed on the real engine), TLC, regexp as arbiter. Descriptors are the 52 of spec/MC_UTF8.tla.",
    "translation validation: exported artefact of the implementation checked by TLC against the TLA+ specification", "DESIGN.md §6 C15")

reg("C06", "model_checking",
    "TLC checks the Pool protocol model exhaustively (exclusive ownership, no state both held and pooled, termination) and prints every complete interleaving; "
    "schedules are replayed on real goroutines sharing one Regex with the verif gates (before each atomic operation of get/putSearchState and inside every "
    "scratch section), and the recorded H-pool/H-scr events are validated by TLC against Trace_Pool: hand-off as in the model, every mutable scratch object "
    "used by at most one call in progress, every result equal to the sequential result; supplemented by free-running goroutines under the race detector",
    "Data-race freedom proper is observed, not proved. 12 representative patterns x 6 APIs; 2-3 goroutines.",
    "TLA+ protocol model; TLC-generated schedules replayed with scheduler gates; trace validation; race detector", "DESIGN.md §6 C06")

reg("C20", "model_checking",
    "TLC checks the byte-accounted cache protocol (usage <= capacity + one state, clears bounded, a full cache is always resolved), the Pool model with one "
    "goroutine and the visited-table model; executions of the real code recorded through hooks H-dfa / H-pool / H-bt (105 caches from 300 bytes to the "
    "default over a fixed corpus with MemoryUsage probes, single-goroutine histories with a GC, a generation overflow) are validated against the trace "
    "specifications; the documented zero-allocation calls are measured with AllocsPerRun and post-GC heap on a build without instrumentation",
    "Memory is measured in the library's own accounting (MemoryUsage) and by the Go runtime (AllocsPerRun, HeapAlloc after GC).",
    "TLA+ protocol models + trace validation of recorded executions + allocation measurement", "DESIGN.md §6 C20")

reg("C05", "exploration",
    "Measured, not proved: work (executed basic blocks of library code, read deterministically from coverage counters) of Match/FindIndex/FindSubmatchIndex "
    "on pumped members u.v^k.w of the TLC-enumerated universe, n = 128..4096/16384; a series violates the property when its log-log slope exceeds 1.35 "
    "with the last two doubling ratios above 2.4; compile work on pattern-text families must stay polynomial of degree <= 3. The protocol models carry the "
    "design-level bounds (DFACache!FullResolved, Backtrack!Termination, MatchIter!Termination)",
    "Work proxy = basic blocks of Go code; assembly kernels are not counted. Inputs are the pumped members of the fixed universe.",
    "TLC-generated pumped input families; deterministic work counters; growth-rate test", "DESIGN.md §6 C05")

reg("C18", "model_checking",
    "TLC checks the head / W-lane main loop / tail block-scan model against the one-line scalar definitions of all 14 primitives (results equal, reads inside "
    "the slice; deliberately broken tail modes are rejected) and generates the abstract cases; every case is replayed unstretched and stretched to the real "
    "vector widths 16/32/64 against the TLA+ value and a naive loop, on haystacks flush against PROT_NONE pages at both ends with bait bytes around the slice, "
    "plus every length 0..193 x every hit position x all 64 alignments; all of it plain and with the vector extensions masked",
    "Memory safety is observed (guard pages, SetPanicOnFault), not proved; haystacks have at most 2-3 special bytes.",
    "TLA+ block-scan model checked by TLC; TLC-generated cases replayed into the implementation (three-way)", "DESIGN.md §6 C18")

reg("C07", "model_checking",
    "Totality: every TLC-enumerated pattern string (bounded token strings, limit families) through Compile, and every TLC-generated (pattern, haystack) plus a "
    "pumped copy through 14 groups of calls, with panics and missed deadlines as failures. Memory safety: haystacks flush against PROT_NONE pages on either "
    "side, haystack pages read-only, faults attributed to the call. Well-formedness: the predicates TLC asserts of the reference (WFSlots, WFAll in "
    "spec/MC_Search.tla) evaluated on every value the implementation returns, plus aliasing of returned slices",
    "Exhaustive over the bounded universe for the predicates; memory safety and termination are observations (guard pages, deadline).",
    "TLC-generated inputs; spec predicates evaluated on the implementation's results; fault observation", "DESIGN.md §6 C07")

reg("C17", "translation_validation",
    "The real literal extractor (prefixes, suffixes, inner, inner-for-reverse) is run on every TLC-enumerated pattern under a grid of extractor limits and its "
    "output exported; TLC rebuilds the pattern, enumerates its bounded language with the reference semantics and checks necessity of every non-empty, "
    "non-partial sequence on every match text and both obligations of Complete literals; each violation is re-confirmed against regexp and a fresh extractor run",
    "Bounded language (match texts up to 6-7 symbols in one-symbol contexts); regexp arbitrates witnesses.",
    "translation validation: exported artefact of the implementation checked by TLC against the TLA+ reference semantics", "DESIGN.md §6 C17")

reg("C16", "model_checking",
    "TLC enumerates the literal-set universe (singles to quadruples over nibble-colliding bytes, prefix/extension families, needles to 33 bytes, structured sets "
    "of 8..100 literals) with PFind at every (haystack, offset) and PMatch; checks the Teddy model (buckets, nibble masks, block scan, verification order) "
    "against PFind, the Tracker state machine and the candidate-loop shapes (NoSkip) with negative controls; the harness builds every prefilter the library "
    "offers for each set (builder, pattern route, Teddy/FatTeddy, Aho-Corasick, memchr/memmem, wrappers, tracker) and compares Find at every offset and the "
    "spans of complete prefilters (three-way with a naive loop and regexp), also embedded across vector-block boundaries, plain and under CPU masks",
    _NOTE.replace("families of spec/Universe.tla, haystack length <= 3..5 symbols", "literal sets and haystacks of spec/MC_Prefilter.tla"),
    "TLA+ prefilter/Teddy/Tracker models checked by TLC; TLC-generated vectors replayed into every prefilter implementation", "DESIGN.md §6 C16")
