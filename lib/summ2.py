#!/usr/bin/env python3
"""dev tool: cluster failures: ascii-only haystack vs not; by strategy; distinct patterns"""
import sys, json, collections
c = collections.Counter(); ex = {}
pats = collections.defaultdict(set)
for f in sys.argv[1:]:
    for l in open(f):
        d = json.loads(l)
        hb = bytes.fromhex(d['hay'])
        asc = all(b < 0x80 for b in hb)
        pasc = all(ord(ch) < 0x80 for ch in d['pattern'])
        k = (d['prop'], d['mode'], d.get('strategy'), 'hayASCII' if asc else 'hayU8', 'patASCII' if pasc else 'patU8')
        c[k] += 1; ex.setdefault(k, d); pats[k].add(d['pattern'])
for k, v in sorted(c.items()):
    e = ex[k]
    print(k, v, len(pats[k]), '|', e['api'], e['pattern'], e['hay'], e.get('args', ''), 'want', e['want'][:40], 'got', e['got'][:40])
