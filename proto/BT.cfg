CONSTANTS G = 4
 MaxN = 2
SPECIFICATION Spec
INVARIANT NoStale
CONSTRAINT Bound
CHECK_DEADLOCK FALSE
