------------------------------ MODULE BT ------------------------------
EXTENDS Integers, Sequences, FiniteSets, TLC
CONSTANTS G, MaxN
\* one cell per position (S = 1); cells 0..MaxN
Cells == 0..MaxN
VARIABLES vis, cap, len, gen, pc, n, start, hist
vars == <<vis, cap, len, gen, pc, n, start, hist>>

Init == /\ vis = [c \in Cells |-> 0] /\ cap = 0 /\ len = 0 /\ gen = 0
        /\ pc = "idle" /\ n = 0 /\ start = 0 /\ hist = <<>>

Bump(g) == (g + 1) % G

\* reset(): called at search entry with haystack length m
Begin(m) == /\ pc = "idle"
            /\ n' = m /\ start' = 0
            /\ LET need == m + 1
                   realloc == cap < need
                   vis1 == IF realloc THEN [c \in Cells |-> 0] ELSE vis
                   cap1 == IF realloc THEN need ELSE cap
                   g0 == IF realloc THEN 0 ELSE gen
                   g1 == Bump(g0)
               IN /\ cap' = cap1 /\ len' = need
                  /\ IF g1 = 0
                     THEN /\ vis' = [c \in Cells |-> IF c < need THEN 0 ELSE vis1[c]] /\ gen' = 1
                     ELSE /\ vis' = vis1 /\ gen' = g1
            /\ pc' = "attempt" /\ hist' = Append(hist, <<"search", m>>)

\* one attempt at position start: visits cell start; fails or matches
Attempt(matched) ==
            /\ pc = "attempt" /\ start <= n
            /\ vis' = [vis EXCEPT ![start] = gen]
            /\ IF matched THEN /\ pc' = "idle" /\ UNCHANGED <<gen, start>>
               ELSE /\ start' = start + 1
                    /\ LET g1 == Bump(gen) IN
                       IF g1 = 0 THEN /\ gen' = 1 /\ vis' = [c \in Cells |-> IF c < len THEN 0 ELSE vis[c]]
                                 ELSE gen' = g1
                    /\ pc' = IF start + 1 > n THEN "idle" ELSE "attempt"
            /\ UNCHANGED <<cap, len, n, hist>>

Next == (\E m \in 0..MaxN : Begin(m)) \/ (\E b \in BOOLEAN : Attempt(b))
Spec == Init /\ [][Next]_vars

\* at the beginning of an attempt no live cell may already carry the current stamp
NoStale == pc = "attempt" => \A c \in 0..(len-1) : c >= start => vis[c] # gen
Bound == Len(hist) <= 5
=============================================================================
