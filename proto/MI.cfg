CONSTANT N = 4
SPECIFICATION Spec
INVARIANT AsciiOnly
CHECK_DEADLOCK FALSE
