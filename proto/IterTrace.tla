------------------------------ MODULE IterTrace ------------------------------
EXTENDS Integers, Sequences, TLC, Json, FiniteSets

Trace == ndJsonDeserialize("iter.ndjson")
\* line 1: [ev|->"begin", n|->limit, len|->N, width|-> seq of rune widths per byte pos (0 if not boundary)]
VARIABLES l, pos, prevEnd, cnt, N, W, lim
vars == <<l,pos,prevEnd,cnt,N,W,lim>>

Init == l = 1 /\ pos = 0 /\ prevEnd = -1 /\ cnt = 0 /\ N = 0 /\ W = <<>> /\ lim = 0

Begin == /\ l <= Len(Trace) /\ Trace[l].ev = "begin"
         /\ N' = Trace[l].len /\ W' = Trace[l].w /\ lim' = Trace[l].n
         /\ pos' = 0 /\ prevEnd' = -1 /\ cnt' = 0 /\ l' = l + 1

WidthAt(p) == IF p < N THEN W[p+1] ELSE 0

\* one stdlib iteration: search result logged; accept flag logged
Step == /\ l <= Len(Trace) /\ Trace[l].ev = "iter"
        /\ (lim < 0 \/ cnt < lim) /\ pos <= N
        /\ LET e == Trace[l] IN
           /\ e.pos = pos
           /\ e.found
           /\ e.s >= pos /\ e.e >= e.s
           /\ LET empty == (e.e = pos)
                  accept == ~(empty /\ e.s = prevEnd)
              IN /\ e.accept = accept
                 /\ pos' = IF empty THEN (IF WidthAt(pos) > 0 THEN pos + WidthAt(pos) ELSE N + 1) ELSE e.e
                 /\ prevEnd' = e.e
                 /\ cnt' = IF accept THEN cnt + 1 ELSE cnt
        /\ l' = l + 1 /\ UNCHANGED <<N,W,lim>>

End == /\ l <= Len(Trace) /\ Trace[l].ev = "end"
       /\ Trace[l].count = cnt
       /\ l' = l + 1 /\ UNCHANGED <<pos,prevEnd,cnt,N,W,lim>>

Next == Begin \/ Step \/ End
Spec == Init /\ [][Next]_vars
Accepted == TLCGet("stats").diameter - 1 = Len(Trace)
=============================================================================
