------------------------------ MODULE MI ------------------------------
EXTENDS Integers, Sequences, FiniteSets, TLC
CONSTANT N
Pos == 0..N
\* width vectors: W[p] = width of rune starting at p (p < N), 0 if p is inside a rune
RECURSIVE Widths(_)
Widths(p) == IF p = N THEN {<<>>}
             ELSE UNION { { <<w>> \o [i \in 1..(w-1) |-> 0] \o rest : rest \in Widths(p+w) } : w \in {x \in 1..4 : p + x <= N} }
\* landscapes: partial function start -> end (end >= start); only rune boundaries can start/end matches in a correct engine,
\* but we allow any positions so that engine bugs (matches inside runes) are also covered when validating traces.
Bnd(W) == {p \in Pos : p = N \/ W[p+1] > 0}
\* byte-level engine landscape: a match may start/end at any byte offset
Landscapes(W) == { A \in [Pos -> (Pos \cup {-1})] : \A s \in Pos : A[s] = -1 \/ A[s] >= s }

FirstIn(A, p, S) == LET D == {s \in S : s >= p /\ A[s] # -1} IN
               IF D = {} THEN <<>> ELSE LET s == CHOOSE x \in D : \A y \in D : x <= y IN <<s, A[s]>>
WidthAt(W, p) == IF p < N THEN W[p+1] ELSE 0

First(A,p) == FirstIn(A, p, DOMAIN A)
RECURSIVE Std(_,_,_,_,_,_)
Std(A, W, lim, pos, prevEnd, out) ==
  IF (lim >= 0 /\ Len(out) >= lim) \/ pos > N THEN out
  ELSE LET m == FirstIn(A, pos, Bnd(W)) IN
       IF m = <<>> THEN out
       ELSE IF m[2] = pos
            THEN Std(A, W, lim, IF WidthAt(W,pos) > 0 THEN pos + WidthAt(W,pos) ELSE N+1, m[2],
                     IF m[1] = prevEnd THEN out ELSE Append(out, m))
            ELSE Std(A, W, lim, m[2], m[2], Append(out, m))

\* coregex findAllIndicesLoop shape (n <= 0 means all)
RECURSIVE Cg(_,_,_,_,_,_)
Cg(A, W, lim, pos, lastEnd, out) ==
  IF (lim > 0 /\ Len(out) >= lim) \/ pos > N THEN out
  ELSE LET m == First(A, pos) IN
       IF m = <<>> THEN out
       ELSE IF m[1] = m[2] /\ m[1] = lastEnd
            THEN Cg(A, W, lim, pos + 1, lastEnd, out)
            ELSE LET out2 == Append(out, m)
                     le2 == IF m[1] # m[2] THEN m[2] ELSE lastEnd
                     pos2 == IF m[1] = m[2] THEN m[2] + 1 ELSE IF m[2] > pos THEN m[2] ELSE pos + 1
                 IN Cg(A, W, lim, pos2, le2, out2)

VARIABLES w, a, lim
Init == w \in Widths(0) /\ a \in Landscapes(w) /\ lim \in {-1, 1, 2}
Next == UNCHANGED <<w,a,lim>>
Spec == Init /\ [][Next]_<<w,a,lim>>
Same == Std(a, w, lim, 0, -1, <<>>) = Cg(a, w, lim, 0, -1, <<>>)
AsciiOnly == (\A i \in 1..Len(w) : w[i] = 1) => Same
=============================================================================
