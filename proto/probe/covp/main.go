package main

import (
	"bytes"
	"encoding/binary"
	"fmt"
	"runtime/coverage"
	"strings"

	"github.com/coregx/coregex"
)

// sumCounters decodes a counter data stream written by coverage.WriteCounters and sums all counters.
func sumCounters(b []byte) (uint64, int) {
	// header: magic[4] version u32 metahash[16] cflavor u8 bigendian u8 pad[6] = 32 bytes
	flavor := b[24]
	off := 32
	// segment header: FcnEntries u64, StrTabLen u32, ArgsLen u32
	fcn := binary.LittleEndian.Uint64(b[off:])
	strLen := binary.LittleEndian.Uint32(b[off+8:])
	argsLen := binary.LittleEndian.Uint32(b[off+12:])
	off += 16 + int(strLen) + int(argsLen)
	for off%4 != 0 {
		off++
	}
	var total uint64
	readU := func() uint32 {
		if flavor == 1 { // raw
			v := binary.LittleEndian.Uint32(b[off:])
			off += 4
			return v
		}
		// uleb128
		var v uint64
		var shift uint
		for {
			c := b[off]
			off++
			v |= uint64(c&0x7f) << shift
			if c&0x80 == 0 {
				break
			}
			shift += 7
		}
		return uint32(v)
	}
	for i := uint64(0); i < fcn; i++ {
		n := readU()
		_ = readU() // pkg
		_ = readU() // func
		for j := uint32(0); j < n; j++ {
			total += uint64(readU())
		}
	}
	return total, int(fcn)
}

func work(f func()) uint64 {
	if err := coverage.ClearCounters(); err != nil {
		panic(err)
	}
	f()
	var buf bytes.Buffer
	if err := coverage.WriteCounters(&buf); err != nil {
		panic(err)
	}
	t, _ := sumCounters(buf.Bytes())
	return t
}

func main() {
	for _, p := range []string{`([a-z])+[0-9]`, `[a-z]+[a-z]+[0-9]`, `(a|b)*c`, `\w+@\w+`, `.*\.txt`} {
		re := coregex.MustCompile(p)
		fmt.Printf("%-22s", p)
		var prev uint64
		for _, n := range []int{250, 500, 1000, 2000} {
			h := []byte(strings.Repeat("ab", n/2))
			w := work(func() { re.Match(h) })
			w2 := work(func() { re.Match(h) })
			r := 0.0
			if prev > 0 {
				r = float64(w) / float64(prev)
			}
			fmt.Printf(" n=%d w=%d(%d) x%.2f", n, w, w2, r)
			prev = w
		}
		fmt.Println()
	}
}
