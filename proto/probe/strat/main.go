package main

import (
	"bufio"
	"encoding/json"
	"fmt"
	"os"
	"regexp"
	"strconv"
	"strings"

	"github.com/coregx/coregex/meta"
)

type node struct {
	Op string `json:"op"`
	C  int    `json:"c"`
	S  []int  `json:"s"`
	K  string `json:"k"`
	A  *node  `json:"a"`
	B  *node  `json:"b"`
	G  bool   `json:"g"`
}

var sym = []string{"", "a", "b", "\n", "é"}
var symPat = []string{"", "a", "b", `\n`, "é"}

func pr(n *node) string {
	switch n.Op {
	case "lit":
		return symPat[n.C]
	case "cls":
		s := "["
		for _, c := range n.S {
			s += symPat[c]
		}
		return s + "]"
	case "emp":
		return "(?:)"
	case "look":
		switch n.K {
		case "bol":
			return "(?m:^)"
		case "eol":
			return "(?m:$)"
		case "wb":
			return `\b`
		}
	case "cat":
		return "(?:" + pr(n.A) + ")(?:" + pr(n.B) + ")"
	case "alt":
		return "(?:" + pr(n.A) + "|" + pr(n.B) + ")"
	case "star", "plus", "quest":
		q := map[string]string{"star": "*", "plus": "+", "quest": "?"}[n.Op]
		if !n.G {
			q += "?"
		}
		return "(?:" + pr(n.A) + ")" + q
	case "cap":
		return "(" + pr(n.A) + ")"
	}
	panic(n.Op)
}

type rec struct {
	Re  *node   `json:"re"`
	H   []int   `json:"h"`
	All [][]int `json:"all"`
}

func main() {
	f, _ := os.Open(os.Args[1])
	sc := bufio.NewScanner(f)
	sc.Buffer(make([]byte, 1<<20), 1<<24)
	seen := map[string]bool{}
	hist := map[string]int{}
	ex := map[string]string{}
	for sc.Scan() {
		line := sc.Text()
		if !strings.HasPrefix(line, "\"") {
			continue
		}
		js, _ := strconv.Unquote(line)
		var r rec
		json.Unmarshal([]byte(js), &r)
		p := pr(r.Re)
		if seen[p] { continue }
		seen[p] = true
		e, err := meta.Compile(p)
		if err != nil { hist["ERR"]++; continue }
		hist[e.Strategy().String()]++
		ex[e.Strategy().String()] = p
	}
	for k, v := range hist { fmt.Println(k, v, ex[k]) }
	_ = regexp.MustCompile
}
