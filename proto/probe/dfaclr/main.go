package main

import (
	"fmt"
	"math/rand"
	"regexp"

	"github.com/coregx/coregex/dfa/lazy"
	"github.com/coregx/coregex/nfa"
)

func main() {
	pats := []string{`[ab]*a[ab]{3}c`, `(a|b)*abb`, `a[ab]{4}b`, `[ab]*a[ab]{5}`, `(ab|ba)+c`}
	rng := rand.New(rand.NewSource(1))
	for _, p := range pats {
		std := regexp.MustCompile(p)
		n, err := nfa.NewDefaultCompiler().Compile(p)
		if err != nil {
			panic(err)
		}
		for _, capB := range []int{200, 400, 800, 1500, 3000, 6000} {
			for _, clears := range []int{0, 1, 5, 50} {
				cfg := lazy.DefaultConfig().WithCacheCapacity(capB).WithMaxCacheClears(clears)
				d, err := lazy.CompileWithConfig(n, cfg)
				if err != nil {
					fmt.Println("compile err", err)
					continue
				}
				cache := d.NewCache()
				bad := 0
				var ex string
				for it := 0; it < 3000; it++ {
					L := rng.Intn(40)
					h := make([]byte, L)
					for i := range h {
						h[i] = "abc"[rng.Intn(3)]
					}
					want := -1
					if loc := std.FindIndex(h); loc != nil {
						want = loc[1]
					}
					got := d.SearchAt(cache, h, 0)
					wm := std.Match(h)
					gm := d.IsMatch(cache, h)
					if got != want || wm != gm {
						bad++
						if ex == "" {
							ex = fmt.Sprintf("%q want end %d got %d; match %v/%v clearCount=%d", h, want, got, wm, gm, cache.ClearCount())
						}
					}
				}
				if bad > 0 {
					fmt.Printf("%-18s cap=%-5d clears=%-2d bad=%d  e.g. %s\n", p, capB, clears, bad, ex)
				}
			}
		}
	}
	fmt.Println("done")
}
