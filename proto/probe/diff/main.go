package main

import (
	"bufio"
	"encoding/json"
	"fmt"
	"os"
	"regexp"
	"strconv"
	"strings"

	"github.com/coregx/coregex"
)

type node struct {
	Op string `json:"op"`
	C  int    `json:"c"`
	S  []int  `json:"s"`
	K  string `json:"k"`
	A  *node  `json:"a"`
	B  *node  `json:"b"`
	G  bool   `json:"g"`
}

var sym = []string{"", "a", "b", "\n", "é"}
var symPat = []string{"", "a", "b", `\n`, "é"}

func pr(n *node) string {
	switch n.Op {
	case "lit":
		return symPat[n.C]
	case "cls":
		s := "["
		for _, c := range n.S {
			s += symPat[c]
		}
		return s + "]"
	case "emp":
		return "(?:)"
	case "look":
		switch n.K {
		case "bol":
			return "(?m:^)"
		case "eol":
			return "(?m:$)"
		case "wb":
			return `\b`
		}
	case "cat":
		return "(?:" + pr(n.A) + ")(?:" + pr(n.B) + ")"
	case "alt":
		return "(?:" + pr(n.A) + "|" + pr(n.B) + ")"
	case "star", "plus", "quest":
		q := map[string]string{"star": "*", "plus": "+", "quest": "?"}[n.Op]
		if !n.G {
			q += "?"
		}
		return "(?:" + pr(n.A) + ")" + q
	case "cap":
		return "(" + pr(n.A) + ")"
	}
	panic(n.Op)
}

type rec struct {
	Re  *node   `json:"re"`
	H   []int   `json:"h"`
	All [][]int `json:"all"`
}

func main() {
	f, _ := os.Open(os.Args[1])
	sc := bufio.NewScanner(f)
	sc.Buffer(make([]byte, 1<<20), 1<<24)
	total, specGap, cgDiff := 0, 0, 0
	failPats := map[string]int{}
	stdCache := map[string]*regexp.Regexp{}
	cgCache := map[string]*coregex.Regex{}
	shown := 0
	for sc.Scan() {
		line := sc.Text()
		if !strings.HasPrefix(line, "\"") {
			continue
		}
		js, err := strconv.Unquote(line)
		if err != nil {
			panic(err)
		}
		var r rec
		if err := json.Unmarshal([]byte(js), &r); err != nil {
			panic(err)
		}
		p := pr(r.Re)
		h := ""
		off := []int{0}
		for _, c := range r.H {
			h += sym[c]
			off = append(off, len(h))
		}
		var exp [][]int
		for _, m := range r.All {
			exp = append(exp, []int{off[m[0]-1], off[m[1]-1]})
		}
		std := stdCache[p]
		if std == nil {
			std = regexp.MustCompile(p)
			stdCache[p] = std
		}
		cg := cgCache[p]
		if cg == nil {
			cg = coregex.MustCompile(p)
			cgCache[p] = cg
		}
		total++
		se := fmt.Sprint(std.FindAllStringIndex(h, -1))
		if len(exp) == 0 {
			if se != "[]" {
				specGap++
				if shown < 10 {
					fmt.Printf("SPECGAP %q %q spec=%v std=%v\n", p, h, exp, se)
					shown++
				}
				continue
			}
		} else if se != fmt.Sprint(exp) {
			specGap++
			if shown < 10 {
				fmt.Printf("SPECGAP %q %q spec=%v std=%v\n", p, h, exp, se)
				shown++
			}
			continue
		}
		ce := fmt.Sprint(cg.FindAllStringIndex(h, -1))
		if ce != se {
			cgDiff++
			failPats[p]++
		}
	}
	fmt.Println("total", total, "specGap", specGap, "cgDiff", cgDiff, "failingPatterns", len(failPats), "patterns", len(stdCache))
	n := 0
	for p, c := range failPats {
		if n < 25 {
			fmt.Printf("  %q x%d\n", p, c)
		}
		n++
	}
}
