package main

import (
	"fmt"
	"runtime/debug"
	"syscall"
	"unsafe"

	"github.com/coregx/coregex/simd"
)

func guarded(n int) (data []byte, whole []byte) {
	ps := syscall.Getpagesize()
	pages := (n+ps-1)/ps + 2
	m, err := syscall.Mmap(-1, 0, pages*ps, syscall.PROT_READ|syscall.PROT_WRITE, syscall.MAP_ANON|syscall.MAP_PRIVATE)
	if err != nil {
		panic(err)
	}
	// last page and first page inaccessible
	if err := syscall.Mprotect(m[len(m)-ps:], syscall.PROT_NONE); err != nil {
		panic(err)
	}
	if err := syscall.Mprotect(m[:ps], syscall.PROT_NONE); err != nil {
		panic(err)
	}
	end := len(m) - ps
	return m[end-n : end : end], m
}

func try(name string, f func()) {
	defer func() {
		if r := recover(); r != nil {
			fmt.Println(name, "FAULT:", r)
		}
	}()
	debug.SetPanicOnFault(true)
	f()
	fmt.Println(name, "ok")
}

func main() {
	h, _ := guarded(100)
	for i := range h {
		h[i] = 'x'
	}
	try("memchr exact", func() { fmt.Println(simd.Memchr(h, 'q')) })
	// simulate an over-read: lie about the length by 1..32 bytes
	over := unsafe.Slice(&h[0], len(h)+8)
	try("memchr over-read", func() { fmt.Println(simd.Memchr(over, 'q')) })
	try("isascii over-read", func() { fmt.Println(simd.IsASCII(over)) })
}
