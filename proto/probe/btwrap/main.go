package main

import (
	"fmt"

	"github.com/coregx/coregex/nfa"
)

func run(wantBefore uint16) {
	n, _ := nfa.NewDefaultCompiler().Compile("ab")
	bt := nfa.NewBoundedBacktracker(n)
	st := nfa.NewBacktrackerState()
	long1 := []byte("xxxxxxxxxx")
	long2 := []byte("xxxxxxxxab")
	bt.SearchWithState(long1, st)
	bt.SearchWithState(long2, st)
	short := []byte("x")
	// go past the wrap with short searches
	for {
		before := st.Generation
		bt.SearchWithState(short, st)
		if st.Generation < before {
			break
		}
	}
	for st.Generation+3 <= wantBefore {
		bt.SearchWithState(short, st)
	}
	for st.Generation+2 <= wantBefore {
		bt.SearchWithState([]byte{}, st)
	}
	if st.Generation != wantBefore {
		fmt.Println("could not align", st.Generation, wantBefore)
		return
	}
	s, e, ok := bt.SearchWithState(long2, st)
	fmt.Println("gen", wantBefore, "aged :", s, e, ok)
}

func main() {
	for w := uint16(8); w <= 16; w++ {
		run(w)
	}
}
