package main

import (
	"fmt"
	"os"
	"bufio"

	"github.com/coregx/coregex/meta"
)

func main() {
	sc := bufio.NewScanner(os.Stdin)
	for sc.Scan() {
		p := sc.Text()
		e, err := meta.Compile(p)
		if err != nil {
			fmt.Printf("%-40s ERR %v\n", p, err)
			continue
		}
		fmt.Printf("%-40s %s\n", p, e.Strategy())
	}
}
