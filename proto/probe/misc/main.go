package main

import (
	"fmt"
	"regexp"
	"strings"

	"github.com/coregx/coregex"
	"github.com/coregx/coregex/literal"
	"github.com/coregx/coregex/prefilter"
)

func main() {
	// Split n=1
	fmt.Println("Split n=1:", regexp.MustCompile(`,`).Split("a,b,c", 1), coregex.MustCompile(`,`).Split("a,b,c", 1))
	// templates
	for _, t := range []string{"${1}x", "$1x", "${n}", "$n", "$10", "$$1", "$"} {
		s := regexp.MustCompile(`(?P<n>a)(b)`).ReplaceAllString("ab", t)
		c := coregex.MustCompile(`(?P<n>a)(b)`).ReplaceAllString("ab", t)
		fmt.Printf("tmpl %-6q std=%q cg=%q\n", t, s, c)
	}
	// AppendAllIndex
	re := coregex.MustCompile(`a`)
	dst := [][2]int{{7, 7}}
	fmt.Println("Append dst:", re.AppendAllIndex(dst, []byte("aa"), -1), "n=0:", re.AppendAllIndex(dst, []byte("aa"), 0))
	// POSIX
	_, e1 := regexp.CompilePOSIX(`\d+`)
	_, e2 := coregex.CompilePOSIX(`\d+`)
	fmt.Println("POSIX \\d+:", e1, "|", e2)
	p1, _ := regexp.CompilePOSIX(`^a`)
	p2, _ := coregex.CompilePOSIX(`^a`)
	fmt.Println("POSIX ^a on b\\na:", p1.FindStringIndex("b\na"), p2.FindStringIndex("b\na"))
	// nesting
	nest := strings.Repeat("(", 150) + "a" + strings.Repeat(")", 150)
	_, e1 = regexp.Compile(nest)
	_, e2 = coregex.Compile(nest)
	fmt.Println("nest150:", e1, "|", e2)
	_, e1 = regexp.Compile(`[^\x00-\x{10FFFF}]`)
	_, e2 = coregex.Compile(`[^\x00-\x{10FFFF}]`)
	fmt.Println("nomatch class:", e1, "|", e2)
	// LiteralPrefix
	for _, p := range []string{`a{2}b`, `abc`, `^abc`, `(a)b`, `a+`} {
		a, b := regexp.MustCompile(p).LiteralPrefix()
		c, d := coregex.MustCompile(p).LiteralPrefix()
		fmt.Printf("LiteralPrefix %-6s std=%q,%v cg=%q,%v\n", p, a, b, c, d)
	}
	// Tracker
	pf := prefilter.NewBuilder(literal.NewSeq(literal.NewLiteral([]byte("ab"), true)), nil).Build()
	tr := prefilter.NewTracker(pf)
	h := []byte(strings.Repeat("ab ", 300))
	pos, last := 0, 0
	for i := 0; i < 300; i++ {
		p := tr.Find(h, pos)
		if p < 0 {
			fmt.Println("Tracker returned -1 at iteration", i, "pos", pos, "inner says", pf.Find(h, pos))
			break
		}
		last = p
		pos = p + 1
	}
	_ = last
	// Match vs Find
	for _, p := range []string{`\S\b`, `\B$`} {
		for _, hh := range []string{"a", "a b", ""} {
			r := coregex.MustCompile(p)
			fmt.Printf("%-5s %-5q match=%v find=%v | std match=%v find=%v\n", p, hh, r.MatchString(hh), r.FindStringIndex(hh), regexp.MustCompile(p).MatchString(hh), regexp.MustCompile(p).FindStringIndex(hh))
		}
	}
}
