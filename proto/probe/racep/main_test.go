package racep

import (
	"testing"
	"fmt"

	"github.com/coregx/coregex"
	"github.com/coregx/coregex/meta"
)

func TestAlloc(t *testing.T) {
	h := []byte("xx running file.txt foo123 foo  bar aab user@host xayczz1 xaybz2 192.168.1.1 ^abc def")
	for _, p := range []string{`foo.*?bar`, `a+?b`, `[a-z]+ing`, `.*\.txt`, `foo\d+$`, `\d+`, `(a|b)*c`, `\w+@\w+`, `x[ab]*y[cd]*z\d`, `^abc.*def$`, `foo|bar|baz`, `\d+\.\d+`, `[a-z]+[0-9]+`, `^(\d+|xx)`, `(?m)^/.*\.php`, `ERROR.*conn.*time`, `.*\.(txt|log|md)`, `a*`, `\bfoo\b`} {
		re := coregex.MustCompile(p)
		e, _ := meta.Compile(p)
		buf := make([][2]int, 0, 64)
		a1 := testing.AllocsPerRun(50, func() { re.Match(h) })
		a2 := testing.AllocsPerRun(50, func() { e.FindIndices(h) })
		a3 := testing.AllocsPerRun(50, func() { re.Count(h, -1) })
		a4 := testing.AllocsPerRun(50, func() { for range re.AllIndex(h) {} })
		a5 := testing.AllocsPerRun(50, func() { buf = re.AppendAllIndex(buf[:0], h, -1) })
		fmt.Printf("%-22s %-26s match=%v find=%v count=%v iter=%v append=%v\n", p, e.Strategy(), a1, a2, a3, a4, a5)
	}
}
