package main

import (
	"fmt"
	"os"
	"regexp"

	"github.com/coregx/coregex"
)

func main() {
	pats := os.Args[1:]
	hay := []string{"", "a", "é", "aé", "foobar", "xfoobar", "ab", "abc", "a\nb", "É", "K", "k", "K"}
	for _, p := range pats {
		std, err1 := regexp.Compile(p)
		cg, err2 := coregex.Compile(p)
		if (err1 == nil) != (err2 == nil) {
			fmt.Printf("COMPILE DIFF %q: std=%v cg=%v\n", p, err1, err2)
			continue
		}
		if err1 != nil {
			continue
		}
		for _, h := range hay {
			a := std.FindStringSubmatchIndex(h)
			b := cg.FindStringSubmatchIndex(h)
			ma, mb := std.MatchString(h), cg.MatchString(h)
			fa, fb := std.FindAllStringIndex(h, -1), cg.FindAllStringIndex(h, -1)
			if fmt.Sprint(a) != fmt.Sprint(b) || ma != mb || fmt.Sprint(fa) != fmt.Sprint(fb) {
				fmt.Printf("DIFF %q on %q: sub std=%v cg=%v | match %v %v | all %v %v\n", p, h, a, b, ma, mb, fa, fb)
			}
		}
	}
}
