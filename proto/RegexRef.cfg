CONSTANTS D = 1
 L = 3
INIT Init
NEXT Next
INVARIANT Emit
CHECK_DEADLOCK FALSE
