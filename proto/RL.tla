------------------------------ MODULE RL ------------------------------
EXTENDS Integers, Sequences, FiniteSets, TLC, Json

\* Symbols: 1='a' 2='b' 3='\n' 4='é'(2 bytes)   word: a,b,é? (é is not ASCII word) 
NSym == 4
Width == <<1,1,1,2>>
IsWord == <<TRUE,TRUE,FALSE,FALSE>>
NL == 3
AllSyms == 1..NSym

Lit(c) == [op |-> "lit", c |-> c]
Cls(S) == [op |-> "cls", s |-> S]
Emp == [op |-> "emp"]
Look(k) == [op |-> "look", k |-> k]
Cat(a,b) == [op |-> "cat", a |-> a, b |-> b]
Alt(a,b) == [op |-> "alt", a |-> a, b |-> b]
Star(a,g) == [op |-> "star", a |-> a, g |-> g]
Plus(a,g) == [op |-> "plus", a |-> a, g |-> g]
Quest(a,g) == [op |-> "quest", a |-> a, g |-> g]
Cap(a) == [op |-> "cap", a |-> a, i |-> 0]
CapI(a,i) == [op |-> "cap", a |-> a, i |-> i]

RECURSIVE NCaps(_)
NCaps(r) == CASE r.op \in {"lit","cls","emp","look"} -> 0
              [] r.op \in {"cat","alt"} -> NCaps(r.a) + NCaps(r.b)
              [] r.op \in {"star","plus","quest"} -> NCaps(r.a)
              [] r.op = "cap" -> 1 + NCaps(r.a)

\* preorder numbering: Number(r, k) numbers caps in r starting at k
RECURSIVE Number(_,_)
Number(r,k) == CASE r.op \in {"lit","cls","emp","look"} -> r
              [] r.op \in {"cat","alt"} -> [r EXCEPT !.a = Number(r.a,k), !.b = Number(r.b, k + NCaps(r.a))]
              [] r.op \in {"star","plus","quest"} -> [r EXCEPT !.a = Number(r.a,k)]
              [] r.op = "cap" -> [r EXCEPT !.i = k, !.a = Number(r.a, k+1)]

Atoms == {Lit(1), Lit(2), Cls({1,2,4}), Emp, Look("bol"), Look("wb")}

RECURSIVE RE(_)
RE(d) == IF d = 0 THEN Atoms
         ELSE LET S == RE(d-1) IN
              S \cup {Cat(a,b) : a \in S, b \in S}
                \cup {Alt(a,b) : a \in S, b \in S}
                \cup {Star(a,g) : a \in S, g \in BOOLEAN}
                \cup {Plus(a,g) : a \in S, g \in {TRUE}}
                \cup {Quest(a,g) : a \in S, g \in BOOLEAN}
                \cup {Cap(a) : a \in S}

RECURSIVE Nullable(_)
Nullable(r) == CASE r.op \in {"lit","cls"} -> FALSE
                 [] r.op \in {"emp","look","star","quest"} -> TRUE
                 [] r.op = "cat" -> Nullable(r.a) /\ Nullable(r.b)
                 [] r.op = "alt" -> Nullable(r.a) \/ Nullable(r.b)
                 [] r.op \in {"plus","cap"} -> Nullable(r.a)

RECURSIVE Size(_)
Size(r) == CASE r.op \in {"lit","cls","look","emp"} -> 1
             [] r.op = "cat" -> Size(r.a) + Size(r.b)
             [] r.op = "alt" -> 1 + Size(r.a) + Size(r.b)
             [] r.op = "star" -> IF Nullable(r.a) THEN 2 + Size(r.a) ELSE 1 + Size(r.a)
             [] r.op = "plus" -> Size(r.a) + 1
             [] r.op = "quest" -> 1 + Size(r.a)
             [] r.op = "cap" -> 2 + Size(r.a)

AltI(g, cont, exit) == IF g THEN [op |-> "alt", out |-> cont, arg |-> exit]
                            ELSE [op |-> "alt", out |-> exit, arg |-> cont]

RECURSIVE Code(_,_,_)
Code(r,b,x) ==
  CASE r.op = "lit" -> << [op |-> "rune", s |-> {r.c}, out |-> x] >>
    [] r.op = "cls" -> << [op |-> "rune", s |-> r.s, out |-> x] >>
    [] r.op = "emp" -> << [op |-> "nop", out |-> x] >>
    [] r.op = "look" -> << [op |-> "look", k |-> r.k, out |-> x] >>
    [] r.op = "cat" -> Code(r.a, b, b + Size(r.a)) \o Code(r.b, b + Size(r.a), x)
    [] r.op = "alt" -> << [op |-> "alt", out |-> b+1, arg |-> b+1+Size(r.a)] >>
                         \o Code(r.a, b+1, x) \o Code(r.b, b+1+Size(r.a), x)
    [] r.op = "star" -> IF Nullable(r.a)
                        THEN << AltI(r.g, b+1, x) >> \o Code(r.a, b+1, b+1+Size(r.a)) \o << AltI(r.g, b+1, x) >>
                        ELSE << AltI(r.g, b+1, x) >> \o Code(r.a, b+1, b)
    [] r.op = "plus" -> Code(r.a, b, b + Size(r.a)) \o << AltI(r.g, b, x) >>
    [] r.op = "quest" -> << AltI(r.g, b+1, x) >> \o Code(r.a, b+1, x)
    [] r.op = "cap" -> << [op |-> "cap", n |-> 2*r.i+1, out |-> b+1] >> \o Code(r.a, b+1, b+1+Size(r.a))
                         \o << [op |-> "cap", n |-> 2*r.i+2, out |-> x] >>

Prog(r) == Code(r, 1, Size(r)+1) \o << [op |-> "match"] >>

LookOK(k, h, p) ==
  CASE k = "bot" -> p = 1
    [] k = "eot" -> p = Len(h) + 1
    [] k = "bol" -> p = 1 \/ h[p-1] = NL
    [] k = "eol" -> p = Len(h)+1 \/ h[p] = NL
    [] k = "wb" -> (IF p > 1 THEN IsWord[h[p-1]] ELSE FALSE) # (IF p <= Len(h) THEN IsWord[h[p]] ELSE FALSE)
    [] k = "nwb" -> (IF p > 1 THEN IsWord[h[p-1]] ELSE FALSE) = (IF p <= Len(h) THEN IsWord[h[p]] ELSE FALSE)

NoCapsN(k) == [j \in 1..(2*k+2) |-> 0]

RECURSIVE Try(_,_,_,_,_,_)
Try(prog, h, pc, p, caps, vis) ==
  IF <<pc,p>> \in vis THEN [ok |-> FALSE, caps |-> caps, vis |-> vis]
  ELSE LET v == vis \cup {<<pc,p>>}
           i == prog[pc]
       IN CASE i.op = "match" -> [ok |-> TRUE, caps |-> [caps EXCEPT ![2] = p], vis |-> v]
            [] i.op = "rune" -> IF p <= Len(h) /\ h[p] \in i.s
                                THEN Try(prog, h, i.out, p+1, caps, v)
                                ELSE [ok |-> FALSE, caps |-> caps, vis |-> v]
            [] i.op = "nop" -> Try(prog, h, i.out, p, caps, v)
            [] i.op = "look" -> IF LookOK(i.k, h, p) THEN Try(prog, h, i.out, p, caps, v)
                                ELSE [ok |-> FALSE, caps |-> caps, vis |-> v]
            [] i.op = "cap" -> Try(prog, h, i.out, p, [caps EXCEPT ![i.n] = p], v)
            [] i.op = "alt" -> LET r1 == Try(prog, h, i.out, p, caps, v)
                               IN IF r1.ok THEN r1 ELSE Try(prog, h, i.arg, p, caps, r1.vis)


\* longest mode: explore everything, keep first path reaching each new maximum end; stop all when end of text reached
RECURSIVE TryL(_,_,_,_,_,_,_)
TryL(prog, h, pc, p, caps, vis, best) ==
  IF best.done \/ <<pc,p>> \in vis THEN [vis |-> vis, best |-> best]
  ELSE LET v == vis \cup {<<pc,p>>}
           i == prog[pc]
       IN CASE i.op = "match" ->
                 LET c2 == [caps EXCEPT ![2] = p]
                     b2 == IF best.caps = <<>> \/ p > best.caps[2] THEN c2 ELSE best.caps
                 IN [vis |-> v, best |-> [caps |-> b2, done |-> (p = Len(h) + 1)]]
            [] i.op = "rune" -> IF p <= Len(h) /\ h[p] \in i.s
                                THEN TryL(prog, h, i.out, p+1, caps, v, best)
                                ELSE [vis |-> v, best |-> best]
            [] i.op = "nop" -> TryL(prog, h, i.out, p, caps, v, best)
            [] i.op = "look" -> IF LookOK(i.k, h, p) THEN TryL(prog, h, i.out, p, caps, v, best)
                                ELSE [vis |-> v, best |-> best]
            [] i.op = "cap" -> TryL(prog, h, i.out, p, [caps EXCEPT ![i.n] = p], v, best)
            [] i.op = "alt" -> LET r1 == TryL(prog, h, i.out, p, caps, v, best)
                               IN TryL(prog, h, i.arg, p, caps, r1.vis, r1.best)

RECURSIVE FindFromL(_,_,_,_,_)
FindFromL(prog, h, s, vis, nocaps) ==
  IF s > Len(h) + 1 THEN <<>>
  ELSE LET r == TryL(prog, h, 1, s, [nocaps EXCEPT ![1] = s], vis, [caps |-> <<>>, done |-> FALSE])
       IN IF r.best.caps # <<>> THEN r.best.caps ELSE FindFromL(prog, h, s+1, r.vis, nocaps)

FindL(r, h, at) == LET rn == Number(r,1) IN FindFromL(Prog(rn), h, at, {}, NoCapsN(NCaps(r)))


RECURSIVE FindFrom(_,_,_,_,_)
FindFrom(prog, h, s, vis, nocaps) ==
  IF s > Len(h) + 1 THEN <<>>
  ELSE LET r == Try(prog, h, 1, s, [nocaps EXCEPT ![1] = s], vis)
       IN IF r.ok THEN r.caps ELSE FindFrom(prog, h, s+1, r.vis, nocaps)

Find(r, h, at) == LET rn == Number(r,1) IN FindFrom(Prog(rn), h, at, {}, NoCapsN(NCaps(r)))

\* FindAll per stdlib loop (token positions)
RECURSIVE AllFrom(_,_,_,_,_)
AllFrom(prog, h, pos, prevEnd, acc) ==
  IF pos > Len(h) + 1 THEN acc
  ELSE LET m == FindFrom(prog, h, pos, {}, <<0,0>>)
       IN IF m = <<>> THEN acc
          ELSE IF m[2] = pos
               THEN \* empty match at pos
                    AllFrom(prog, h, pos + 1, m[2], IF m[1] = prevEnd THEN acc ELSE Append(acc, m))
               ELSE AllFrom(prog, h, m[2], m[2], Append(acc, m))

FindAll(r, h) == AllFrom(Prog(r), h, 1, 0, <<>>)

RECURSIVE Seqs(_)
Seqs(n) == IF n = 0 THEN {<<>>} ELSE LET S == Seqs(n-1) IN S \cup {Append(s, c) : s \in {t \in S : Len(t) = n-1}, c \in AllSyms}

CONSTANT D, L
VARIABLES re, hay, out
Init == re \in {r \in RE(D) : NCaps(r) >= 1 /\ NCaps(r) <= 3} /\ hay \in Seqs(L) /\ out = <<>>
Next == out = <<>> /\ out' = <<"done", FindL(re, hay, 1)>> /\ UNCHANGED <<re, hay>>
Spec == Init /\ [][Next]_<<re,hay,out>>
Emit == out = <<>> \/ PrintT(ToJson([re |-> Number(re,1), h |-> hay, sub |-> out[2]]))
=============================================================================
