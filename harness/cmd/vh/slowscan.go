package main

// dev aid: which patterns make the long stage slow (not used by any check)

import (
	"fmt"
	"os"
	"sort"
	"sync"
	"time"

	"github.com/coregx/coregex"
	"github.com/coregx/coregex/meta"

	"verif/harness/internal/core"
)

func runSlowScan(args []string) {
	f, err := os.Open(args[0])
	if err != nil {
		fatal(err)
	}
	defer f.Close()
	type row struct {
		pat, strat, hay string
		d               time.Duration
	}
	var mu sync.Mutex
	var rows []row
	core.ReadRecords(f, 16, func(rec *core.Record) {
		pat := rec.Re.Pattern()
		cg, err := coregex.Compile(pat)
		if err != nil {
			return
		}
		eng, _ := meta.Compile(pat)
		worst := row{pat: pat, strat: eng.Strategy().String()}
		for hi := range rec.Hs {
			h := rec.Hs[hi].H
			if len(h) != 2 {
				continue
			}
			vb := core.HayBytes(h)
			b := []byte{}
			for len(b) < 4200 {
				b = append(b, vb...)
			}
			t0 := time.Now()
			cg.Match(b)
			cg.FindIndex(b)
			if d := time.Since(t0); d > worst.d {
				worst.d, worst.hay = d, core.Hex(vb)
			}
		}
		mu.Lock()
		rows = append(rows, worst)
		mu.Unlock()
	})
	sort.Slice(rows, func(i, j int) bool { return rows[i].d > rows[j].d })
	for i := 0; i < 15 && i < len(rows); i++ {
		fmt.Println(rows[i].d, rows[i].strat, rows[i].pat, rows[i].hay)
	}
}
