package main

// C20: memory per Regex stays bounded; steady-state searches do not allocate.
//  dfatrace  (verif build): lazy DFAs with caches from tiny to default driven over a fixed pseudo-random corpus on ONE
//            reused cache; hook H-dfa events + MemoryUsage() probes are recorded for spec/Trace_DFACache.tla
//            (Insert only below capacity, clears within budget, usage <= capacity + one state).
//  poolseq   (verif build): single-goroutine histories; the recorded H-pool events go to spec/Trace_Pool.tla and at
//            most one state may ever be created (Pool!OneStateWhenSequential).
//  allocs    (built WITHOUT the verif tag, so that no instrumentation can allocate): testing.AllocsPerRun == 0 for the
//            calls documented as zero-allocation after a warm-up call; post-GC heap after k, 2k, 4k searches does not grow.

import (
	"bufio"
	"encoding/json"
	"flag"
	"fmt"
	"os"
	"regexp/syntax"
	"runtime"
	"testing"
	"time"
	"unsafe"

	"github.com/coregx/coregex"
	"github.com/coregx/coregex/dfa/lazy"
	"github.com/coregx/coregex/meta"
	"github.com/coregx/coregex/nfa"
	"github.com/coregx/coregex/verifhook"

	"verif/harness/internal/core"
)

type dfaEv struct {
	Ev        string `json:"ev"`
	C         int    `json:"c"`
	Usage     int    `json:"usage"`
	Cap       int    `json:"cap"`
	Clears    int    `json:"clears"`
	N         int    `json:"n"`
	MaxClears int    `json:"maxclears"`
	MaxState  int    `json:"maxstate"`
	Pat       string `json:"pat,omitempty"`
}

// a fixed corpus: xorshift with a constant seed (part of the fixed universe, not VERIF_SEED)
func corpus(n, maxLen int, alphabet string) [][]byte {
	x := uint64(0x9E3779B97F4A7C15)
	next := func() uint64 { x ^= x << 13; x ^= x >> 7; x ^= x << 17; return x }
	out := make([][]byte, n)
	for i := range out {
		l := int(next() % uint64(maxLen+1))
		b := make([]byte, l)
		for j := range b {
			b[j] = alphabet[next()%uint64(len(alphabet))]
		}
		out[i] = b
	}
	return out
}

var dfaPatterns = []string{`[ab]*a[ab]{3}c`, `(a|b)*abb`, `a[ab]{4}b`, `(ab|ba)+c`, `[ab]+c[ab]+`, `(a|b|c)*a(a|b|c)(a|b|c)`, `a.*b.*c`}

func runDfaTrace(args []string) {
	fs := flag.NewFlagSet("dfatrace", flag.ExitOnError)
	out := fs.String("out", "dfa.ndjson", "")
	report := fs.String("report", "report.json", "")
	fails := fs.String("fail", "fail.ndjson", "")
	nsearch := fs.Int("searches", 150, "")
	fs.Parse(args)
	if !verifhook.On {
		fatal(fmt.Errorf("harness built without -tags verif"))
	}
	of, err := os.Create(*out)
	if err != nil {
		fatal(err)
	}
	defer of.Close()
	w := bufio.NewWriterSize(of, 1<<20)
	defer w.Flush()
	rep, err := core.NewReport(*fails)
	if err != nil {
		fatal(err)
	}
	events := 0
	emit := func(e *dfaEv) {
		b, _ := json.Marshal(e)
		w.Write(b)
		w.WriteByte('\n')
		events++
	}
	ids := map[int]int{}
	small := func(p int) int {
		if v, ok := ids[p]; ok {
			return v
		}
		ids[p] = len(ids)%64 + 1
		return ids[p]
	}
	cur := 0 // only the cache under test is traced (the DFA's internal fallback PikeVM has none)
	verifhook.Install(func(kind string, a []int) {
		switch kind {
		case "dfa.insert":
			if small(a[0]) == cur {
				emit(&dfaEv{Ev: "insert", C: cur, Usage: a[1], Cap: a[2], Clears: a[3], N: a[4]})
			}
		case "dfa.full":
			if small(a[0]) == cur {
				emit(&dfaEv{Ev: "full", C: cur, Usage: a[1], Cap: a[2], Clears: a[3]})
			}
		case "dfa.clear":
			if small(a[0]) == cur {
				emit(&dfaEv{Ev: "clear", C: cur, Usage: a[1], Cap: a[2], Clears: a[3]})
			}
		}
	})
	defer verifhook.Install(nil)
	hays := corpus(*nsearch, 40, "abc")
	calls, cases := 0, 0
	caps := []int{300, 700, 2000, 6000, lazy.DefaultCacheCapacity}
	for _, pat := range dfaPatterns {
		re, _ := syntax.Parse(pat, syntax.Perl)
		n, cerr := nfa.NewDefaultCompiler().CompileRegexp(re)
		if cerr != nil {
			continue
		}
		for _, capBytes := range caps {
			for _, mc := range []int{0, 1, 5} {
				cfg := lazy.DefaultConfig()
				cfg.CacheCapacityBytes = capBytes
				cfg.MaxCacheClears = mc
				d, err := lazy.CompileWithConfig(n, cfg)
				if err != nil {
					continue
				}
				cache := d.NewCache()
				// the largest single state: one row of transitions, list + map entry, its NFA state set, acceleration bytes
				maxState := d.AlphabetLen()*4 + 8 + 48 + n.States()*4 + 8
				ids = map[int]int{}
				cur = 1
				ids[int(uintptr(unsafe.Pointer(cache)))] = 1
				emit(&dfaEv{Ev: "new", C: 1, Cap: capBytes, MaxClears: mc, MaxState: maxState, Pat: pat})
				cases++
				for _, h := range hays {
					func() {
						defer func() {
							if r := recover(); r != nil {
								rep.Fail(&core.Failure{Prop: "C20", API: "lazy.FindAt", Mode: "first", Pattern: pat, Hay: core.Hex(h),
									Cfg: fmt.Sprintf("cap=%d clears=%d", capBytes, mc), Want: "no panic", Got: fmt.Sprint(r), Scope: "lazy"})
							}
						}()
						d.FindAt(cache, h, 0)
						d.IsMatch(cache, h)
					}()
					calls += 2
					u := cache.MemoryUsage()
					emit(&dfaEv{Ev: "probe", C: 1, Usage: u})
					if u > capBytes+maxState {
						rep.Fail(&core.Failure{Prop: "C20", API: "DFACache.MemoryUsage", Mode: "first", Pattern: pat, Hay: core.Hex(h),
							Cfg: fmt.Sprintf("cap=%d clears=%d", capBytes, mc), Want: fmt.Sprintf("<= capacity %d + one state %d", capBytes, maxState),
							Got: fmt.Sprint(u), Scope: "lazy"})
					}
				}
			}
		}
	}
	// Independent of the cache's own accounting (MemoryUsage is what Insert consults, so an accounting slip is invisible in the
	// events above): the live heap a cache pins after it has been filled and cleared many times, measured by the runtime.
	// Bound: 2.5 x capacity + 96 KiB (map/slice growth slack); the unchanged tree stays below 1.75 x on these inputs.
	verifhook.Install(nil)
	heapHays := corpus(600, 400, "ababababc")
	heapMax := 0.0
	for _, hp := range []struct {
		pat string
		cap int
	}{{`[ab]*a(?:[ab]{1,30}c?){4}d`, 128 << 10}, {`[ab]*a[ab]{12}c`, 64 << 10}, {`(a|b)*a(a|b){10}c(a|b){3}`, 256 << 10}, {`[ab]*a(?:[ab]{1,20}c?){3}d`, 512 << 10}} {
		re, _ := syntax.Parse(hp.pat, syntax.Perl)
		n, cerr := nfa.NewDefaultCompiler().CompileRegexp(re)
		if cerr != nil {
			continue
		}
		cfg := lazy.DefaultConfig()
		cfg.CacheCapacityBytes = hp.cap
		cfg.MaxCacheClears = 1 << 20
		d, err := lazy.CompileWithConfig(n, cfg)
		if err != nil {
			continue
		}
		heap := func() uint64 {
			runtime.GC()
			runtime.GC()
			var m runtime.MemStats
			runtime.ReadMemStats(&m)
			return m.HeapAlloc
		}
		h0 := heap()
		cache := d.NewCache()
		peak := uint64(0)
		for i, h := range heapHays {
			func() {
				defer func() { recover() }()
				d.FindAt(cache, h, 0)
			}()
			calls++
			if i%40 == 39 {
				if h1 := heap(); h1 > h0 && h1-h0 > peak {
					peak = h1 - h0
				}
			}
		}
		runtime.KeepAlive(cache)
		ratio := float64(peak) / float64(hp.cap)
		if ratio > heapMax {
			heapMax = ratio
		}
		cases++
		if float64(peak) > 2.5*float64(hp.cap)+96*1024 {
			rep.Fail(&core.Failure{Prop: "C20", API: "DFACache heap", Mode: "first", Pattern: hp.pat, Hay: "", Cfg: fmt.Sprintf("cap=%d", hp.cap),
				Want: fmt.Sprintf("live heap pinned by one cache <= 2.5 x capacity + 96 KiB = %d", int(2.5*float64(hp.cap))+96*1024),
				Got:  fmt.Sprintf("%d bytes after filling / clearing (runtime.MemStats.HeapAlloc delta)", peak), Scope: "lazy"})
		}
	}
	rep.Extra["heap_over_capacity_max_ratio"] = heapMax
	w.Flush()
	rep.Add(len(dfaPatterns), cases, calls, cases, "")
	rep.Extra["events"] = events
	rep.Sample(map[string]any{"patterns": dfaPatterns, "capacities": caps, "max_clears": []int{0, 1, 5}, "searches_per_cache": 2 * len(hays)})
	if err := rep.Close(*report); err != nil {
		fatal(err)
	}
}

func runPoolSeq(args []string) {
	fs := flag.NewFlagSet("poolseq", flag.ExitOnError)
	out := fs.String("out", "poolseq.ndjson", "")
	report := fs.String("report", "report.json", "")
	fails := fs.String("fail", "fail.ndjson", "")
	fs.Parse(args)
	if !verifhook.On {
		fatal(fmt.Errorf("harness built without -tags verif"))
	}
	of, err := os.Create(*out)
	if err != nil {
		fatal(err)
	}
	defer of.Close()
	w := bufio.NewWriterSize(of, 1<<20)
	defer w.Flush()
	rep, err := core.NewReport(*fails)
	if err != nil {
		fatal(err)
	}
	events, calls := 0, 0
	emit := func(e *poolEv) {
		b, _ := json.Marshal(e)
		w.Write(b)
		w.WriteByte('\n')
		events++
	}
	for _, cc := range concCases {
		re, cerr := coregex.Compile(cc.pat)
		if cerr != nil {
			continue
		}
		ids := map[int]int{}
		small := func(p int) int {
			if p == 0 {
				return 0
			}
			if v, ok := ids[p]; ok {
				return v
			}
			ids[p] = len(ids) + 1
			return ids[p]
		}
		news, lateNews, late := 0, 0, false
		emit(&poolEv{Ev: "begin", N: 1, Pat: cc.pat})
		verifhook.Install(func(kind string, a []int) {
			switch kind {
			case "pool.swap":
				emit(&poolEv{Ev: "swap", G: 1, S: small(a[0])})
			case "pool.new":
				news++
				if late {
					lateNews++
				}
				emit(&poolEv{Ev: "new", G: 1, S: small(a[0])})
			case "pool.get":
				emit(&poolEv{Ev: "get", G: 1, S: small(a[0])})
			case "pool.cas":
				emit(&poolEv{Ev: "cas", G: 1, S: small(a[0]), OK: a[1]})
			case "pool.put":
				emit(&poolEv{Ev: "put", G: 1, S: small(a[0])})
			}
		})
		for it := 0; it < 60; it++ {
			for ai, api := range concAPIs {
				api(re, cc.hays[(it+ai)%len(cc.hays)])
				emit(&poolEv{Ev: "end", G: 1})
				calls++
			}
			if it == 30 {
				runtime.GC()
				runtime.GC()
				emit(&poolEv{Ev: "gc"})
			}
			if it == 40 {
				late = true // warm again after the collection: from here on nothing may be created
			}
		}
		verifhook.Install(nil)
		// A call built on another call holds two states at once, so a few states may exist per goroutine (and a
		// collection may drop the pooled one); what must not happen is creation in the steady state.
		if lateNews > 0 || news > 4 {
			rep.Fail(&core.Failure{Prop: "C20", API: "searchStatePool.New", Mode: "first", Pattern: cc.pat, Hay: "", Scope: "pool",
				Want: "no search state is created in the steady state of a single goroutine (and at most 4 ever)",
				Got:  fmt.Sprintf("%d states created, %d of them after warm-up", news, lateNews)})
		}
	}
	w.Flush()
	rep.Add(len(concCases), len(concCases), calls, len(concCases), "")
	rep.Extra["events"] = events
	rep.Sample(map[string]any{"patterns": len(concCases), "calls_per_pattern": 360})
	if err := rep.Close(*report); err != nil {
		fatal(err)
	}
}

func runAllocs(args []string) {
	fs := flag.NewFlagSet("allocs", flag.ExitOnError)
	report := fs.String("report", "report.json", "")
	fails := fs.String("fail", "fail.ndjson", "")
	in := fs.String("in", "", "optional TLC output (MC_Search): patterns and haystacks of the universe")
	maxPat := fs.Int("maxpat", 200, "")
	fs.Parse(args)
	if verifhook.On {
		fatal(fmt.Errorf("allocs must be built WITHOUT -tags verif"))
	}
	rep, err := core.NewReport(*fails)
	if err != nil {
		fatal(err)
	}
	type tc struct {
		pat  string
		hays [][]byte
	}
	var tcs []tc
	for _, cc := range concCases {
		t := tc{pat: cc.pat}
		for _, h := range cc.hays {
			t.hays = append(t.hays, []byte(h))
			long := []byte{}
			for len(long) < 5000 {
				long = append(long, h...)
				long = append(long, ' ')
			}
			t.hays = append(t.hays, long)
		}
		tcs = append(tcs, t)
	}
	if *in != "" {
		f, err := os.Open(*in)
		if err != nil {
			fatal(err)
		}
		n := 0
		core.ReadRecords(f, 1, func(rec *core.Record) {
			if n >= *maxPat || len(rec.Hs) == 0 {
				return
			}
			n++
			t := tc{pat: rec.Re.Pattern()}
			for _, hi := range []int{len(rec.Hs) - 1, len(rec.Hs) / 2} {
				b := core.HayBytes(rec.Hs[hi].H)
				t.hays = append(t.hays, b)
				var long []byte
				for len(long) < 600 {
					long = append(long, b...)
					long = append(long, 'x')
				}
				t.hays = append(t.hays, long)
			}
			tcs = append(tcs, t)
		})
		f.Close()
	}
	calls, cases := 0, 0
	for _, t := range tcs {
		re, cerr := coregex.Compile(t.pat)
		if cerr != nil {
			continue
		}
		eng, _ := meta.Compile(t.pat)
		strat := eng.Strategy().String()
		for _, h := range t.hays {
			s := string(h)
			buf := make([][2]int, 0, len(h)+2)
			apis := []struct {
				name string
				fn   func()
			}{
				{"Match", func() { re.Match(h) }},
				{"MatchString", func() { re.MatchString(s) }},
				{"Engine.IsMatch", func() { eng.IsMatch(h) }},
				{"Engine.FindIndices", func() { eng.FindIndices(h) }},
				{"Count", func() { re.Count(h, -1) }},
				{"AllIndex", func() {
					for range re.AllIndex(h) {
					}
				}},
				{"AppendAllIndex", func() { buf = re.AppendAllIndex(buf[:0], h, -1) }},
			}
			cases++
			slow := false
			for _, a := range apis {
				if slow {
					break
				}
				var got float64
				func() {
					defer func() {
						if r := recover(); r != nil {
							got = -1
						}
					}()
					t0 := time.Now()
					a.fn() // warm-up
					a.fn()
					runs := 10
					if time.Since(t0) > 4*time.Millisecond {
						runs = 1 // a slow search (C05's business) must not stall the allocation measurement
						slow = true
					}
					got = testing.AllocsPerRun(runs, a.fn)
				}()
				calls += 12
				if got > 0 {
					rep.Fail(&core.Failure{Prop: "C20", API: a.name, Mode: "allocs", Pattern: t.pat, Hay: core.Hex(h[:min(len(h), 64)]),
						Args: fmt.Sprintf("len=%d", len(h)), Want: "0 allocs/op after warm-up", Got: fmt.Sprintf("%.1f allocs/op", got), Strat: strat, Scope: "alloc"})
				}
			}
		}
		// heap held per Regex is independent of the number of searches
		heap := func() uint64 {
			runtime.GC()
			var m runtime.MemStats
			runtime.ReadMemStats(&m)
			return m.HeapAlloc
		}
		run := func(k int) {
			for i := 0; i < k; i++ {
				h := t.hays[i%len(t.hays)]
				re.Match(h)
				re.FindIndex(h)
				re.Count(h, 3)
			}
		}
		t1 := time.Now()
		run(20)
		if time.Since(t1) > 100*time.Millisecond {
			continue // too slow for the heap series (counted in C05)
		}
		run(200)
		h1 := heap()
		run(400)
		h2 := heap()
		run(800)
		h3 := heap()
		calls += 1400 * 3
		if h3 > h2+64<<10 && h2 > h1+64<<10 {
			rep.Fail(&core.Failure{Prop: "C20", API: "heap-growth", Mode: "allocs", Pattern: t.pat, Hay: "", Scope: "alloc",
				Want: "post-GC heap independent of the number of searches", Got: fmt.Sprintf("heap after 200/600/1400 rounds: %d %d %d", h1, h2, h3), Strat: strat})
		}
		if cases%40 == 1 {
			rep.Sample(map[string]any{"pattern": t.pat, "strategy": strat, "haystack_lengths": func() []int {
				var l []int
				for _, h := range t.hays {
					l = append(l, len(h))
				}
				return l
			}()})
		}
	}
	rep.Add(len(tcs), cases, calls, cases, "")
	if err := rep.Close(*report); err != nil {
		fatal(err)
	}
}
