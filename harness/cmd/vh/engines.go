package main

// C14: every exposed matching engine, driven directly on TLC-generated (pattern, haystack,
// start offset) records (MC_Search with WithAt): PikeVM through all entry points, bounded
// backtracker, lazy DFA (forward, anchored, earliest, reverse) under several cache
// configurations, one-pass DFA.  The reference quantities come from the specification:
//   atf[at] / atl[at]  leftmost-first / leftmost-longest match (slots) searching from `at`
//   anc[at]            leftmost-first match that starts exactly at `at`
//   ends[p]            all e such that the pattern matches h[p:e] in context
// "Declined" (constructor error, !CanHandle) is always acceptable; a wrong answer is not.

import (
	"flag"
	"fmt"
	"os"
	"regexp"
	"regexp/syntax"
	"runtime"

	"github.com/coregx/coregex/dfa/lazy"
	"github.com/coregx/coregex/dfa/onepass"
	"github.com/coregx/coregex/nfa"

	"verif/harness/internal/core"
)

type lazyCfg struct {
	name string
	cfg  lazy.Config
}

func lazyConfigs() []lazyCfg {
	def := lazy.DefaultConfig()
	mk := func(name string, f func(c *lazy.Config)) lazyCfg {
		c := def
		f(&c)
		return lazyCfg{name, c}
	}
	return []lazyCfg{
		{"default", def},
		mk("cap300-clr0", func(c *lazy.Config) { c.CacheCapacityBytes = 300; c.MaxCacheClears = 0 }),
		mk("cap700-clr1", func(c *lazy.Config) { c.CacheCapacityBytes = 700; c.MaxCacheClears = 1 }),
		mk("cap2000-clr5", func(c *lazy.Config) { c.CacheCapacityBytes = 2000; c.MaxCacheClears = 5 }),
		mk("detlim2", func(c *lazy.Config) { c.DeterminizationLimit = 2 }),
		mk("nopf", func(c *lazy.Config) { c.UsePrefilter = false }),
	}
}

func spanOf(v []int) (int, int, bool) {
	if len(v) < 2 {
		return -1, -1, false
	}
	return v[0], v[1], true
}

func runEngines(args []string) {
	fs := flag.NewFlagSet("engines", flag.ExitOnError)
	in := fs.String("in", "", "TLC output file (MC_Search, WithAt)")
	_ = fs.String("props", "C14", "")
	report := fs.String("report", "report.json", "")
	fails := fs.String("fail", "fail.ndjson", "")
	fs.Parse(args)
	f, err := os.Open(*in)
	if err != nil {
		fatal(err)
	}
	defer f.Close()
	rep, err := core.NewReport(*fails)
	if err != nil {
		fatal(err)
	}
	cfgs := lazyConfigs()
	_, err = core.ReadRecords(f, runtime.NumCPU(), func(rec *core.Record) {
		pat := rec.Re.Pattern()
		std, err := regexp.Compile(pat)
		if err != nil {
			rep.Gap("regexp rejects " + pat)
			return
		}
		stdL := regexp.MustCompile(pat)
		stdL.Longest()
		re, _ := syntax.Parse(pat, syntax.Perl)
		comp := nfa.NewDefaultCompiler()
		n, cerr := comp.CompileRegexp(re)
		if cerr != nil {
			rep.API("declined:compile", 1)
			return
		}
		calls, cases, nontriv := 0, 0, 0
		var hx string
		fail := func(api, mode, args, want, got string) {
			rep.Fail(&core.Failure{Prop: "C14", API: api, Mode: mode, Pattern: pat, Hay: hx, Args: args, Want: want, Got: got, Fam: rec.Fam})
		}
		guard := func(api, mode, args string, fn func()) {
			defer func() {
				if r := recover(); r != nil {
					fail(api, mode, args, "no panic", fmt.Sprintf("panic: %v", r))
				}
			}()
			calls++
			fn()
		}
		// engines (one value per pattern, reused over all haystacks as the library does)
		pv := nfa.NewPikeVM(n)
		pvL := nfa.NewPikeVM(n)
		pvL.SetLongest(true)
		bt := nfa.NewBoundedBacktracker(n)
		btState := nfa.NewBacktrackerState()
		btL := nfa.NewBoundedBacktracker(n)
		btL.SetLongest(true)
		btLState := nfa.NewBacktrackerState()
		type ld struct {
			name  string
			d     *lazy.DFA
			cache *lazy.DFACache
			rd    *lazy.DFA
			rc    *lazy.DFACache
		}
		var lds []ld
		for _, c := range cfgs {
			d, err := lazy.CompileWithConfig(n, c.cfg)
			if err != nil {
				rep.API("declined:lazy:"+c.name, 1)
				continue
			}
			x := ld{name: c.name, d: d, cache: d.NewCache()}
			rc := c.cfg
			rc.BreakAtMatch = false
			if rd, err := lazy.CompileWithConfig(nfa.ReverseAnchored(n), rc); err == nil {
				x.rd, x.rc = rd, rd.NewCache()
			}
			lds = append(lds, x)
		}
		var op *onepass.DFA
		var opCache *onepass.Cache
		if rec.NC >= 1 {
			ac := nfa.NewCompiler(nfa.CompilerConfig{UTF8: true, Anchored: true, MaxRecursionDepth: 100})
			if an, err := ac.CompileRegexp(re); err == nil {
				if d, err := onepass.Build(an); err == nil {
					op, opCache = d, onepass.NewCache(d.NumCaptures())
				} else {
					rep.API("declined:onepass", 1)
				}
			}
		}
		for hi := range rec.Hs {
			h := &rec.Hs[hi]
			if h.AtF == nil {
				continue
			}
			b := core.HayBytes(h.H)
			hx = core.Hex(b)
			offs := core.Offsets(h.H)
			cases++
			// three-way on the whole-haystack value
			if !eqAll(std.FindAllSubmatchIndex(b, -1), h.AF) || !eqAll(stdL.FindAllSubmatchIndex(b, -1), h.AL) {
				rep.Gap(fmt.Sprintf("%s on %x", pat, b))
				continue
			}
			if len(h.AF) > 0 && len(b) > 0 {
				nontriv++
			}
			for pi, at := range offs {
				wf, wl := h.AtF[pi], h.AtL[pi]
				args := fmt.Sprintf("at=%d", at)
				ws, we, wok := spanOf(wf)
				ls, le, lok := spanOf(wl)
				span := func(api, mode string, s, e int, ok bool, xs, xe int, xok bool) {
					if ok != xok || (ok && (s != xs || e != xe)) {
						fail(api, mode, args, fmt.Sprintf("[%d %d %v]", xs, xe, xok), fmt.Sprintf("[%d %d %v]", s, e, ok))
					}
				}
				caps := func(api, mode string, m *nfa.MatchWithCaptures, want []int) {
					if (m == nil) != (len(want) == 0) {
						fail(api, mode, args, core.IntsStr(want), fmt.Sprintf("nil=%v", m == nil))
						return
					}
					if m == nil {
						return
					}
					var got []int
					for _, c := range m.Captures {
						if c == nil {
							got = append(got, -1, -1)
						} else {
							got = append(got, c[0], c[1])
						}
					}
					if !eqInts(got, want) || m.Start != want[0] || m.End != want[1] {
						fail(api, mode, args, core.IntsStr(want), fmt.Sprintf("%v (Start=%d End=%d)", got, m.Start, m.End))
					}
				}
				// ---- PikeVM
				guard("PikeVM.SearchAt", "first", args, func() {
					s, e, ok := pv.SearchAt(b, at)
					span("PikeVM.SearchAt", "first", s, e, ok, ws, we, wok)
				})
				guard("PikeVM.SearchAt", "longest", args, func() {
					s, e, ok := pvL.SearchAt(b, at)
					span("PikeVM.SearchAt", "longest", s, e, ok, ls, le, lok)
				})
				guard("PikeVM.SearchWithSlotTableAt", "first", args, func() {
					s, e, ok := pv.SearchWithSlotTableAt(b, at, nfa.SearchModeFind)
					span("PikeVM.SearchWithSlotTableAt", "first", s, e, ok, ws, we, wok)
				})
				guard("PikeVM.SearchWithSlotTableAt(IsMatch)", "first", args, func() {
					_, _, ok := pv.SearchWithSlotTableAt(b, at, nfa.SearchModeIsMatch)
					if ok != wok {
						fail("PikeVM.SearchWithSlotTableAt(IsMatch)", "first", args, fmt.Sprint(wok), fmt.Sprint(ok))
					}
				})
				guard("PikeVM.SearchWithCapturesAt", "first", args, func() {
					caps("PikeVM.SearchWithCapturesAt", "first", pv.SearchWithCapturesAt(b, at), wf)
				})
				guard("PikeVM.SearchWithSlotTableCapturesAt", "first", args, func() {
					caps("PikeVM.SearchWithSlotTableCapturesAt", "first", pv.SearchWithSlotTableCapturesAt(b, at), wf)
				})
				guard("PikeVM.SearchWithCapturesAt", "longest", args, func() {
					caps("PikeVM.SearchWithCapturesAt", "longest", pvL.SearchWithCapturesAt(b, at), wl)
				})
				if at < len(b) { // an empty range is declined by contract
					guard("PikeVM.SearchBetween", "first", args, func() {
						s, e, ok := pv.SearchBetween(b, at, len(b))
						span("PikeVM.SearchBetween", "first", s, e, ok, ws, we, wok)
					})
				}
				if wok {
					guard("PikeVM.SearchWithCapturesInSpan", "first", args, func() {
						caps("PikeVM.SearchWithCapturesInSpan", "first", pv.SearchWithCapturesInSpan(b, ws, we), wf)
					})
				}
				if at == 0 {
					guard("PikeVM.IsMatch", "first", args, func() {
						if got := pv.IsMatch(b); got != wok {
							fail("PikeVM.IsMatch", "first", args, fmt.Sprint(wok), fmt.Sprint(got))
						}
					})
					guard("PikeVM.Search", "first", args, func() {
						s, e, ok := pv.Search(b)
						span("PikeVM.Search", "first", s, e, ok, ws, we, wok)
					})
				}
				// ---- bounded backtracker
				if bt.CanHandle(len(b)) {
					guard("Backtracker.SearchAtWithState", "first", args, func() {
						s, e, ok := bt.SearchAtWithState(b, at, btState)
						span("Backtracker.SearchAtWithState", "first", s, e, ok, ws, we, wok)
					})
					guard("Backtracker.SearchAtWithState", "longest", args, func() {
						s, e, ok := btL.SearchAtWithState(b, at, btLState)
						span("Backtracker.SearchAtWithState", "longest", s, e, ok, ls, le, lok)
					})
					if at == 0 {
						guard("Backtracker.IsMatchWithState", "first", args, func() {
							if got := bt.IsMatchWithState(b, btState); got != wok {
								fail("Backtracker.IsMatchWithState", "first", args, fmt.Sprint(wok), fmt.Sprint(got))
							}
						})
					}
				} else {
					rep.API("declined:backtracker", 1)
				}
				// ---- lazy DFA
				wantEnd := -1
				if wok {
					wantEnd = we
				}
				// earliest-match mode: the first offset at which some match (from any start >= at) ends
				wantEarliest := -1
				for p := pi; p < len(h.Ends); p++ {
					for _, e := range h.Ends[p] {
						if wantEarliest < 0 || e < wantEarliest {
							wantEarliest = e
						}
					}
				}
				wantAnc := -1
				if len(h.Anc) > pi && len(h.Anc[pi]) >= 2 {
					wantAnc = h.Anc[pi][1]
				}
				for _, x := range lds {
					end := func(api string, fn func() int, want int) {
						guard(api, "first", args+" cfg="+x.name, func() {
							if got := fn(); got != want {
								fail(api, "first", args+" cfg="+x.name, fmt.Sprint(want), fmt.Sprint(got))
							}
						})
					}
					end("lazy.FindAt", func() int { return x.d.FindAt(x.cache, b, at) }, wantEnd)
					end("lazy.SearchAt", func() int { return x.d.SearchAt(x.cache, b, at) }, wantEnd)
					// earliest-match mode; after an NFA fallback the leftmost-first end is reported instead:
					// both are reference answers for "the end of the first match"
					guard("lazy.SearchFirstAt", "first", args+" cfg="+x.name, func() {
						if got := x.d.SearchFirstAt(x.cache, b, at); got != wantEarliest && got != wantEnd {
							fail("lazy.SearchFirstAt", "first", args+" cfg="+x.name, fmt.Sprintf("%d or %d", wantEarliest, wantEnd), fmt.Sprint(got))
						}
					})
					end("lazy.SearchAtAnchored", func() int { return x.d.SearchAtAnchored(x.cache, b, at) }, wantAnc)
					guard("lazy.IsMatchAt", "first", args+" cfg="+x.name, func() {
						if got := x.d.IsMatchAt(x.cache, b, at); got != wok {
							fail("lazy.IsMatchAt", "first", args+" cfg="+x.name, fmt.Sprint(wok), fmt.Sprint(got))
						}
					})
					// reverse DFA: for the end position `at`, the least start p with at in ends[p]
					if x.rd != nil && at > 0 {
						wantStart := -1
						for p := 0; p < len(h.Ends) && offs[p] <= at; p++ {
							for _, e := range h.Ends[p] {
								if e == at {
									wantStart = offs[p]
									break
								}
							}
							if wantStart >= 0 {
								break
							}
						}
						guard("lazy.SearchReverse", "first", args+" cfg="+x.name, func() {
							if got := x.rd.SearchReverse(x.rc, b, 0, at); got != wantStart {
								fail("lazy.SearchReverse", "first", args+" cfg="+x.name, fmt.Sprint(wantStart), fmt.Sprint(got))
							}
						})
						guard("lazy.IsMatchReverse", "first", args+" cfg="+x.name, func() {
							if got := x.rd.IsMatchReverse(x.rc, b, 0, at); got != (wantStart >= 0) {
								fail("lazy.IsMatchReverse", "first", args+" cfg="+x.name, fmt.Sprint(wantStart >= 0), fmt.Sprint(got))
							}
						})
					}
				}
				// ---- one-pass DFA (anchored at 0)
				if op != nil && at == 0 {
					guard("onepass.Search", "first", args, func() {
						got := op.Search(b, opCache)
						want := h.Anc[0]
						// nil = declined (the meta engine then falls back); a reported match must be the reference's
						if got != nil && !eqInts(got, want) {
							fail("onepass.Search", "first", args, core.IntsStr(want), core.IntsStr(got))
						}
					})
				}
			}
		}
		rep.Add(1, cases, calls, nontriv, "")
		if rec.I%61 == 1 && len(rec.Hs) > 0 {
			h := rec.Hs[len(rec.Hs)-1]
			rep.Sample(map[string]any{"pattern": pat, "haystack_hex": core.Hex(core.HayBytes(h.H)), "atf": h.AtF, "anc": h.Anc, "ends": h.Ends})
		}
	})
	if err != nil {
		rep.Machinery(err.Error())
	}
	if err2 := rep.Close(*report); err2 != nil {
		fatal(err2)
	}
	if err != nil {
		fatal(err)
	}
}
