package main

// Long inputs for C01 / C02 / C03 / C10: pumped members u.v^k.w of the TLC-enumerated universe (haystack lengths that
// cross the library's internal thresholds: 16/32/64-byte vector blocks, the 100-byte window of the adaptive
// strategy, the 4 KiB ASCII window) are searched with the real library and the (haystack symbols, returned slots)
// recorded for spec/Trace_Pike.tla, where TLC runs the specification's own Pike simulation over the symbols: the
// specification is the oracle at any input length.  `pikeconfirm` takes the mismatches TLC reports and confirms each
// against package regexp before it counts.

import (
	"bufio"
	"encoding/json"
	"flag"
	"fmt"
	"os"
	"regexp"

	"github.com/coregx/coregex"

	"verif/harness/internal/core"
)

type pikeEv struct {
	Ev      string          `json:"ev"`
	Re      json.RawMessage `json:"re,omitempty"`
	NC      int             `json:"nc"`
	Longest bool            `json:"longest"`
	At      int             `json:"at"`
	C       int             `json:"c"`
	Res     []int           `json:"res"`
	Pat     string          `json:"pat,omitempty"`
	Hay     string          `json:"hay,omitempty"` // u|v|w|k (symbol ids) - enough to rebuild the haystack
	API     string          `json:"api,omitempty"`
}

type pikeCase struct {
	Pat     string `json:"pat"`
	Longest bool   `json:"longest"`
	U, V, W []int
	K       int
	Got     []int `json:"got"`
}

func pumpSyms(u, v, w []int, k int) []int {
	h := append([]int{}, u...)
	for i := 0; i < k; i++ {
		h = append(h, v...)
	}
	return append(h, w...)
}

// byte offsets -> symbol positions (1-based), 0 for -1; -1 when the offset is not a symbol boundary
func toSymPos(slots []int, offs []int) []int {
	if slots == nil {
		return []int{}
	}
	idx := map[int]int{}
	for p, o := range offs {
		idx[o] = p + 1
	}
	out := make([]int, len(slots))
	for i, s := range slots {
		if s < 0 {
			out[i] = 0
		} else if p, ok := idx[s]; ok {
			out[i] = p
		} else {
			return []int{-1}
		}
	}
	return out
}

func runPikeTrace(args []string) {
	fs := flag.NewFlagSet("piketrace", flag.ExitOnError)
	in := fs.String("in", "", "TLC output (MC_Search)")
	out := fs.String("out", "pike.ndjson", "")
	casesOut := fs.String("cases", "pike_cases.ndjson", "one line per recorded search (for pikeconfirm)")
	report := fs.String("report", "report.json", "")
	maxPat := fs.Int("maxpat", 60, "")
	maxSyms := fs.Int("maxsyms", 1200, "longest pumped haystack, in symbols")
	fs.Parse(args)
	core.KeepRaw = true
	f, err := os.Open(*in)
	if err != nil {
		fatal(err)
	}
	defer f.Close()
	of, err := os.Create(*out)
	if err != nil {
		fatal(err)
	}
	defer of.Close()
	w := bufio.NewWriterSize(of, 1<<20)
	defer w.Flush()
	cf, err := os.Create(*casesOut)
	if err != nil {
		fatal(err)
	}
	defer cf.Close()
	cw := bufio.NewWriter(cf)
	defer cw.Flush()
	emit := func(e *pikeEv) {
		if e.Ev == "sym" {
			fmt.Fprintf(w, "{\"ev\":\"sym\",\"c\":%d}\n", e.C)
			return
		}
		if e.Res == nil {
			e.Res = []int{}
		}
		b, _ := json.Marshal(e)
		w.Write(b)
		w.WriteByte('\n')
	}
	events, traces, npat := 0, 0, 0
	var samples []any
	lengths := []int{40, 130, 600}
	if *maxSyms >= 4200 {
		lengths = append(lengths, 4200)
	}
	_, err = core.ReadRecords(f, 1, func(rec *core.Record) {
		if npat >= *maxPat || len(rec.Hs) == 0 {
			return
		}
		pat := rec.Re.Pattern()
		re, cerr := coregex.Compile(pat)
		if cerr != nil {
			return
		}
		reL, _ := coregex.Compile(pat)
		reL.Longest()
		npat++
		// the pumped families: the record's haystacks of exactly 2 symbols (content-defined, the same in every tier),
		// pumped by their first symbol, the match-relevant part kept at the END (so that a wrong window start loses it)
		picked := 0
		for hi := range rec.Hs {
			h := rec.Hs[hi].H
			if len(h) != 2 || picked >= 3 {
				continue
			}
			if (rec.I+h[0]*7+h[1])%3 != 0 { // a content-defined third of them
				continue
			}
			picked++
			for li, n := range lengths {
				if n > *maxSyms {
					continue
				}
				// four pumping shapes: first symbol pumped / second symbol pumped / the whole pair pumped / pair pumped with the pair as tail
				var u, v, wv []int
				switch (li + picked) % 4 {
				case 0:
					u, v, wv = []int{}, h[:1], h[1:]
				case 1:
					u, v, wv = h[:1], h[1:], []int{}
				case 2:
					u, v, wv = []int{}, h, []int{}
				default:
					u, v, wv = h[1:], []int{h[1], h[0]}, h
				}
				k := n / len(v)
				syms := pumpSyms(u, v, wv, k)
				b := core.HayBytes(syms)
				offs := core.Offsets(syms)
				for _, longest := range []bool{false, true} {
					r := re
					if longest {
						r = reL
					}
					var got []int
					func() {
						defer func() {
							if p := recover(); p != nil {
								got = []int{-1}
							}
						}()
						got = toSymPos(r.FindSubmatchIndex(b), offs)
					}()
					emit(&pikeEv{Ev: "begin", Re: rec.ReRaw, NC: rec.NC, Longest: longest, At: 1, Pat: pat})
					for _, c := range syms {
						emit(&pikeEv{Ev: "sym", C: c})
					}
					emit(&pikeEv{Ev: "end", Res: got})
					events += len(syms) + 2
					traces++
					cb, _ := json.Marshal(pikeCase{Pat: pat, Longest: longest, U: u, V: v, W: wv, K: k, Got: got})
					cw.Write(cb)
					cw.WriteByte('\n')
				}
				if len(samples) < 4 {
					samples = append(samples, map[string]any{"pattern": pat, "u": u, "v": v, "w": wv, "k": k, "bytes": len(b)})
				}
			}
		}
	})
	if err != nil {
		fatal(err)
	}
	w.Flush()
	cw.Flush()
	rep := map[string]any{"events": events, "traces": traces, "patterns": npat, "samples": samples}
	bb, _ := json.MarshalIndent(rep, "", " ")
	os.WriteFile(*report, bb, 0o644)
}

// pikeconfirm: TLC's mismatch lines + the cases file -> failures, each confirmed against regexp first.
func runPikeConfirm(args []string) {
	fs := flag.NewFlagSet("pikeconfirm", flag.ExitOnError)
	tlcOut := fs.String("tlc", "", "TLC output of Trace_Pike")
	casesIn := fs.String("cases", "", "")
	prop := fs.String("prop", "C02", "")
	symsFrom := fs.String("syms", "", "an MC_Search output (for the symbol table header)")
	report := fs.String("report", "report.json", "")
	fails := fs.String("fail", "fail.ndjson", "")
	fs.Parse(args)
	if sf, err := os.Open(*symsFrom); err == nil {
		core.ReadRecords(sf, 1, func(*core.Record) {})
		sf.Close()
	}
	if core.Syms == nil {
		fatal(fmt.Errorf("no symbol table (-syms)"))
	}
	rep, err := core.NewReport(*fails)
	if err != nil {
		fatal(err)
	}
	var cases []pikeCase
	cf, err := os.Open(*casesIn)
	if err != nil {
		fatal(err)
	}
	sc := bufio.NewScanner(cf)
	sc.Buffer(make([]byte, 1<<20), 1<<26)
	for sc.Scan() {
		var c pikeCase
		if json.Unmarshal(sc.Bytes(), &c) == nil {
			cases = append(cases, c)
		}
	}
	cf.Close()
	// the symbol table comes with any MC_Search output; pikeconfirm gets it from the cases' first use: require core.Syms
	type viol struct {
		Viol string `json:"viol"`
		Tr   int    `json:"tr"`
		Want []int  `json:"want"`
	}
	n := 0
	err = readQuoted(*tlcOut, func(s string) {
		var v viol
		if json.Unmarshal([]byte(s), &v) != nil || v.Viol != "search" || v.Tr < 1 || v.Tr > len(cases) {
			return
		}
		c := cases[v.Tr-1]
		syms := pumpSyms(c.U, c.V, c.W, c.K)
		b := core.HayBytes(syms)
		offs := core.Offsets(syms)
		std := regexp.MustCompile(c.Pat)
		if c.Longest {
			std.Longest()
		}
		stdRes := toSymPos(std.FindSubmatchIndex(b), offs)
		mode := "first"
		if c.Longest {
			mode = "longest"
		}
		if !eqInts(stdRes, v.Want) {
			rep.Gap(fmt.Sprintf("Trace_Pike %s [%s] u=%v v=%v k=%d w=%v: spec %v regexp %v", c.Pat, mode, c.U, c.V, c.K, c.W, v.Want, stdRes))
			return
		}
		n++
		rep.Fail(&core.Failure{Prop: *prop, API: "FindSubmatchIndex(long)", Mode: mode, Pattern: c.Pat,
			Hay:  fmt.Sprintf("%s|%s*%d|%s", core.Hex(core.HayBytes(c.U)), core.Hex(core.HayBytes(c.V)), c.K, core.Hex(core.HayBytes(c.W))),
			Want: fmt.Sprintf("%v (symbol positions, by Trace_Pike and regexp)", v.Want), Got: fmt.Sprint(c.Got), Scope: "long"})
	})
	if err != nil {
		fatal(err)
	}
	rep.Add(0, len(cases), len(cases), len(cases), "")
	rep.Extra["mismatches_confirmed"] = n
	if err := rep.Close(*report); err != nil {
		fatal(err)
	}
}
