package main

// Replay of the RegexObject state graph (spec/RegexObject.tla): every transition <<pre, action, post>>
// printed by TLC becomes one test of real values: build pre, perform the action, probe every live
// value on every haystack against Expected(post).  stdlib values are driven in lock-step (three-way).
// Failures are attributed by action: Longest/Copy -> C10 (mode belongs to one value),
// Use -> C13 (calls change nothing), Compile/CompilePOSIX/Marshal -> C09.

import (
	"bufio"
	"encoding/json"
	"flag"
	"fmt"
	"os"
	"regexp"
	"runtime"
	"strconv"
	"strings"
	"sync"

	"github.com/coregx/coregex"

	"verif/harness/internal/core"
)

type objVal struct {
	Pat     int  `json:"pat"`
	Longest bool `json:"longest"`
	Posix   bool `json:"posix"`
}

type objTrans struct {
	Pre []objVal `json:"pre"`
	Act struct {
		Op string `json:"op"`
		V  int    `json:"v"`
		W  int    `json:"w"`
		P  int    `json:"p"`
	} `json:"act"`
	Post   []objVal          `json:"post"`
	Probes []json.RawMessage `json:"probes"`
}

type objHeader struct {
	Sym   []core.Symbol `json:"sym"`
	Pats  []*core.AST   `json:"pats"`
	Hays  [][]int       `json:"hays"`
	Posix []int         `json:"posix"`
}

func runObject(args []string) {
	fs := flag.NewFlagSet("object", flag.ExitOnError)
	in := fs.String("in", "", "TLC output (RegexObject)")
	props := fs.String("props", "", "the property whose check runs this replay (Copy carries the syntax a value was compiled with: under C09 a Copy failure is C09's)")
	report := fs.String("report", "report.json", "")
	fails := fs.String("fail", "fail.ndjson", "")
	fs.Parse(args)
	f, err := os.Open(*in)
	if err != nil {
		fatal(err)
	}
	defer f.Close()
	rep, err := core.NewReport(*fails)
	if err != nil {
		fatal(err)
	}
	var hdr *objHeader
	var trans []objTrans
	sc := bufio.NewScanner(f)
	sc.Buffer(make([]byte, 1<<20), 1<<26)
	for sc.Scan() {
		line := sc.Text()
		if !strings.HasPrefix(line, `"`) {
			continue
		}
		s, err := strconv.Unquote(line)
		if err != nil {
			fatal(err)
		}
		if strings.HasPrefix(s, `{"sym"`) || strings.Contains(s[:min(len(s), 40)], `"sym"`) || (hdr == nil && strings.Contains(s, `"pats"`)) {
			if hdr == nil {
				hdr = new(objHeader)
				if err := json.Unmarshal([]byte(s), hdr); err != nil {
					fatal(err)
				}
				core.Syms = hdr.Sym
			}
			continue
		}
		var t objTrans
		if err := json.Unmarshal([]byte(s), &t); err != nil {
			fatal(fmt.Errorf("%v: %.100s", err, s))
		}
		trans = append(trans, t)
	}
	if hdr == nil {
		fatal(fmt.Errorf("no header"))
	}
	pats := make([]string, len(hdr.Pats))
	posix := make([]string, len(hdr.Pats))
	for i, a := range hdr.Pats {
		pats[i] = a.Pattern()
		if pp, ok := a.PatternPOSIX(); ok {
			posix[i] = pp
		}
	}
	hays := make([][]byte, len(hdr.Hays))
	for i, h := range hdr.Hays {
		hays[i] = core.HayBytes(h)
	}
	propOf := map[string]string{"Compile": "C09", "CompilePOSIX": "C09", "Marshal": "C09", "Copy": "C10", "Longest": "C10", "Use": "C13"}
	if *props == "C09" {
		propOf["Copy"] = "C09"
	}

	build := func(o objVal) (*coregex.Regex, *regexp.Regexp, error) {
		if o.Pat == 0 {
			return nil, nil, nil
		}
		if o.Posix {
			c, err := coregex.CompilePOSIX(posix[o.Pat-1])
			if err != nil {
				return nil, nil, err
			}
			return c, regexp.MustCompilePOSIX(posix[o.Pat-1]), nil
		}
		c, err := coregex.Compile(pats[o.Pat-1])
		if err != nil {
			return nil, nil, err
		}
		s := regexp.MustCompile(pats[o.Pat-1])
		if o.Longest {
			c.Longest()
			s.Longest()
		}
		return c, s, nil
	}
	var wg sync.WaitGroup
	ch := make(chan *objTrans, 64)
	var mu sync.Mutex
	calls, nontriv := 0, 0
	for w := 0; w < runtime.NumCPU(); w++ {
		wg.Add(1)
		go func() {
			defer wg.Done()
			for t := range ch {
				prop := propOf[t.Act.Op]
				desc := fmt.Sprintf("%s v=%d w=%d p=%d pre=%v", t.Act.Op, t.Act.V, t.Act.W, t.Act.P, t.Pre)
				lc := 0
				failT := func(api, hx, want, got string) {
					rep.Fail(&core.Failure{Prop: prop, API: "object." + t.Act.Op + ":" + api, Mode: "object", Pattern: desc, Hay: hx, Want: want, Got: got, Scope: "object"})
				}
				func() {
					defer func() {
						if r := recover(); r != nil {
							failT("panic", "", "no panic", fmt.Sprint(r))
						}
					}()
					n := len(t.Pre)
					cg := make([]*coregex.Regex, n)
					st := make([]*regexp.Regexp, n)
					for i, o := range t.Pre {
						c, s, err := build(o)
						if err != nil {
							failT("build", "", "compiles", err.Error())
							return
						}
						cg[i], st[i] = c, s
					}
					v, w2 := t.Act.V-1, t.Act.W-1
					switch t.Act.Op {
					case "Compile", "CompilePOSIX":
						c, s, err := build(t.Post[v])
						if err != nil {
							failT("build", "", "compiles", err.Error())
							return
						}
						cg[v], st[v] = c, s
					case "Copy":
						cg[w2], st[w2] = cg[v].Copy(), st[v].Copy()
					case "Longest":
						cg[v].Longest()
						st[v].Longest()
					case "Marshal":
						b1, e1 := cg[v].MarshalText()
						b2, e2 := st[v].MarshalText()
						if string(b1) != string(b2) || (e1 == nil) != (e2 == nil) {
							failT("MarshalText", "", string(b2), string(b1))
						}
						nc := new(coregex.Regex)
						ns := new(regexp.Regexp)
						if err := nc.UnmarshalText(b1); err != nil {
							failT("UnmarshalText", "", "ok", err.Error())
							return
						}
						ns.UnmarshalText(b2)
						cg[w2], st[w2] = nc, ns
					case "Use":
						for _, h := range hays {
							s := string(h)
							cg[v].Match(h)
							cg[v].FindIndex(h)
							cg[v].FindStringSubmatchIndex(s)
							cg[v].FindAllIndex(h, -1)
							cg[v].Count(h, 2)
							cg[v].ReplaceAllString(s, "<$1>")
							cg[v].Split(s, -1)
							for range cg[v].AllIndex(h) {
							}
							lc += 8
						}
					}
					for i := range cg {
						if cg[i] == nil {
							continue
						}
						var exp [][][]int
						if err := json.Unmarshal(t.Probes[i], &exp); err != nil {
							rep.Machinery("probe decode: " + err.Error())
							return
						}
						if cg[i].String() != st[i].String() {
							failT("String", "", st[i].String(), cg[i].String())
						}
						for hi, h := range hays {
							want := exp[hi]
							if !eqAll(st[i].FindAllSubmatchIndex(h, -1), want) {
								rep.Gap(fmt.Sprintf("object %v value %d hay %x: spec %v regexp %v", t.Post[i], i+1, h, want, st[i].FindAllSubmatchIndex(h, -1)))
								continue
							}
							lc += 2
							got := cg[i].FindAllSubmatchIndex(h, -1)
							if !eqAll(got, want) {
								failT(fmt.Sprintf("probe value %d %+v FindAllSubmatchIndex", i+1, t.Post[i]), core.Hex(h), fmt.Sprint(want), fmt.Sprint(got))
							}
							var w0 []int
							if len(want) > 0 {
								w0 = want[0][:2]
							}
							if g := cg[i].FindIndex(h); !eqInts(g, w0) {
								failT(fmt.Sprintf("probe value %d %+v FindIndex", i+1, t.Post[i]), core.Hex(h), fmt.Sprint(w0), fmt.Sprint(g))
							}
						}
					}
				}()
				mu.Lock()
				calls += lc
				if t.Act.Op != "Use" {
					nontriv++
				}
				mu.Unlock()
				if len(trans) > 0 && t == &trans[len(trans)/2] {
					rep.Sample(map[string]any{"pre": t.Pre, "act": t.Act, "post": t.Post})
				}
			}
		}()
	}
	for i := range trans {
		ch <- &trans[i]
	}
	close(ch)
	wg.Wait()
	rep.Add(len(trans), len(trans), calls, nontriv, "")
	rep.Extra["transitions_replayed"] = len(trans)
	if err2 := rep.Close(*report); err2 != nil {
		fatal(err2)
	}
}
