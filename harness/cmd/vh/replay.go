package main

// replay: re-executes one recorded failure (out/<id>/viol_N.json) against the current tree.
// Exit 1 + VIOLATION line when it still fails, 0 when it no longer does, 2 when this kind cannot be replayed alone.

import (
	"encoding/hex"
	"encoding/json"
	"flag"
	"fmt"
	"os"
	"regexp"

	"github.com/coregx/coregex"
	"github.com/coregx/coregex/meta"

	"verif/harness/internal/core"
)

func runReplay(args []string) {
	fs := flag.NewFlagSet("replay", flag.ExitOnError)
	file := fs.String("file", "", "")
	fs.Parse(args)
	b, err := os.ReadFile(*file)
	if err != nil {
		fatal(err)
	}
	var f core.Failure
	if err := json.Unmarshal(b, &f); err != nil {
		fatal(err)
	}
	tmp, _ := os.CreateTemp("", "replay*.ndjson")
	tmp.Close()
	defer os.Remove(tmp.Name())
	rep, _ := core.NewReport(tmp.Name())
	switch f.Prop {
	case "C01", "C02", "C03", "C04", "C10", "C11":
		if f.Scope != "" && f.Scope != "api" {
			fmt.Println("this failure kind is replayed by re-running the check:", f.Prop)
			os.Exit(2)
		}
		hay, _ := hex.DecodeString(f.Hay)
		if hay == nil {
			hay = []byte{}
		}
		std, err := regexp.Compile(f.Pattern)
		if err != nil {
			fatal(err)
		}
		cg, cerr := coregex.Compile(f.Pattern)
		if cerr != nil {
			fmt.Printf("VIOLATION property=%s replay=%s\n  Compile(%q): %v\n", f.Prop, *file, f.Pattern, cerr)
			os.Exit(1)
		}
		mode := f.Mode
		if mode == "longest" || mode == "posix" {
			std.Longest()
			cg.Longest()
		}
		eng, _ := meta.Compile(f.Pattern)
		all := std.FindAllSubmatchIndex(hay, -1)
		c := &sctx{rep: rep, props: map[string]bool{f.Prop: true}, pat: f.Pattern, strat: eng.Strategy().String(), mode: "first", cg: cg, eng: eng,
			nc: std.NumSubexp(), b: hay, s: string(hay), hx: f.Hay}
		if mode != "first" {
			c.mode = "longest"
		}
		var first []int
		if len(all) > 0 {
			first = all[0]
		}
		switch f.Prop {
		case "C01":
			c.c01(first != nil, 3)
		case "C02":
			if first == nil {
				c.c02(nil)
			} else {
				c.c02(first[:2])
			}
		case "C03":
			c.c03(first)
		case "C04":
			c.c04(all)
		case "C10":
			c.c01(first != nil, 3)
			c.c03(first)
			c.c04(all)
		case "C11":
			c.c11()
		}
	default:
		fmt.Println("this failure kind is replayed by re-running the check:", f.Prop)
		os.Exit(2)
	}
	rep.Close(tmp.Name() + ".json")
	os.Remove(tmp.Name() + ".json")
	if rep.Failures > 0 {
		fmt.Printf("VIOLATION property=%s replay=%s\n", f.Prop, *file)
		data, _ := os.ReadFile(tmp.Name())
		fmt.Print(string(data))
		os.Exit(1)
	}
	fmt.Println("not reproduced on the current tree:", f.Pattern, f.Hay)
}
