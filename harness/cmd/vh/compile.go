package main

// C09 / C07(i): every TLC-generated pattern string (token strings of bounded length, limit families) is
// offered to regexp and coregex: acceptance, error text, MustCompile panic text, CompilePOSIX, and for accepted
// patterns String, NumSubexp, SubexpNames, SubexpIndex, LiteralPrefix, MarshalText/UnmarshalText, Copy, plus
// QuoteMeta against its TLA+ definition and Compile(QuoteMeta(s)) matching exactly s.
// Nothing here may panic or hang (C07): a panic or a deadline miss is a failure of C07.

import (
	"bufio"
	"encoding/json"
	"flag"
	"fmt"
	"os"
	"regexp"
	"runtime"
	"strconv"
	"strings"
	"sync"
	"time"

	"github.com/coregx/coregex"

	"verif/harness/internal/core"
)

type compRec struct {
	Kind string `json:"kind"`
	I    int    `json:"i"`
	B    []int  `json:"b"`
	Q    []int  `json:"q"`
	Name string `json:"name"`
	K    int    `json:"k"`
}

func mustPanicText(f func()) (msg string) {
	defer func() {
		if r := recover(); r != nil {
			msg = fmt.Sprint(r)
		}
	}()
	f()
	return ""
}

func runCompile(args []string) {
	fs := flag.NewFlagSet("compile", flag.ExitOnError)
	in := fs.String("in", "", "TLC output (MC_Compile)")
	props := fs.String("props", "C09", "C09 or C07")
	report := fs.String("report", "report.json", "")
	fails := fs.String("fail", "fail.ndjson", "")
	fs.Parse(args)
	f, err := os.Open(*in)
	if err != nil {
		fatal(err)
	}
	defer f.Close()
	rep, err := core.NewReport(*fails)
	if err != nil {
		fatal(err)
	}
	var recs []compRec
	sc := bufio.NewScanner(f)
	sc.Buffer(make([]byte, 1<<20), 1<<26)
	for sc.Scan() {
		line := sc.Text()
		if !strings.HasPrefix(line, `"`) {
			continue
		}
		s, err := strconv.Unquote(line)
		if err != nil {
			fatal(err)
		}
		var r compRec
		if err := json.Unmarshal([]byte(s), &r); err != nil {
			fatal(err)
		}
		recs = append(recs, r)
	}
	c09 := strings.Contains(*props, "C09")
	c07 := strings.Contains(*props, "C07")
	var mu sync.Mutex
	calls, accepted, rejected := 0, 0, 0
	ch := make(chan *compRec, 64)
	var wg sync.WaitGroup
	for w := 0; w < runtime.NumCPU(); w++ {
		wg.Add(1)
		go func() {
			defer wg.Done()
			for r := range ch {
				p := string(toBytes(r.B))
				hx := core.Hex([]byte(p))
				lc := 0
				fail := func(prop, api, want, got string) {
					rep.Fail(&core.Failure{Prop: prop, API: api, Mode: "compile", Pattern: p, Hay: "", Want: want, Got: got, Args: r.Name, Scope: "compile"})
				}
				_ = hx
				// --- Compile: acceptance and error text; never a panic, never a hang
				std, serr := regexp.Compile(p)
				var cg *coregex.Regex
				var cerr error
				done := make(chan string, 1)
				go func() {
					done <- mustPanicText(func() { cg, cerr = coregex.Compile(p) })
				}()
				select {
				case pm := <-done:
					if pm != "" {
						if c07 {
							fail("C07", "Compile", "an error or a value", "panic: "+pm)
						}
						if c09 {
							fail("C09", "Compile", "no panic", "panic: "+pm)
						}
						continue
					}
				case <-time.After(30 * time.Second):
					if c07 {
						fail("C07", "Compile", "returns", "no result after 30s")
					}
					continue
				}
				lc++
				if serr == nil {
					mu.Lock()
					accepted++
					mu.Unlock()
				} else {
					mu.Lock()
					rejected++
					mu.Unlock()
				}
				if !c09 {
					mu.Lock()
					calls += lc
					mu.Unlock()
					continue
				}
				if (serr == nil) != (cerr == nil) {
					fail("C09", "Compile", fmt.Sprintf("err=%v", serr), fmt.Sprintf("err=%v", cerr))
				} else if serr != nil && serr.Error() != cerr.Error() {
					fail("C09", "Compile.Error", serr.Error(), cerr.Error())
				}
				// MustCompile panic text
				sp := mustPanicText(func() { regexp.MustCompile(p) })
				cp := mustPanicText(func() { coregex.MustCompile(p) })
				lc++
				if sp != cp {
					fail("C09", "MustCompile", sp, cp)
				}
				// POSIX
				sP, sPerr := regexp.CompilePOSIX(p)
				var cP *coregex.Regex
				var cPerr error
				if pm := mustPanicText(func() { cP, cPerr = coregex.CompilePOSIX(p) }); pm != "" {
					fail("C09", "CompilePOSIX", "no panic", "panic: "+pm)
				} else if (sPerr == nil) != (cPerr == nil) {
					fail("C09", "CompilePOSIX", fmt.Sprintf("err=%v", sPerr), fmt.Sprintf("err=%v", cPerr))
				} else if sPerr != nil && sPerr.Error() != cPerr.Error() {
					fail("C09", "CompilePOSIX.Error", sPerr.Error(), cPerr.Error())
				} else if sPerr == nil {
					if sP.String() != cP.String() || sP.NumSubexp() != cP.NumSubexp() {
						fail("C09", "CompilePOSIX.accessors", fmt.Sprintf("%q %d", sP.String(), sP.NumSubexp()), fmt.Sprintf("%q %d", cP.String(), cP.NumSubexp()))
					}
					spp := mustPanicText(func() { regexp.MustCompilePOSIX(p) })
					cpp := mustPanicText(func() { coregex.MustCompilePOSIX(p) })
					if spp != cpp {
						fail("C09", "MustCompilePOSIX", spp, cpp)
					}
				}
				lc += 2
				if serr == nil && cerr == nil {
					acc := func(api, want, got string) {
						lc++
						if want != got {
							fail("C09", api, want, got)
						}
					}
					if pm := mustPanicText(func() {
						acc("String", std.String(), cg.String())
						acc("NumSubexp", fmt.Sprint(std.NumSubexp()), fmt.Sprint(cg.NumSubexp()))
						acc("SubexpNames", fmt.Sprintf("%q", std.SubexpNames()), fmt.Sprintf("%q", cg.SubexpNames()))
						for _, nm := range append(std.SubexpNames(), "nosuch", "") {
							acc("SubexpIndex", fmt.Sprint(std.SubexpIndex(nm)), fmt.Sprint(cg.SubexpIndex(nm)))
						}
						sl, sc := std.LiteralPrefix()
						cl, cc := cg.LiteralPrefix()
						acc("LiteralPrefix", fmt.Sprintf("%q %v", sl, sc), fmt.Sprintf("%q %v", cl, cc))
						sm, _ := std.MarshalText()
						cm, _ := cg.MarshalText()
						acc("MarshalText", string(sm), string(cm))
						nr := new(coregex.Regex)
						if err := nr.UnmarshalText(cm); err != nil {
							fail("C09", "UnmarshalText", "ok", err.Error())
						} else {
							acc("Unmarshal.String", std.String(), nr.String())
						}
						cp := cg.Copy()
						if cp == nil {
							fail("C09", "Copy", "a value", "nil")
						} else {
							acc("Copy.String", std.Copy().String(), cp.String())
						}
					}); pm != "" {
						fail("C09", "accessors", "no panic", "panic: "+pm)
					}
				}
				// QuoteMeta (only for the enumerated strings)
				if r.Kind == "str" {
					want := string(toBytes(r.Q))
					if g := regexp.QuoteMeta(p); g != want {
						rep.Gap(fmt.Sprintf("QuoteMeta(%q): spec %q regexp %q", p, want, g))
					} else {
						lc++
						got := coregex.QuoteMeta(p)
						if got != want {
							fail("C09", "QuoteMeta", strconv.Quote(want), strconv.Quote(got))
						}
						// Compile(QuoteMeta(s)) matches exactly s
						if qr, err := coregex.Compile("^(?:" + want + ")$"); err != nil {
							if regexp.MustCompile("^(?:"+want+")$") != nil {
								fail("C09", "Compile(QuoteMeta)", "compiles", err.Error())
							}
						} else {
							lc += 2
							if !qr.MatchString(p) {
								fail("C09", "Compile(QuoteMeta).Match", "matches its own source "+strconv.Quote(p), "no match")
							}
							if p != "" && qr.MatchString(p+"a") {
								fail("C09", "Compile(QuoteMeta).Match", "does not match a longer string", "matches "+strconv.Quote(p+"a"))
							}
						}
					}
				}
				mu.Lock()
				calls += lc
				mu.Unlock()
				if r.I%1499 == 7 || r.Kind == "fam" && r.K == 1000 {
					rep.Sample(map[string]any{"pattern": p, "family": r.Name, "k": r.K, "regexp_accepts": serr == nil})
				}
			}
		}()
	}
	for i := range recs {
		ch <- &recs[i]
	}
	close(ch)
	wg.Wait()
	rep.Add(len(recs), len(recs), calls, accepted, "")
	rep.Extra["accepted_by_regexp"] = accepted
	rep.Extra["rejected_by_regexp"] = rejected
	if err := rep.Close(*report); err != nil {
		fatal(err)
	}
}
