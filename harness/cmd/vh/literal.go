package main

// C17 (translation validation): `litexport` runs the real literal extractor (literal.New(cfg).ExtractPrefixes /
// ExtractSuffixes / ExtractInner / ExtractInnerForReverseSearch) on every pattern printed by MC_Search under a set
// of ExtractorConfigs and exports what it returned, one JSON line per pattern, for MC_Literal, which checks the
// output against the pattern's bounded language in the reference semantics.
// `litconfirm` takes the obligations TLC found violated and confirms each one against package regexp (three-way
// rule: the witness must really be a match of the pattern per regexp) and against a fresh run of the real
// extractor (the literal set must really lack the witness) before it counts.

import (
	"bufio"
	"bytes"
	"encoding/json"
	"flag"
	"fmt"
	"os"
	"regexp"
	"regexp/syntax"
	"sort"
	"strconv"
	"strings"
	"unicode/utf8"

	"github.com/coregx/coregex/literal"

	"verif/harness/internal/core"
)

// ---- the configurations ----

var (
	litMaxLiterals   = []int{1, 2, 8, 64, 256}
	litMaxLiteralLen = []int{1, 2, 8, 64}
	litMaxClassSize  = []int{1, 3, 10}
)

// XL: CrossProductLimit; 0 = unset (the extractor's default 250), exactly as meta/compile.go builds its extractors.
type litCfg struct{ ML, LL, CS, XL int }

func (c litCfg) String() string {
	s := fmt.Sprintf("MaxLiterals=%d,MaxLiteralLen=%d,MaxClassSize=%d", c.ML, c.LL, c.CS)
	if c.XL != 0 {
		s += fmt.Sprintf(",CrossProductLimit=%d", c.XL)
	}
	return s
}

func (c litCfg) cfg() literal.ExtractorConfig {
	return literal.ExtractorConfig{MaxLiterals: c.ML, MaxLiteralLen: c.LL, MaxClassSize: c.CS, CrossProductLimit: c.XL}
}

func parseLitCfg(s string) (litCfg, error) {
	var c litCfg
	if strings.Contains(s, "CrossProductLimit=") {
		_, err := fmt.Sscanf(s, "MaxLiterals=%d,MaxLiteralLen=%d,MaxClassSize=%d,CrossProductLimit=%d", &c.ML, &c.LL, &c.CS, &c.XL)
		return c, err
	}
	_, err := fmt.Sscanf(s, "MaxLiterals=%d,MaxLiteralLen=%d,MaxClassSize=%d", &c.ML, &c.LL, &c.CS)
	return c, err
}

// litOverflowCfgs: the universe's patterns have few literals, so the extractor's overflow paths (cross-product
// overflow, partial-coverage marking) never run under the default CrossProductLimit of 250; these three
// configurations lower it to 2 at otherwise generous limits.
var litOverflowCfgs = []litCfg{{256, 64, 10, 2}, {64, 64, 10, 2}, {8, 64, 10, 2}}

func allLitCfgs() []litCfg {
	var out []litCfg
	for _, ml := range litMaxLiterals {
		for _, ll := range litMaxLiteralLen {
			for _, cs := range litMaxClassSize {
				out = append(out, litCfg{ml, ll, cs, 0})
			}
		}
	}
	return out
}

// litCfgsFor: the fixed subset of the configurations a pattern gets when not all are requested: the production
// configuration of meta (256/64/10) plus n-1 others of the 60 chosen by the pattern's index in its family (stride
// 13 is coprime to 60, so consecutive patterns rotate through all of them) plus one overflow configuration.
// All requested: the 60 (production first) plus the three overflow configurations.
func litCfgsFor(i, n int) []litCfg {
	all := allLitCfgs()
	if n <= 0 || n >= len(all) {
		// production first, so that a sequence the production configuration yields is reported under it
		out := []litCfg{{256, 64, 10, 0}}
		for _, c := range all {
			if c != out[0] {
				out = append(out, c)
			}
		}
		return append(out, litOverflowCfgs...)
	}
	out := []litCfg{{256, 64, 10, 0}}
	seen := map[litCfg]bool{out[0]: true}
	for j := 0; len(out) < n; j++ {
		c := all[(i*7+j*13)%len(all)]
		if !seen[c] {
			seen[c] = true
			out = append(out, c)
		}
	}
	return append(out, litOverflowCfgs[i%len(litOverflowCfgs)])
}

// ---- the export format ----

type litJ struct {
	B []int `json:"b"`
	C bool  `json:"c"`
}
type seqJ struct {
	Empty   bool   `json:"empty"`
	Partial bool   `json:"partial"`
	Lits    []litJ `json:"lits"`
}
type litOut struct {
	Cfgs  []string `json:"cfgs"`
	Pre   seqJ     `json:"pre"`
	Suf   seqJ     `json:"suf"`
	Inn   seqJ     `json:"inn"`
	Rev   seqJ     `json:"rev"`
	Panic string   `json:"panic"`
}
type litLine struct {
	Fam  string          `json:"fam"`
	I    int             `json:"i"`
	Pat  string          `json:"pat"`  // ASCII-quoted, for TLC's messages only (TLC strings are not UTF-8 clean)
	PatB []int           `json:"patb"` // the bytes of the pattern text: what litconfirm compiles
	Re   json.RawMessage `json:"re"`
	Outs []litOut        `json:"outs"`
}

func exportSeq(s *literal.Seq) seqJ {
	j := seqJ{Empty: s.IsEmpty(), Partial: s.IsPartialCoverage(), Lits: []litJ{}}
	for k := 0; k < s.Len(); k++ {
		l := s.Get(k)
		b := make([]int, len(l.Bytes))
		for x, c := range l.Bytes {
			b[x] = int(c)
		}
		j.Lits = append(j.Lits, litJ{B: b, C: l.Complete})
	}
	return j
}

// runExtractor calls the four extraction entry points on a fresh parse of pat (the extractor is handed what
// meta/compile.go hands it: syntax.Parse(pattern, syntax.Perl), not simplified).
func runExtractor(pat string, c litCfg) (o litOut) {
	empty := seqJ{Empty: true, Lits: []litJ{}}
	o = litOut{Pre: empty, Suf: empty, Inn: empty, Rev: empty}
	stage := "syntax.Parse"
	defer func() {
		if r := recover(); r != nil {
			o.Panic = fmt.Sprintf("%s: %v", stage, r)
		}
	}()
	re, err := syntax.Parse(pat, syntax.Perl)
	if err != nil {
		panic(err)
	}
	ex := literal.New(c.cfg())
	stage = "ExtractPrefixes"
	o.Pre = exportSeq(ex.ExtractPrefixes(re))
	stage = "ExtractSuffixes"
	o.Suf = exportSeq(ex.ExtractSuffixes(re))
	stage = "ExtractInner"
	o.Inn = exportSeq(ex.ExtractInner(re))
	stage = "ExtractInnerForReverseSearch"
	if info := ex.ExtractInnerForReverseSearch(re); info != nil {
		o.Rev = exportSeq(info.Literals)
	}
	return o
}

type litGenRec struct {
	Sym []core.Symbol   `json:"sym"`
	Fam string          `json:"fam"`
	I   int             `json:"i"`
	Re  json.RawMessage `json:"re"`
}

func runLitExport(args []string) {
	fs := flag.NewFlagSet("litexport", flag.ExitOnError)
	in := fs.String("in", "", "TLC output (MC_Search); several files may be given separated by commas")
	out := fs.String("out", "literals.ndjson", "")
	ncfg := fs.Int("ncfg", 6, "configurations per pattern (0 or >= 60: all 60)")
	fs.Parse(args)
	var recs []litGenRec
	for _, path := range strings.Split(*in, ",") {
		if err := readQuoted(path, func(s string) {
			var r litGenRec
			if err := json.Unmarshal([]byte(s), &r); err != nil {
				fatal(fmt.Errorf("%s: %v", path, err))
			}
			if r.Sym != nil {
				core.Syms = r.Sym
				return
			}
			if len(r.Re) > 0 {
				recs = append(recs, r)
			}
		}); err != nil {
			fatal(err)
		}
	}
	if core.Syms == nil {
		fatal(fmt.Errorf("no symbol-table header record in generator output"))
	}
	sort.SliceStable(recs, func(a, b int) bool {
		if recs[a].Fam != recs[b].Fam {
			return recs[a].Fam < recs[b].Fam
		}
		return recs[a].I < recs[b].I
	})
	of, err := os.Create(*out)
	if err != nil {
		fatal(err)
	}
	defer of.Close()
	w := bufio.NewWriterSize(of, 1<<20)
	defer w.Flush()
	patterns, runs, outs := 0, 0, 0
	for _, r := range recs {
		var ast core.AST
		if err := json.Unmarshal(r.Re, &ast); err != nil {
			fatal(err)
		}
		pat := ast.Pattern()
		line := litLine{Fam: r.Fam, I: r.I, Pat: strconv.QuoteToASCII(pat), PatB: []int{}, Re: r.Re}
		for _, c := range []byte(pat) {
			line.PatB = append(line.PatB, int(c))
		}
		if _, err := regexp.Compile(pat); err != nil {
			fatal(fmt.Errorf("%s/%d: %q: %v", r.Fam, r.I, pat, err))
		}
		byOut := map[string]int{}
		for _, c := range litCfgsFor(r.I, *ncfg) {
			o := runExtractor(pat, c)
			runs++
			kb, _ := json.Marshal(o)
			if k, ok := byOut[string(kb)]; ok {
				line.Outs[k].Cfgs = append(line.Outs[k].Cfgs, c.String())
				continue
			}
			byOut[string(kb)] = len(line.Outs)
			o.Cfgs = []string{c.String()}
			line.Outs = append(line.Outs, o)
		}
		outs += len(line.Outs)
		b, _ := json.Marshal(line)
		w.Write(b)
		w.WriteByte('\n')
		patterns++
	}
	fmt.Printf("{\"patterns\":%d,\"extractor_runs\":%d,\"distinct_outputs\":%d}\n", patterns, runs, outs)
}

// ---- confirmation ----

type litBad struct {
	Kind string `json:"kind"`
	API  string `json:"api"`
	Cfg  string `json:"cfg"`
	HB   []int  `json:"hb"` // bytes of the witness haystack
	SO   int    `json:"so"` // byte offsets of the match in it
	EO   int    `json:"eo"`
	NB   int    `json:"nb"` // decoding steps before / behind the match
	NA   int    `json:"na"`
	L    []int  `json:"l"` // the literal concerned (Complete obligations)
	N    int    `json:"n"` // how many witnesses TLC found
}
type litResult struct {
	Hdr    bool     `json:"hdr"`
	Lines  int      `json:"lines"`
	Fam    string   `json:"fam"`
	I      int      `json:"i"`
	PatB   []int    `json:"patb"`
	Pat    string   `json:"-"`
	L      int      `json:"L"`
	NMatch int      `json:"nmatch"`
	NText  int      `json:"ntext"`
	NOuts  int      `json:"nouts"`
	NCfgs  int      `json:"ncfgs"`
	NSeqs  int      `json:"nseqs"`
	NNec   int      `json:"nnec"`
	NCompl int      `json:"ncompl"`
	Bad    []litBad `json:"bad"`
	Info   []litBad `json:"info"`
}

func litSeqByAPI(o *litOut, api string) *seqJ {
	switch api {
	case "ExtractPrefixes":
		return &o.Pre
	case "ExtractSuffixes":
		return &o.Suf
	case "ExtractInner":
		return &o.Inn
	case "ExtractInnerForReverseSearch":
		return &o.Rev
	}
	return nil
}

func litCovers(api string, l, m []byte) bool {
	switch api {
	case "ExtractPrefixes":
		return bytes.HasPrefix(m, l)
	case "ExtractSuffixes":
		return bytes.HasSuffix(m, l)
	}
	return bytes.Contains(m, l)
}

func litRole(api string) string {
	switch api {
	case "ExtractPrefixes":
		return "prefix"
	case "ExtractSuffixes":
		return "suffix"
	}
	return "substring"
}

func litSeqStr(q *seqJ) string {
	var sb strings.Builder
	sb.WriteString("[")
	for k, l := range q.Lits {
		if k > 0 {
			sb.WriteString(" ")
		}
		if k == 12 {
			fmt.Fprintf(&sb, "... %d more", len(q.Lits)-k)
			break
		}
		fmt.Fprintf(&sb, "%q", toBytes(l.B))
		if l.C {
			sb.WriteString("(complete)")
		}
	}
	sb.WriteString("]")
	return sb.String()
}

// inContext reports whether, per package regexp, pat can match hb[so:eo] exactly, in the context hb, when the
// text before so is nb decoding steps and the text behind eo is na decoding steps long.
func inContext(pat string, hb []byte, nb, na int) bool {
	re, err := regexp.Compile(fmt.Sprintf(`\A(?s:.){%d}(?:%s)(?s:.){%d}\z`, nb, pat, na))
	if err != nil {
		return false
	}
	return re.Match(hb)
}

// someContext: is l, by itself, the text of a match of pat in some context of at most one byte on either side?
func someContext(pat string, l []byte) bool {
	ctx := []string{"", "x", " ", "\n", "a", "\xff"}
	for _, cl := range ctx {
		for _, cr := range ctx {
			hb := append(append([]byte(cl), l...), cr...)
			if inContext(pat, hb, len(cl), len(cr)) {
				return true
			}
		}
	}
	return false
}

func runLitConfirm(args []string) {
	fs := flag.NewFlagSet("litconfirm", flag.ExitOnError)
	in := fs.String("in", "", "TLC output (MC_Literal); several files may be given separated by commas")
	report := fs.String("report", "report.json", "")
	fails := fs.String("fail", "fail.ndjson", "")
	fs.Parse(args)
	rep, err := core.NewReport(*fails)
	if err != nil {
		fatal(err)
	}
	var results []litResult
	exported := 0
	for _, path := range strings.Split(*in, ",") {
		if err := readQuoted(path, func(s string) {
			var r litResult
			if err := json.Unmarshal([]byte(s), &r); err != nil {
				fatal(fmt.Errorf("%s: %v", path, err))
			}
			if r.Hdr {
				if r.Lines > exported {
					exported = r.Lines
				}
				return
			}
			if r.I > 0 {
				r.Pat = string(toBytes(r.PatB))
				results = append(results, r)
			}
		}); err != nil {
			fatal(err)
		}
	}
	patterns, seqs, nec, compl, cfgs, matches, vacuous := 0, 0, 0, 0, 0, 0, 0
	confirmed := map[string]int{}
	info := 0
	for ri := range results {
		r := &results[ri]
		patterns++
		seqs += r.NSeqs
		nec += r.NNec
		compl += r.NCompl
		cfgs += r.NCfgs
		matches += r.NText
		if r.NText == 0 {
			vacuous++
		}
		info += len(r.Info)
		if len(r.Info) > 0 {
			b := r.Info[0]
			rep.Sample(map[string]any{"note": "Complete prefix literal that is not a match in every context (information only)",
				"pattern": r.Pat, "cfg": b.Cfg, "literal": string(toBytes(b.L)), "context_hex": core.Hex(toBytes(b.HB)), "at": b.SO})
		}
		for bi := range r.Bad {
			b := &r.Bad[bi]
			if litConfirmOne(rep, r, b) {
				confirmed[b.Kind]++
			}
		}
		if ri%97 == 3 {
			rep.Sample(map[string]any{"pattern": r.Pat, "fam": r.Fam, "i": r.I, "bound": r.L, "match_texts": r.NText,
				"configs": r.NCfgs, "distinct_outputs": r.NOuts, "sequences_checked": r.NSeqs, "violations": len(r.Bad)})
		}
	}
	rep.Add(patterns, nec, nec+compl, nec, "")
	rep.Extra["patterns_checked"] = patterns
	rep.Extra["lines_exported"] = exported
	rep.Extra["configs_run"] = cfgs
	rep.Extra["nonvacuous_sequences_checked"] = seqs
	rep.Extra["necessity_checks_by_tlc"] = nec
	rep.Extra["complete_literals_checked"] = compl
	rep.Extra["match_texts"] = matches
	rep.Extra["patterns_with_empty_bounded_language"] = vacuous
	rep.Extra["confirmed_by_kind"] = confirmed
	rep.Extra["complete_but_context_dependent_info"] = info
	rep.Extra["undecodable_complete_literal_is_a_match_per_regexp"] = litUndecodableMatch
	if err := rep.Close(*report); err != nil {
		fatal(err)
	}
}

var litUndecodableMatch int // Complete literals TLC could not decode that regexp accepts as matches (no violation)

// litConfirmOne re-establishes one TLC verdict from observations: regexp for the language side, a fresh run of
// the real extractor for the implementation side. Returns true when a failure was reported.
func litConfirmOne(rep *core.Report, r *litResult, b *litBad) bool {
	fail := func(hay []byte, args, want, got string) bool {
		rep.Fail(&core.Failure{Prop: "C17", API: b.API, Mode: b.Kind, Pattern: r.Pat, Hay: core.Hex(hay), Args: args,
			Want: want, Got: got, Fam: r.Fam, Cfg: b.Cfg, Scope: "literal"})
		return true
	}
	if b.Kind == "panic" { // b.API carries "<entry point>: <panic value>" as recorded by litexport
		msg := b.API
		b.API = strings.SplitN(msg, ":", 2)[0]
		return fail(nil, "", "no panic", "panic in "+msg)
	}
	c, err := parseLitCfg(b.Cfg)
	if err != nil {
		rep.Machinery(fmt.Sprintf("C17 %s: bad cfg %q", r.Pat, b.Cfg))
		return false
	}
	o := runExtractor(r.Pat, c)
	if o.Panic != "" {
		return fail(nil, "", "no panic", "panic in "+o.Panic)
	}
	q := litSeqByAPI(&o, b.API)
	if q == nil {
		rep.Machinery(fmt.Sprintf("C17 %s: unknown api %q", r.Pat, b.API))
		return false
	}
	hb := toBytes(b.HB)
	lit := toBytes(b.L)
	completeIdx := func() int { // index of the Complete literal concerned in the fresh sequence, -1: none
		for k, l := range q.Lits {
			if l.C && bytes.Equal(toBytes(l.B), lit) {
				return k
			}
		}
		return -1
	}
	hasComplete := func() bool { return completeIdx() >= 0 }
	switch b.Kind {
	case "necessity":
		if b.SO < 0 || b.EO < b.SO || b.EO > len(hb) {
			rep.Machinery(fmt.Sprintf("C17 %s: ill-formed witness", r.Pat))
			return false
		}
		m := hb[b.SO:b.EO]
		if !inContext(r.Pat, hb, b.NB, b.NA) {
			rep.Gap(fmt.Sprintf("C17 %s: spec says %x[%d:%d] is a match, regexp does not", r.Pat, hb, b.SO, b.EO))
			return false
		}
		if q.Empty || q.Partial {
			rep.Gap(fmt.Sprintf("C17 %s [%s] %s: sequence is empty/partial on re-extraction (TLC verdict not reproduced)", r.Pat, b.Cfg, b.API))
			return false
		}
		for _, l := range q.Lits {
			if litCovers(b.API, toBytes(l.B), m) {
				rep.Gap(fmt.Sprintf("C17 %s [%s] %s: %q covers %x (TLC verdict not reproduced)", r.Pat, b.Cfg, b.API, toBytes(l.B), m))
				return false
			}
		}
		args := ""
		if len(m) != len(hb) {
			args = fmt.Sprintf("match at [%d,%d) of haystack %x", b.SO, b.EO, hb)
		}
		return fail(m, args,
			fmt.Sprintf("every match has one of the literals as %s (sequence not empty, not partial); %q is a match (regexp), %d of %d match texts of length <= %d symbols are not covered",
				litRole(b.API), m, b.N, r.NText, r.L),
			fmt.Sprintf("%s = %s", b.API, litSeqStr(q)))
	case "complete_notin", "complete_undecodable":
		if !hasComplete() {
			rep.Gap(fmt.Sprintf("C17 %s [%s] %s: no Complete literal %q on re-extraction (TLC verdict not reproduced)", r.Pat, b.Cfg, b.API, lit))
			return false
		}
		if someContext(r.Pat, lit) {
			if b.Kind == "complete_undecodable" {
				// TLC did not decide this one (the literal is not a sequence of table symbols, e.g. a rune cut in two);
				// regexp decides: the bytes are a match (an ill-formed byte is U+FFFD to a wildcard): no violation.
				litUndecodableMatch++
				return false
			}
			rep.Gap(fmt.Sprintf("C17 %s: spec says %q is not a match by itself, regexp finds a context where it is", r.Pat, lit))
			return false
		}
		return fail(lit, "", fmt.Sprintf("a literal marked Complete is by itself an entire match; %q is not a match of the pattern (regexp, any context)", lit),
			fmt.Sprintf("%s = %s", b.API, litSeqStr(q)))
	case "complete_longer":
		if !hasComplete() {
			rep.Gap(fmt.Sprintf("C17 %s [%s] %s: no Complete literal %q on re-extraction (TLC verdict not reproduced)", r.Pat, b.Cfg, b.API, lit))
			return false
		}
		if b.SO < 0 || b.SO > len(hb) {
			rep.Machinery(fmt.Sprintf("C17 %s: ill-formed witness", r.Pat))
			return false
		}
		so := b.SO
		for _, l := range q.Lits[:completeIdx()] {
			if bytes.HasPrefix(hb[so:], toBytes(l.B)) {
				rep.Gap(fmt.Sprintf("C17 %s [%s]: an earlier literal %q of the sequence occurs at %d of %x (TLC verdict not reproduced)", r.Pat, b.Cfg, toBytes(l.B), so, hb))
				return false
			}
		}
		if !bytes.HasPrefix(hb[so:], lit) || !inContext(r.Pat, hb, b.NB, utf8.RuneCount(hb[so+len(lit):])) {
			rep.Gap(fmt.Sprintf("C17 %s: spec says %q is a match at %d of %x, regexp does not", r.Pat, lit, so, hb))
			return false
		}
		std, err := regexp.Compile(fmt.Sprintf(`\A(?s:.){%d}((?:%s))`, b.NB, r.Pat))
		if err != nil {
			rep.Machinery(fmt.Sprintf("C17 %s: %v", r.Pat, err))
			return false
		}
		loc := std.FindSubmatchIndex(hb)
		if loc == nil || loc[2] != so || !bytes.HasPrefix(hb[so:], lit) || loc[3] <= so+len(lit) {
			rep.Gap(fmt.Sprintf("C17 %s: spec says the match at %d of %x extends beyond %q, regexp says %v", r.Pat, so, hb, lit, loc))
			return false
		}
		return fail(hb, fmt.Sprintf("literal %q at offset %d", lit, so),
			fmt.Sprintf("nothing longer than a Complete literal is preferred where it occurs (and no earlier literal of the sequence occurs there); regexp's leftmost-first match at %d is [%d,%d) = %q", so, loc[2], loc[3], hb[loc[2]:loc[3]]),
			fmt.Sprintf("%s = %s", b.API, litSeqStr(q)))
	}
	rep.Machinery(fmt.Sprintf("C17 %s: unknown kind %q", r.Pat, b.Kind))
	return false
}
