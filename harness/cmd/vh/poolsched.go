package main

// C06: schedule replay.  TLC explores every interleaving of the Pool model (spec/Pool.tla) and prints the schedule
// of every complete behaviour; each schedule is replayed on real goroutines sharing ONE compiled Regex: the
// `verif` gates (before every atomic operation of getSearchState/putSearchState, and right after every
// "scratch begin" of PikeVM internal state / BacktrackerState / DFA cache) park the calling goroutine until the
// scheduler grants it its next step, so exactly one goroutine runs between gates and the real execution IS the
// chosen interleaving.  The recorded events are validated by TLC against spec/Trace_Pool.tla (ownership hand-off,
// exclusive use of every scratch object); every call's result is compared with its sequential result.

import (
	"bufio"
	"bytes"
	"encoding/json"
	"flag"
	"fmt"
	"os"
	"runtime"
	"runtime/debug"
	"strconv"
	"strings"
	"sync"
	"time"

	"github.com/coregx/coregex"
	"github.com/coregx/coregex/verifhook"

	"verif/harness/internal/core"
)

func curGoid() int64 {
	var buf [64]byte
	n := runtime.Stack(buf[:], false)
	f := bytes.Fields(buf[:n])
	id, _ := strconv.ParseInt(string(f[1]), 10, 64)
	return id
}

type poolEv struct {
	Ev   string `json:"ev"`
	G    int    `json:"g"`
	S    int    `json:"s"`
	OK   int    `json:"ok"`
	Obj  int    `json:"obj"`
	Kind int    `json:"kind"`
	N    int    `json:"n"`
	Pat  string `json:"pat,omitempty"`
}

type schedRec struct {
	Sched   [][]json.RawMessage `json:"sched"`
	Created int                 `json:"created"`
}

type concCase struct {
	pat  string
	hays []string
}

// one representative per search path family (strategy x helper), two haystacks each
var concCases = []concCase{
	{`foo.*?bar`, []string{"xxfooyybarzzbar", "foobar foo bar"}},
	{`(a|b)*c`, []string{"ababcabc", "xxabx"}},
	{`[a-z]+x`, []string{"hello worldx", "abcx defx"}},
	{`\bfoo\b`, []string{"a foo b", "foofoo foo"}},
	{`(\w+)@(\w+)\.com`, []string{"mail bob@site.com now", "x@y.com z@w.com"}},
	{`.*\.txt`, []string{"a.txt b.txt", "none here"}},
	{`^(\d+)-(\d+)$`, []string{"12-345", "12-34x"}},
	{`[0-9]+\.[0-9]+`, []string{"v1.25.4 and 3.14", "nothing"}},
	{`abc|bcd|cde`, []string{"xxbcdexx", "ab cd"}},
	{`(?i)hello`, []string{"say HeLLo", "hell"}},
	{`a+?b*?c`, []string{"aaabbbc", "abac"}},
	{`[ab]+[cd]+`, []string{"xxabcdxx", "ab cd"}},
	// one case per further strategy / scratch object (reverse searchers with several candidates, one-pass captures,
	// two-phase capture extraction, cold and overflowing DFA caches, literal engines)
	{`[a-z]+[0-9]*[a-z]*\.txt`, []string{".txt a.txt b1c.txt", ".txt .txt x.txt", "1.txt 2.txt c.txt"}}, // the first candidates fail, a later one matches
	{`(\w+)@(\w+)\.(\w+)`, []string{"mail bob@site.com now", "a@b c@d.e f@g.h"}},
	{`.*\.(txt|log|dat)`, []string{"a.txt b.log", "c.dat\nd.txt", "none"}},
	{`^(\w+)\s(\w+)$`, []string{"hello world", "one two", "x y z"}},
	{`(foo|bar)baz`, []string{"xx foobaz barbaz", "bazfoo"}},
	{`[ab]*a[ab]{13}c`, []string{"abababababababababababababac abbbbbbbbbbbbbbc", "bbbbbbbbbbbbbbbbabbbbbbbbbbbbbc"}},
	{`.*connection.*`, []string{"lost connection to db", "x\nconnection\ny", "none"}},
	{`[a-zA-Z ]+[0-9:;,.!?_#%-][a-zA-Z ]+ERROR.*[0-9]`, []string{"k7 zERROR zERROR 9", "a1 bERROR"}},
	{`(?m)^\w+ error$`, []string{"disk error\nnet error", "an error here"}},
	{`(?:apple|banana|cherry|date|elderberry|fig|grape|honeydew|kiwi|lemon|mango|nectarine)`, []string{"a fig and a kiwi", "pear"}},
	{`^abc.*xyz$`, []string{"abc---xyz", "abc\nxyz"}},
	{`^(foo|bar)\d+`, []string{"foo12", "bar", "baz1"}},
	{`(\d{4})-(\d{2})-(\d{2})`, []string{"on 2026-09-23 and 1999-01-02", "20260923"}},
	{`x*`, []string{"axxb", ""}},
	// adaptive DFA -> NFA strategy (UseBoth): enumeration loops that end with a search that finds nothing
	{`[0-9a-f]{4,8}-[0-9a-f]{4}`, []string{"id 12ab34cd-ef01 and 0000-1111 x", "dead-beef cafe-f00d 1234-5678", "no ids here"}},
}

var concAPIs = []func(re *coregex.Regex, h string) string{
	func(re *coregex.Regex, h string) string { return fmt.Sprint(re.FindStringIndex(h)) },
	func(re *coregex.Regex, h string) string { return fmt.Sprint(re.MatchString(h)) },
	func(re *coregex.Regex, h string) string { return fmt.Sprint(re.FindAllStringIndex(h, -1)) },
	func(re *coregex.Regex, h string) string { return fmt.Sprint(re.FindStringSubmatchIndex(h)) },
	func(re *coregex.Regex, h string) string { return fmt.Sprint(re.CountString(h, -1)) },
	func(re *coregex.Regex, h string) string { return re.ReplaceAllString(h, "<$0>") },
	// the replace / iterator loops reach the engine through FindIndicesAt and FindSubmatchAt, not through FindAll
	func(re *coregex.Regex, h string) string { return re.ReplaceAllLiteralString(h, "#") },
	func(re *coregex.Regex, h string) string {
		return re.ReplaceAllStringFunc(h, func(m string) string { return "[" + m + "]" })
	},
	func(re *coregex.Regex, h string) string {
		var sb strings.Builder
		for m := range re.AllStringIndex(h) {
			fmt.Fprint(&sb, m)
		}
		return sb.String()
	},
	func(re *coregex.Regex, h string) string { return fmt.Sprint(re.FindAllStringSubmatchIndex(h, 2)) },
	func(re *coregex.Regex, h string) string { return fmt.Sprint(re.Split(h, -1)) },
}

func runPoolSched(args []string) {
	fs := flag.NewFlagSet("poolsched", flag.ExitOnError)
	in := fs.String("in", "", "TLC output (MC_Pool schedules)")
	out := fs.String("out", "pool.ndjson", "")
	report := fs.String("report", "report.json", "")
	fails := fs.String("fail", "fail.ndjson", "")
	stride := fs.Int("stride", 1, "replay every k-th schedule")
	offset := fs.Int("offset", 0, "")
	ngor := fs.Int("goroutines", 2, "")
	ncalls := fs.Int("calls", 1, "")
	fs.Parse(args)
	if !verifhook.On {
		fatal(fmt.Errorf("harness built without -tags verif"))
	}
	var scheds [][]int // sequences of goroutine ids; 0 = gc; negative g = "search" step of goroutine -g
	if err := readQuoted(*in, func(s string) {
		var r schedRec
		if json.Unmarshal([]byte(s), &r) != nil || r.Sched == nil {
			return
		}
		var sq []int
		for _, st := range r.Sched {
			var g int
			var a string
			json.Unmarshal(st[0], &g)
			json.Unmarshal(st[1], &a)
			if a == "search" {
				sq = append(sq, -g)
			} else {
				sq = append(sq, g)
			}
		}
		scheds = append(scheds, sq)
	}); err != nil {
		fatal(err)
	}
	of, err := os.Create(*out)
	if err != nil {
		fatal(err)
	}
	defer of.Close()
	w := bufio.NewWriterSize(of, 1<<20)
	defer w.Flush()
	rep, err := core.NewReport(*fails)
	if err != nil {
		fatal(err)
	}
	old := runtime.GOMAXPROCS(1) // one P: sync.Pool is deterministic, and only the granted goroutine can run anyway
	defer runtime.GOMAXPROCS(old)

	events, traces, calls := 0, 0, 0
	emit := func(e *poolEv) {
		b, _ := json.Marshal(e)
		w.Write(b)
		w.WriteByte('\n')
		events++
	}
	// Work list: the TLC schedules (every stride-th), then a systematic pass that needs no schedule: for every case, API and
	// K = 1..6, goroutine 1 starts its call and is left standing at the entry of its K-th scratch object while goroutine 2 runs
	// the same kind of call from start to end; then goroutine 1 finishes.  (The events go through Trace_Pool like the others.)
	type workItem struct {
		si, synthK int
	}
	var work []workItem
	for si := *offset; si < len(scheds); si += *stride {
		work = append(work, workItem{si, 0})
	}
	if *ngor >= 2 {
		for ci := range concCases {
			for ai := range concAPIs {
				for k := 1; k <= 6; k++ {
					work = append(work, workItem{ci + len(concCases)*ai, k})
				}
			}
		}
	}
	synthRuns := 0
	for _, wi := range work {
		si, synthK := wi.si, wi.synthK
		var sq []int
		if synthK == 0 {
			sq = scheds[si]
		}
		cc := concCases[si%len(concCases)]
		re, cerr := coregex.Compile(cc.pat)
		if cerr != nil {
			continue
		}
		seqRe, _ := coregex.Compile(cc.pat)
		// expected sequential results
		type call struct {
			api int
			h   string
			exp string
		}
		prog := make([][]call, *ngor+1)
		for g := 1; g <= *ngor; g++ {
			for k := 0; k < *ncalls; k++ {
				api := (si/len(concCases) + k) % len(concAPIs) // the same API in every goroutine: the same search path, hence the same scratch
				h := cc.hays[(g+k)%len(cc.hays)]
				verifhook.Install(nil)
				verifhook.InstallGate(nil)
				prog[g] = append(prog[g], call{api, h, concAPIs[api](seqRe, h)})
			}
		}
		// id maps (pointers -> small integers, first seen)
		ids := map[int]int{}
		small := func(p int) int {
			if p == 0 {
				return 0
			}
			if v, ok := ids[p]; ok {
				return v
			}
			ids[p] = len(ids) + 1
			return ids[p]
		}
		var gmu sync.Mutex
		gids := map[int64]int{}
		gOf := func() int {
			gmu.Lock()
			defer gmu.Unlock()
			return gids[curGoid()]
		}
		type gateReq struct {
			g      int
			point  string
			resume chan struct{}
		}
		arrive := make(chan *gateReq)
		done := make(chan int)
		emit(&poolEv{Ev: "begin", N: *ngor, Pat: cc.pat})
		verifhook.Install(func(kind string, a []int) {
			g := gOf()
			if g == 0 {
				return
			}
			switch kind {
			case "pool.swap":
				emit(&poolEv{Ev: "swap", G: g, S: small(a[0])})
			case "pool.new":
				emit(&poolEv{Ev: "new", G: g, S: small(a[0])})
			case "pool.get":
				emit(&poolEv{Ev: "get", G: g, S: small(a[0])})
			case "pool.cas":
				emit(&poolEv{Ev: "cas", G: g, S: small(a[0]), OK: a[1]})
			case "pool.put":
				emit(&poolEv{Ev: "put", G: g, S: small(a[0])})
			case "scr.begin":
				if os.Getenv("VH_DEBUG_SCR") != "" && a[1] == 1 {
					fmt.Fprintf(os.Stderr, "SCR line=%d g=%d obj=%x\n%s\n", events+1, g, a[0], debug.Stack())
				}
				emit(&poolEv{Ev: "scr", G: g, Obj: small(a[0]), Kind: a[1]})
			}
		})
		verifhook.InstallGate(func(point string, id uintptr) {
			g := gOf()
			if g == 0 {
				return
			}
			if point != "scr" {
				// the goroutine has left whatever scratch entry it was in and stands before a pool operation
				emit(&poolEv{Ev: "at", G: g})
			}
			r := &gateReq{g, point, make(chan struct{})}
			arrive <- r
			<-r.resume
		})
		results := make([][]string, *ngor+1)
		for g := 1; g <= *ngor; g++ {
			g := g
			results[g] = make([]string, len(prog[g]))
			go func() {
				gmu.Lock()
				gids[curGoid()] = g
				gmu.Unlock()
				for k, c := range prog[g] {
					func() {
						defer func() {
							if r := recover(); r != nil {
								results[g][k] = fmt.Sprintf("panic: %v", r)
							}
						}()
						results[g][k] = concAPIs[c.api](re, c.h)
					}()
					emit(&poolEv{Ev: "end", G: g}) // still this goroutine's turn: the event is in execution order
				}
				done <- g
			}()
		}
		parked := map[int]*gateReq{}
		finished := map[int]bool{}
		waitFor := func(g int) bool { // wait until goroutine g parks again or finishes; false on deadline
			select {
			case r := <-arrive:
				parked[r.g] = r
				return true
			case d := <-done:
				finished[d] = true
				return true
			case <-time.After(20 * time.Second):
				return false
			}
		}
		hang := false
		for len(parked)+len(finished) < *ngor { // everybody parks at the first gate before anything changes
			if !waitFor(0) {
				hang = true
				break
			}
		}
		release := func(g int) bool {
			r := parked[g]
			if r == nil {
				return true
			}
			delete(parked, g)
			close(r.resume)
			return waitFor(g)
		}
		step := func(g int, search bool) bool {
			if finished[g] || parked[g] == nil {
				return true
			}
			if search {
				// run the search, but leave the goroutine parked INSIDE it, at the entry of its K-th scratch object (K rotates
				// with the schedule and the goroutine): the other goroutines' steps then really interleave with a search in
				// progress, and an object entered by two searches at once is observed as such (Trace_Pool!Scr).  The rest of
				// the search runs when the goroutine's next step is scheduled.
				k := 1 + (si+g)%4
				for n := 1; parked[g] != nil && parked[g].point == "scr" && n < k; n++ {
					if !release(g) {
						return false
					}
				}
				return true
			}
			for parked[g] != nil && parked[g].point == "scr" { // the model is past the search already
				if !release(g) {
					return false
				}
			}
			return release(g)
		}
		if synthK > 0 && !hang {
			synthRuns++
			// goroutine 1: through its pool operations to its first scratch entry, then on to the K-th
			for parked[1] != nil && parked[1].point != "scr" && !finished[1] && !hang {
				if !release(1) {
					hang = true
				}
			}
			for n := 1; n < synthK && parked[1] != nil && parked[1].point == "scr" && !hang; n++ {
				if !release(1) {
					hang = true
				}
			}
			// goroutine 2 (and any further one) runs from start to end meanwhile
			for g := 2; g <= *ngor && !hang; g++ {
				for !finished[g] && !hang {
					if parked[g] == nil {
						if !waitFor(g) {
							hang = true
						}
						continue
					}
					if !release(g) {
						hang = true
					}
				}
			}
		}
		for _, s := range sq {
			if hang {
				break
			}
			switch {
			case s == 0:
				runtime.GC()
				runtime.GC()
				emit(&poolEv{Ev: "gc"})
			case s < 0:
				if !step(-s, true) {
					hang = true
				}
			default:
				if !step(s, false) {
					hang = true
				}
			}
		}
		for !hang && len(finished) < *ngor { // drain
			progressed := false
			for g := 1; g <= *ngor; g++ {
				if parked[g] != nil {
					if !release(g) {
						hang = true
					}
					progressed = true
				}
			}
			if !progressed && len(finished) < *ngor {
				if !waitFor(0) {
					hang = true
				}
			}
		}
		verifhook.InstallGate(nil)
		verifhook.Install(nil)
		if hang {
			rep.Fail(&core.Failure{Prop: "C06", API: "schedule-replay", Mode: "first", Pattern: cc.pat, Hay: "", Args: fmt.Sprintf("schedule %d", si),
				Want: "every goroutine reaches its next gate or returns", Got: "no progress for 20s (deadlock or hang)", Scope: "pool"})
			break // goroutines may be stuck; stop replaying
		}
		for g := 1; g <= *ngor; g++ {
			for k, c := range prog[g] {
				calls++
				ok := 1
				if results[g][k] != c.exp {
					ok = 0
					rep.Fail(&core.Failure{Prop: "C06", API: "concurrent-call", Mode: "first", Pattern: cc.pat, Hay: core.Hex([]byte(c.h)),
						Args: fmt.Sprintf("schedule %d goroutine %d call %d api %d", si, g, k, c.api), Want: "sequential result " + c.exp, Got: results[g][k], Scope: "pool"})
				}
				emit(&poolEv{Ev: "ret", G: g, OK: ok})
			}
		}
		traces++
		if traces <= 3 {
			rep.Sample(map[string]any{"pattern": cc.pat, "schedule": sq, "goroutines": *ngor})
		}
	}
	w.Flush()
	rep.Add(len(concCases), traces, calls, traces, "")
	rep.Extra["events"] = events
	rep.Extra["schedules_replayed"] = traces
	rep.Extra["systematic_mid_search_runs"] = synthRuns
	rep.Extra["schedules_generated"] = len(scheds)
	if err := rep.Close(*report); err != nil {
		fatal(err)
	}
	_ = strings.TrimSpace
}
