package main

// Replay of MC_Replace (ReplaceAll*, Split) and MC_Expand (Expand, ExpandString) records: C08.

import (
	"bufio"
	"bytes"
	"encoding/json"
	"flag"
	"fmt"
	"os"
	"regexp"
	"runtime"
	"strconv"
	"strings"

	"github.com/coregx/coregex"

	"verif/harness/internal/core"
)

func toBytes(v []int) []byte {
	b := make([]byte, len(v))
	for i, x := range v {
		b[i] = byte(x)
	}
	return b
}

func runReplace(args []string) {
	fs := flag.NewFlagSet("replace", flag.ExitOnError)
	in := fs.String("in", "", "TLC output file")
	_ = fs.String("props", "C08", "")
	report := fs.String("report", "report.json", "")
	fails := fs.String("fail", "fail.ndjson", "")
	fs.Parse(args)
	f, err := os.Open(*in)
	if err != nil {
		fatal(err)
	}
	defer f.Close()
	rep, err := core.NewReport(*fails)
	if err != nil {
		fatal(err)
	}
	_, err = core.ReadRecords(f, runtime.NumCPU(), func(rec *core.Record) {
		pat := rec.Re.Pattern()
		std, err := regexp.Compile(pat)
		if err != nil {
			rep.Gap("regexp rejects printed pattern " + pat)
			return
		}
		stdL := regexp.MustCompile(pat)
		stdL.Longest()
		cg, cerr := coregex.Compile(pat)
		if cerr != nil {
			rep.Fail(&core.Failure{Prop: "C08", API: "Compile", Mode: "first", Pattern: pat, Want: "compiles", Got: cerr.Error(), Fam: rec.Fam})
			return
		}
		cgL, _ := coregex.Compile(pat)
		cgL.Longest()
		cases, calls, nontriv := 0, 0, 0
		for hi := range rec.Hs {
			h := &rec.Hs[hi]
			b := core.HayBytes(h.H)
			s := string(b)
			hx := core.Hex(b)
			cases++
			changed := false
			fail := func(api, mode, args, want, got string) {
				rep.Fail(&core.Failure{Prop: "C08", API: api, Mode: mode, Pattern: pat, Hay: hx, Args: args, Want: want, Got: got, Fam: rec.Fam})
			}
			guard := func(api, mode, args string, fn func()) {
				defer func() {
					if r := recover(); r != nil {
						fail(api, mode, args, "no panic", fmt.Sprintf("panic: %v", r))
					}
				}()
				calls++
				fn()
			}
			for _, r := range h.Rep {
				t := toBytes(r.T)
				want := toBytes(r.Out)
				if !bytes.Equal(want, b) {
					changed = true
				}
				re, sre, mode := cg, std, "first"
				if r.Mode {
					re, sre, mode = cgL, stdL, "longest"
				}
				args := r.Kind + ":" + strconv.Quote(string(t))
				bsrc := append([]byte(nil), b...)
				switch r.Kind {
				case "tmpl":
					if g := sre.ReplaceAll(b, t); !bytes.Equal(g, want) {
						rep.Gap(fmt.Sprintf("ReplaceAll %s on %x tmpl %q: spec %q regexp %q", pat, b, t, want, g))
						continue
					}
					guard("ReplaceAll", mode, args, func() {
						got := re.ReplaceAll(bsrc, t)
						if !bytes.Equal(got, want) {
							fail("ReplaceAll", mode, args, strconv.Quote(string(want)), strconv.Quote(string(got)))
						} else if len(got) > 0 && len(bsrc) > 0 && &got[0] == &bsrc[0] {
							fail("ReplaceAll", mode, args, "a fresh copy", "result aliases src")
						}
					})
					guard("ReplaceAllString", mode, args, func() {
						if got := re.ReplaceAllString(s, string(t)); got != string(want) {
							fail("ReplaceAllString", mode, args, strconv.Quote(string(want)), strconv.Quote(got))
						}
					})
				case "lit":
					if g := sre.ReplaceAllLiteral(b, t); !bytes.Equal(g, want) {
						rep.Gap(fmt.Sprintf("ReplaceAllLiteral %s on %x: spec %q regexp %q", pat, b, want, g))
						continue
					}
					guard("ReplaceAllLiteral", mode, args, func() {
						got := re.ReplaceAllLiteral(bsrc, t)
						if !bytes.Equal(got, want) {
							fail("ReplaceAllLiteral", mode, args, strconv.Quote(string(want)), strconv.Quote(string(got)))
						} else if len(got) > 0 && len(bsrc) > 0 && &got[0] == &bsrc[0] {
							fail("ReplaceAllLiteral", mode, args, "a fresh copy", "result aliases src")
						}
					})
					guard("ReplaceAllLiteralString", mode, args, func() {
						if got := re.ReplaceAllLiteralString(s, string(t)); got != string(want) {
							fail("ReplaceAllLiteralString", mode, args, strconv.Quote(string(want)), strconv.Quote(got))
						}
					})
				case "fn":
					fb := func(m []byte) []byte { return append(append([]byte("<"), m...), '>') }
					fstr := func(m string) string { return "<" + m + ">" }
					if g := sre.ReplaceAllFunc(b, fb); !bytes.Equal(g, want) {
						rep.Gap(fmt.Sprintf("ReplaceAllFunc %s on %x: spec %q regexp %q", pat, b, want, g))
						continue
					}
					guard("ReplaceAllFunc", mode, args, func() {
						if got := re.ReplaceAllFunc(bsrc, fb); !bytes.Equal(got, want) {
							fail("ReplaceAllFunc", mode, args, strconv.Quote(string(want)), strconv.Quote(string(got)))
						}
					})
					guard("ReplaceAllStringFunc", mode, args, func() {
						if got := re.ReplaceAllStringFunc(s, fstr); got != string(want) {
							fail("ReplaceAllStringFunc", mode, args, strconv.Quote(string(want)), strconv.Quote(got))
						}
					})
				}
				if !bytes.Equal(bsrc, b) {
					fail("Replace*", mode, args, "src unchanged", "src modified")
				}
			}
			for _, sp := range h.Split {
				var want []string
				isNil := false
				var tag string
				if json.Unmarshal(sp.Out, &tag) == nil {
					isNil = true
				} else {
					var pieces [][]int
					if err := json.Unmarshal(sp.Out, &pieces); err != nil {
						rep.Machinery("split record: " + err.Error())
						continue
					}
					want = make([]string, len(pieces))
					for i, p := range pieces {
						want[i] = s[p[0]:p[1]]
					}
				}
				g := std.Split(s, sp.N)
				if (g == nil) != isNil || !eqStrs(g, want) {
					rep.Gap(fmt.Sprintf("Split %s on %x n=%d: spec %q regexp %q", pat, b, sp.N, want, g))
					continue
				}
				args := fmt.Sprintf("n=%d", sp.N)
				guard("Split", "first", args, func() {
					got := cg.Split(s, sp.N)
					if (got == nil) != isNil || !eqStrs(got, want) {
						fail("Split", "first", args, fmt.Sprintf("%q", want), fmt.Sprintf("%q nil=%v", got, got == nil))
					}
				})
			}
			if changed {
				nontriv++
			}
		}
		rep.Add(1, cases, calls, nontriv, "")
		if rec.I%53 == 1 && len(rec.Hs) > 0 {
			h := rec.Hs[len(rec.Hs)-1]
			rep.Sample(map[string]any{"pattern": pat, "haystack_hex": core.Hex(core.HayBytes(h.H)), "replace": h.Rep, "split": h.Split})
		}
	})
	if err != nil {
		rep.Machinery(err.Error())
	}
	if err2 := rep.Close(*report); err2 != nil {
		fatal(err2)
	}
	if err != nil {
		fatal(err)
	}
}

func eqStrs(a, b []string) bool {
	if len(a) != len(b) {
		return false
	}
	for i := range a {
		if a[i] != b[i] {
			return false
		}
	}
	return true
}

// ---- Expand ----

type expandHeader struct {
	Sym  []core.Symbol `json:"sym"`
	Src  []int         `json:"src"`
	Envs []struct {
		M     []int   `json:"m"`
		Names [][]int `json:"names"`
	} `json:"envs"`
}

type expandRec struct {
	I    int     `json:"i"`
	T    []int   `json:"t"`
	Outs [][]int `json:"outs"`
}

func runExpand(args []string) {
	fs := flag.NewFlagSet("expand", flag.ExitOnError)
	in := fs.String("in", "", "TLC output file")
	_ = fs.String("props", "C08", "")
	report := fs.String("report", "report.json", "")
	fails := fs.String("fail", "fail.ndjson", "")
	fs.Parse(args)
	f, err := os.Open(*in)
	if err != nil {
		fatal(err)
	}
	defer f.Close()
	rep, err := core.NewReport(*fails)
	if err != nil {
		fatal(err)
	}
	var hdr *expandHeader
	var recs []expandRec
	sc := bufio.NewScanner(f)
	sc.Buffer(make([]byte, 1<<20), 1<<26)
	for sc.Scan() {
		line := sc.Text()
		if !strings.HasPrefix(line, `"`) {
			continue
		}
		s, err := strconv.Unquote(line)
		if err != nil {
			fatal(err)
		}
		if strings.Contains(s, `"sym"`) {
			hdr = new(expandHeader)
			if err := json.Unmarshal([]byte(s), hdr); err != nil {
				fatal(err)
			}
			core.Syms = hdr.Sym
			continue
		}
		var r expandRec
		if err := json.Unmarshal([]byte(s), &r); err != nil {
			fatal(err)
		}
		recs = append(recs, r)
	}
	if hdr == nil {
		fatal(fmt.Errorf("no header in expand output"))
	}
	src := core.HayBytes(hdr.Src)
	type env struct {
		std *regexp.Regexp
		cg  *coregex.Regex
		m   []int
		pat string
	}
	var envs []env
	for _, e := range hdr.Envs {
		var sb strings.Builder
		for _, nm := range e.Names[1:] {
			if len(nm) == 0 {
				sb.WriteString("()")
			} else {
				sb.WriteString("(?P<" + string(toBytes(nm)) + ">)")
			}
		}
		pat := sb.String()
		if pat == "" {
			pat = "(?:)"
		}
		cg, cerr := coregex.Compile(pat)
		if cerr != nil {
			rep.Fail(&core.Failure{Prop: "C08", API: "Compile", Mode: "first", Pattern: pat, Want: "compiles", Got: cerr.Error()})
			continue
		}
		envs = append(envs, env{regexp.MustCompile(pat), cg, e.M, pat})
	}
	calls, nontriv := 0, 0
	for _, r := range recs {
		t := toBytes(r.T)
		for ei, e := range envs {
			want := toBytes(r.Outs[ei])
			prefix := []byte("pre:")
			g := e.std.Expand(append([]byte(nil), prefix...), t, src, e.m)
			if !bytes.Equal(g, append(append([]byte(nil), prefix...), want...)) {
				rep.Gap(fmt.Sprintf("Expand %q env %d: spec %q regexp %q", t, ei, want, g))
				continue
			}
			if !bytes.Equal(want, t) {
				nontriv++
			}
			args := fmt.Sprintf("env=%d:%s", ei, strconv.Quote(string(t)))
			for _, api := range []string{"Expand", "ExpandString"} {
				calls++
				func() {
					defer func() {
						if p := recover(); p != nil {
							rep.Fail(&core.Failure{Prop: "C08", API: api, Mode: "first", Pattern: e.pat, Hay: core.Hex(src), Args: args, Want: "no panic", Got: fmt.Sprint(p)})
						}
					}()
					var got []byte
					if api == "Expand" {
						got = e.cg.Expand(append([]byte(nil), prefix...), t, src, e.m)
					} else {
						got = e.cg.ExpandString(append([]byte(nil), prefix...), string(t), string(src), e.m)
					}
					if !bytes.Equal(got, g) {
						rep.Fail(&core.Failure{Prop: "C08", API: api, Mode: "first", Pattern: e.pat, Hay: core.Hex(src), Args: args,
							Want: strconv.Quote(string(g)), Got: strconv.Quote(string(got))})
					}
				}()
			}
		}
		if r.I%401 == 1 {
			rep.Sample(map[string]any{"template": string(t), "outs": r.Outs})
		}
	}
	rep.Add(len(recs), len(recs)*len(envs), calls, nontriv, "")
	if err2 := rep.Close(*report); err2 != nil {
		fatal(err2)
	}
}
