package main

// C19 (reverse-suffix searcher), model side = spec/ReverseSuffix.tla through MC_ReverseSuffix: per pattern A.L the suffix
// literal L, the `.*L` flag and, per haystack, what the MODEL of the driver (candidate order, anti-quadratic guard, rescan,
// `.*L` shortcut; exact automata) answers for FindAt at every symbol position, Find and IsMatch, next to the reference.
//
//   1. three-way: the reference column is confirmed by regexp first (a difference is a spec gap, the haystack is skipped)
//   2. the VERDICT (a C19 failure): the pattern's own strategy is UseReverseSuffix and the engine's answer
//      (Engine.FindIndicesAt / FindIndices / IsMatch) differs from the reference
//   3. conformance of the model with the code, counted, never a verdict on its own: the real searcher is constructed the way
//      meta.buildReverseSearchers does (same NFA compiler settings, the model's suffix, the model's `.*L` flag) and driven
//      through FindIndicesAt / Find / IsMatch; "model=code" / "model!=code" are counted per call, and the cases where the model
//      driver itself leaves the reference (rbad) are counted with the code's behaviour on them ("predicted, reproduced").

import (
	"flag"
	"fmt"
	"os"
	"regexp"
	"regexp/syntax"
	"runtime"
	"strings"

	"github.com/coregx/coregex"

	"github.com/coregx/coregex/dfa/lazy"
	"github.com/coregx/coregex/literal"
	"github.com/coregx/coregex/meta"
	"github.com/coregx/coregex/nfa"

	"verif/harness/internal/core"
)

// the two reverse searchers share their entry points
type directSearcher interface {
	FindIndicesAt(haystack []byte, at int) (int, int, bool)
	Find(haystack []byte) *meta.Match
	IsMatch(haystack []byte) bool
}

func runRevSuffix(args []string) {
	fs := flag.NewFlagSet("revsuffix", flag.ExitOnError)
	in := fs.String("in", "", "TLC output (MC_ReverseSuffix)")
	props := fs.String("props", "C19", "C19: engine vs reference at every offset + model conformance; C01 / C02 / C04: the public API on the same records")
	report := fs.String("report", "report.json", "")
	fails := fs.String("fail", "fail.ndjson", "")
	fs.Parse(args)
	f, err := os.Open(*in)
	if err != nil {
		fatal(err)
	}
	defer f.Close()
	rep, err := core.NewReport(*fails)
	if err != nil {
		fatal(err)
	}
	pair := func(s, e int, ok bool) []int {
		if !ok {
			return []int{}
		}
		return []int{s, e}
	}
	_, err = core.ReadRecords(f, runtime.NumCPU(), func(rec *core.Record) {
		inner := rec.RIP != nil && rec.RIQ != nil && rec.RII != nil
		set := rec.SSL != nil && rec.MSZ != nil
		ml := rec.MLS != nil
		if !inner && !set && !ml && (rec.RSS == nil || rec.MSZ == nil) {
			return
		}
		wantStrat, tag := "UseReverseSuffix", "revsuffix"
		if inner {
			wantStrat, tag = "UseReverseInner", "revinner"
		}
		if set {
			wantStrat, tag = "UseReverseSuffixSet", "revsuffixset"
		}
		if ml {
			wantStrat, tag = "UseMultilineReverseSuffix", "revsuffixml"
		}
		pat := rec.Re.Pattern()
		std, err := regexp.Compile(pat)
		if err != nil {
			rep.Gap("regexp rejects " + pat)
			return
		}
		eng, cerr := meta.Compile(pat)
		if cerr != nil {
			rep.Gap("coregex rejects " + pat)
			return
		}
		strat := eng.Strategy().String()
		lits := rec.RSS
		if inner {
			lits = rec.RII
		}
		if ml {
			lits = rec.MLS
		}
		suffix := make([]byte, len(lits))
		for i, x := range lits {
			suffix[i] = byte(x)
		}
		// the searcher on its own, built like meta.buildReverseSearchers builds it
		var direct directSearcher
		if re, perr := syntax.Parse(pat, syntax.Perl); perr == nil {
			comp := nfa.NewCompiler(nfa.CompilerConfig{UTF8: true, Anchored: false, DotNewline: false, MaxRecursionDepth: 100})
			if n, nerr := comp.CompileRegexp(re); nerr == nil {
				if ml {
					if x, err := meta.NewMultilineReverseSuffixSearcher(n, literal.NewSeq(literal.NewLiteral(suffix, true)), lazy.DefaultConfig()); err == nil {
						if len(rec.MLP) > 0 {
							pb := make([]byte, len(rec.MLP))
							for i, v := range rec.MLP {
								pb[i] = byte(v)
							}
							x.SetPrefixLiterals(literal.NewSeq(literal.NewLiteral(pb, false)))
						}
						direct = x
					}
				} else if set {
					var ls []literal.Literal
					for _, l := range rec.SSL {
						bb := make([]byte, len(l))
						for i, x := range l {
							bb[i] = byte(x)
						}
						ls = append(ls, literal.NewLiteral(bb, true))
					}
					if x, err := meta.NewReverseSuffixSetSearcher(n, literal.NewSeq(ls...), lazy.DefaultConfig(), *rec.MSZ); err == nil {
						direct = x
					}
				} else if inner {
					pre, e1 := syntax.Parse(rec.RIP.Pattern(), syntax.Perl)
					suf, e2 := syntax.Parse(rec.RIQ.Pattern(), syntax.Perl)
					if e1 == nil && e2 == nil {
						info := &literal.InnerLiteralInfo{Literals: literal.NewSeq(literal.NewLiteral(suffix, true)), InnerIdx: 1, PrefixAST: pre, SuffixAST: suf}
						if x, err := meta.NewReverseInnerSearcher(n, info, lazy.DefaultConfig()); err == nil {
							direct = x
						}
					}
				} else if x, err := meta.NewReverseSuffixSearcher(n, literal.NewSeq(literal.NewLiteral(suffix, true)), lazy.DefaultConfig(), *rec.MSZ); err == nil {
					direct = x
				}
			}
		}
		rep.API(tag+":strategy="+strat, 1)
		want := map[string]bool{}
		for _, p := range strings.Split(*props, ",") {
			want[p] = true
		}
		var pub *coregex.Regex
		if want["C01"] || want["C02"] || want["C04"] {
			pub, _ = coregex.Compile(pat)
		}
		if !want["C19"] {
			direct = nil
		}
		calls, cases, nontriv := 0, 0, 0
		var hx string
		guard := func(api string, fn func()) {
			defer func() {
				if r := recover(); r != nil {
					rep.Fail(&core.Failure{Prop: "C19", API: api, Mode: "first", Pattern: pat, Hay: hx, Want: "no panic", Got: fmt.Sprintf("panic: %v", r), Strat: strat, Fam: rec.Fam})
				}
			}()
			calls++
			fn()
		}
		for hi := range rec.Hs {
			h := &rec.Hs[hi]
			if h.AtF == nil || h.RFA == nil {
				continue
			}
			b := core.HayBytes(h.H)
			hx = core.Hex(b)
			offs := core.Offsets(h.H)
			// three-way: the reference first
			gap := false
			// (the family has no look-behind assertion, so a search from `at` is a search in h[at:])
			for p := range h.AtF {
				if ml && p > 0 && b[offs[p]-1] != '\n' {
					continue // (?m)^ looks behind: regexp can only confirm the offsets that begin a line
				}
				w := []int{}
				if loc := std.FindIndex(b[offs[p]:]); loc != nil {
					w = []int{loc[0] + offs[p], loc[1] + offs[p]}
				}
				if !eqInts(w, h.AtF[p]) {
					gap = true
				}
			}
			if gap {
				rep.Gap(fmt.Sprintf("%s on %x", pat, b))
				continue
			}
			cases++
			if h.RBad || len(h.AtF[0]) > 0 {
				nontriv++
			}
			// the verdict: the engine, when the selector itself picked this searcher
			// the public API on the same records (every strategy): Match, FindIndex, FindAllIndex = the chain of per-offset matches
			// (no match of these families is empty, so regexp.allMatches is: next search starts where the last match ended)
			if pub != nil {
				pf := func(prop, api, w, g string) {
					rep.Fail(&core.Failure{Prop: prop, API: api, Mode: "first", Pattern: pat, Hay: hx, Want: w, Got: g, Strat: strat, Fam: rec.Fam})
				}
				if want["C01"] {
					guard("Match", func() {
						if got := pub.Match(b); got != (len(h.AtF[0]) > 0) {
							pf("C01", "Match", fmt.Sprint(len(h.AtF[0]) > 0), fmt.Sprint(got))
						}
					})
				}
				if want["C02"] {
					guard("FindIndex", func() {
						got := pub.FindIndex(b)
						if got == nil {
							got = []int{}
						}
						if !eqInts(got, h.AtF[0]) {
							pf("C02", "FindIndex", fmt.Sprint(h.AtF[0]), fmt.Sprint(got))
						}
					})
				}
				if want["C04"] {
					var chain [][]int
					for p := 0; p < len(h.AtF) && len(h.AtF[p]) == 2; {
						m := h.AtF[p]
						chain = append(chain, m)
						np := p
						for np < len(offs) && offs[np] < m[1] {
							np++
						}
						if np <= p || np >= len(h.AtF) {
							break
						}
						p = np
					}
					if stdAll := std.FindAllIndex(b, -1); !eqAll(stdAll, chain) {
						rep.Gap(fmt.Sprintf("FindAll chain of %s on %x", pat, b))
					} else {
						guard("FindAllIndex", func() {
							if got := pub.FindAllIndex(b, -1); !eqAll(got, chain) {
								pf("C04", "FindAllIndex", fmt.Sprint(chain), fmt.Sprint(got))
							}
						})
						guard("Count", func() {
							if got := pub.Count(b, -1); got != len(chain) {
								pf("C04", "Count", fmt.Sprint(len(chain)), fmt.Sprint(got))
							}
						})
					}
				}
			}
			if strat == wantStrat && want["C19"] {
				for p := range h.AtF {
					at := offs[p]
					guard("Engine.FindIndicesAt", func() {
						s, e, ok := eng.FindIndicesAt(b, at)
						if got := pair(s, e, ok); !eqInts(got, h.AtF[p]) {
							rep.Fail(&core.Failure{Prop: "C19", API: "Engine.FindIndicesAt", Mode: "first", Pattern: pat, Hay: hx, Args: fmt.Sprintf("at=%d", at),
								Want: fmt.Sprint(h.AtF[p]), Got: fmt.Sprint(got), Strat: strat, Fam: rec.Fam})
						}
					})
				}
				guard("Engine.FindIndices", func() {
					s, e, ok := eng.FindIndices(b)
					if got := pair(s, e, ok); !eqInts(got, h.AtF[0]) {
						rep.Fail(&core.Failure{Prop: "C19", API: "Engine.FindIndices", Mode: "first", Pattern: pat, Hay: hx,
							Want: fmt.Sprint(h.AtF[0]), Got: fmt.Sprint(got), Strat: strat, Fam: rec.Fam})
					}
				})
				guard("Engine.IsMatch", func() {
					if got := eng.IsMatch(b); got != (len(h.AtF[0]) > 0) {
						rep.Fail(&core.Failure{Prop: "C19", API: "Engine.IsMatch", Mode: "first", Pattern: pat, Hay: hx,
							Want: fmt.Sprint(len(h.AtF[0]) > 0), Got: fmt.Sprint(got), Strat: strat, Fam: rec.Fam})
					}
				})
			}
			// conformance of the model driver with the real driver (counted)
			if direct != nil {
				agree := true
				for p := range h.RFA {
					at := offs[p]
					guard("ReverseSearcher.FindIndicesAt", func() {
						s, e, ok := direct.FindIndicesAt(b, at)
						if !eqInts(pair(s, e, ok), h.RFA[p]) {
							agree = false
						}
					})
				}
				guard("ReverseSearcher.Find", func() {
					m := direct.Find(b)
					got := []int{}
					if m != nil {
						got = []int{m.Start(), m.End()}
					}
					if !eqInts(got, h.RF) {
						agree = false
					}
				})
				guard("ReverseSearcher.IsMatch", func() {
					if h.RIM != nil && direct.IsMatch(b) != *h.RIM {
						agree = false
					}
				})
				switch {
				case agree && h.RBad:
					rep.API(tag+":model leaves the reference, code does the same (predicted, reproduced)", 1)
				case agree:
					rep.API(tag+":model=code", 1)
				case h.RBad:
					rep.API(tag+":model leaves the reference, code differs from the model", 1)
				default:
					rep.API(tag+":model!=code", 1)
					rep.Sample(map[string]any{"model_differs_from_code": true, "pattern": pat, "strategy": strat, "haystack_hex": hx, "model_FindAt": h.RFA,
						"model_Find": h.RF, "model_IsMatch": h.RIM, "reference": h.AtF})
				}
			}
		}
		// C04, auxiliary inputs (regexp is the arbiter, as for the pumped inputs of the search checks): a haystack the pattern matches
		// WHOLE followed by another haystack of the record - the enumeration resumes exactly where a candidate, a guard and a
		// rescan of the reverse searchers meet (a false candidate at the resume position, a real one behind it).
		if pub != nil && want["C04"] {
			var words [][]byte
			for hi := range rec.Hs {
				h := &rec.Hs[hi]
				b := core.HayBytes(h.H)
				if len(h.AtF) > 0 && len(h.AtF[0]) == 2 && h.AtF[0][0] == 0 && h.AtF[0][1] == len(b) && len(b) > 0 {
					words = append(words, b)
					if len(words) >= 12 {
						break
					}
				}
			}
			for _, w := range words {
				for hi := 0; hi < len(rec.Hs); hi += 5 {
					b := append(append([]byte{}, w...), core.HayBytes(rec.Hs[hi].H)...)
					hx = core.Hex(b)
					wantAll := std.FindAllIndex(b, -1)
					cases++
					guard("FindAllIndex", func() {
						if got := pub.FindAllIndex(b, -1); !eqAll(got, wantAll) {
							rep.Fail(&core.Failure{Prop: "C04", API: "FindAllIndex", Mode: "first", Pattern: pat, Hay: hx, Want: fmt.Sprint(wantAll), Got: fmt.Sprint(got),
								Strat: strat, Fam: rec.Fam, Args: "word+haystack"})
						}
					})
				}
			}
		}
		rep.Add(1, cases, calls, nontriv, strat)
		if len(rec.Hs) > 0 {
			rep.Sample(map[string]any{"pattern": pat, "suffix": string(suffix), "driver": tag, "strategy": strat,
				"haystack_hex": core.Hex(core.HayBytes(rec.Hs[len(rec.Hs)-1].H)), "model_FindAt": rec.Hs[len(rec.Hs)-1].RFA, "reference": rec.Hs[len(rec.Hs)-1].AtF})
		}
	})
	if err != nil {
		fatal(err)
	}
	if err := rep.Close(*report); err != nil {
		fatal(err)
	}
}
