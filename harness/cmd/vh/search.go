package main

// Replay of MC_Search records: the reference's FindAllSubmatchIndex(-1) (leftmost-first and
// leftmost-longest) for every haystack of every pattern, against every exported search and
// enumeration API of coregex.  Three-way rule: the reference value is first confirmed
// against package regexp; a disagreement there is a spec gap (counted, skipped), never a
// violation.  C11 is oracle-free: only the implementation's own results are related.

import (
	"bytes"
	"flag"
	"fmt"
	"os"
	"regexp"
	"runtime"
	"strings"
	"syscall"
	"time"

	"github.com/coregx/coregex"
	"github.com/coregx/coregex/meta"

	"verif/harness/internal/core"
)

var limits = []int{-1, 0, 1, 2, 3}

type sctx struct {
	rep   *core.Report
	props map[string]bool
	pat   string
	fam   string
	strat string
	mode  string // first | longest | posix
	cg    *coregex.Regex
	eng   *meta.Engine
	nc    int
	b     []byte
	s     string
	hx    string
	scope string // "" or "long"
	as    string // attribute failures to this property (C10 re-uses the C01-C04 comparisons in longest mode)
}

func (c *sctx) fail(prop, api, args, want, got string) {
	if c.as != "" {
		prop = c.as
	}
	c.rep.Fail(&core.Failure{Prop: prop, API: api, Mode: c.mode, Pattern: c.pat, Hay: c.hx, Args: args,
		Want: want, Got: got, Strat: c.strat, Fam: c.fam, Scope: c.scope})
}

// guard runs fn and converts a panic into a failure of prop.
func (c *sctx) guard(prop, api, args string, fn func()) {
	defer func() {
		if r := recover(); r != nil {
			c.fail(prop, api, args, "no panic", fmt.Sprintf("panic: %v", r))
		}
	}()
	fn()
}

// threadCPU returns the CPU time consumed so far by the calling OS thread (the goroutine must be locked to it).
func threadCPU() time.Duration {
	var ru syscall.Rusage
	if err := syscall.Getrusage(1 /* RUSAGE_THREAD */, &ru); err != nil {
		return 0
	}
	return time.Duration(ru.Utime.Nano() + ru.Stime.Nano())
}

func contentHash(b []byte) int {
	h := len(b)
	for _, x := range b {
		h = h*31 + int(x)
	}
	if h < 0 {
		h = -h
	}
	return h
}

func eqInts(a, b []int) bool {
	if len(a) != len(b) {
		return false
	}
	for i := range a {
		if a[i] != b[i] {
			return false
		}
	}
	return true
}

func eqAll(a, b [][]int) bool {
	if len(a) != len(b) {
		return false
	}
	for i := range a {
		if !eqInts(a[i], b[i]) {
			return false
		}
	}
	return true
}

func spans(a [][]int) [][]int {
	r := make([][]int, len(a))
	for i := range a {
		r[i] = a[i][:2]
	}
	return r
}

func takeN(a [][]int, n int) [][]int {
	if n < 0 || n >= len(a) {
		return a
	}
	return a[:n]
}

func pairs(a [][2]int) [][]int {
	r := make([][]int, len(a))
	for i := range a {
		r[i] = []int{a[i][0], a[i][1]}
	}
	return r
}

// ---- C01 ----
func (c *sctx) c01(want bool, idx int) int {
	n := 0
	chk := func(api string, f func() bool) {
		n++
		c.guard("C01", api, "", func() {
			if got := f(); got != want {
				c.fail("C01", api, "", fmt.Sprint(want), fmt.Sprint(got))
			}
		})
	}
	chk("Match", func() bool { return c.cg.Match(c.b) })
	chk("MatchString", func() bool { return c.cg.MatchString(c.s) })
	chk("MatchReader", func() bool { return c.cg.MatchReader(bytes.NewReader(c.b)) })
	if c.mode == "first" {
		chk("Engine.IsMatch", func() bool { return c.eng.IsMatch(c.b) })
		if contentHash(c.b)%17 == 3 { // the package-level functions recompile: exercised on a fixed (content-defined) subset
			chk("pkg.Match", func() bool { m, err := coregex.Match(c.pat, c.b); return m && err == nil })
			chk("pkg.MatchString", func() bool { m, err := coregex.MatchString(c.pat, c.s); return m && err == nil })
			chk("pkg.MatchReader", func() bool {
				m, err := coregex.MatchReader(c.pat, strings.NewReader(c.s))
				return m && err == nil
			})
		}
	}
	return n
}

// ---- C02 ----
func (c *sctx) c02(want []int) int { // want: nil or [s,e]
	n := 0
	idx := func(api string, f func() []int) {
		n++
		c.guard("C02", api, "", func() {
			got := f()
			if (got == nil) != (want == nil) || !eqInts(got, want) {
				c.fail("C02", api, "", core.IntsStr(want), core.IntsStr(got))
			}
		})
	}
	idx("FindIndex", func() []int { return c.cg.FindIndex(c.b) })
	idx("FindStringIndex", func() []int { return c.cg.FindStringIndex(c.s) })
	idx("FindReaderIndex", func() []int { return c.cg.FindReaderIndex(bytes.NewReader(c.b)) })
	n++
	c.guard("C02", "Find", "", func() {
		got := c.cg.Find(c.b)
		if want == nil {
			if got != nil {
				c.fail("C02", "Find", "", "nil", fmt.Sprintf("%q", got))
			}
		} else if got == nil || !bytes.Equal(got, c.b[want[0]:want[1]]) {
			c.fail("C02", "Find", "", fmt.Sprintf("%q", c.b[want[0]:want[1]]), fmt.Sprintf("%q nil=%v", got, got == nil))
		}
	})
	n++
	c.guard("C02", "FindString", "", func() {
		got := c.cg.FindString(c.s)
		w := ""
		if want != nil {
			w = c.s[want[0]:want[1]]
		}
		if got != w {
			c.fail("C02", "FindString", "", fmt.Sprintf("%q", w), fmt.Sprintf("%q", got))
		}
	})
	if c.mode == "first" {
		idx("Engine.FindIndices", func() []int {
			s, e, ok := c.eng.FindIndices(c.b)
			if !ok {
				return nil
			}
			return []int{s, e}
		})
		idx("Engine.Find", func() []int {
			m := c.eng.Find(c.b)
			if m == nil {
				return nil
			}
			return []int{m.Start(), m.End()}
		})
	}
	return n
}

// ---- C03 ----
func (c *sctx) c03(want []int) int { // want: nil or slots
	n := 0
	idx := func(api string, f func() []int) {
		n++
		c.guard("C03", api, "", func() {
			got := f()
			if (got == nil) != (want == nil) || !eqInts(got, want) {
				c.fail("C03", api, "", core.IntsStr(want), core.IntsStr(got))
			}
		})
	}
	idx("FindSubmatchIndex", func() []int { return c.cg.FindSubmatchIndex(c.b) })
	idx("FindStringSubmatchIndex", func() []int { return c.cg.FindStringSubmatchIndex(c.s) })
	idx("FindReaderSubmatchIndex", func() []int { return c.cg.FindReaderSubmatchIndex(bytes.NewReader(c.b)) })
	n++
	c.guard("C03", "FindSubmatch", "", func() {
		got := c.cg.FindSubmatch(c.b)
		if msg := cmpGroupsB(got, want, c.b); msg != "" {
			c.fail("C03", "FindSubmatch", "", core.IntsStr(want), msg)
		}
	})
	n++
	c.guard("C03", "FindStringSubmatch", "", func() {
		got := c.cg.FindStringSubmatch(c.s)
		if msg := cmpGroupsS(got, want, c.s); msg != "" {
			c.fail("C03", "FindStringSubmatch", "", core.IntsStr(want), msg)
		}
	})
	if c.mode == "first" {
		idx("Engine.FindSubmatch", func() []int {
			m := c.eng.FindSubmatch(c.b)
			if m == nil {
				return nil
			}
			if m.NumCaptures() != c.nc+1 {
				return []int{-99, m.NumCaptures()}
			}
			var r []int
			for g := 0; g <= c.nc; g++ {
				gi := m.GroupIndex(g)
				if gi == nil {
					r = append(r, -1, -1)
				} else {
					r = append(r, gi[0], gi[1])
				}
			}
			return r
		})
	}
	return n
}

func cmpGroupsB(got [][]byte, want []int, b []byte) string {
	if want == nil {
		if got != nil {
			return fmt.Sprintf("%q", got)
		}
		return ""
	}
	if len(got) != len(want)/2 {
		return fmt.Sprintf("len %d: %q", len(got), got)
	}
	for g := range got {
		s, e := want[2*g], want[2*g+1]
		if s < 0 {
			if got[g] != nil {
				return fmt.Sprintf("group %d: %q, want nil", g, got[g])
			}
		} else if got[g] == nil || !bytes.Equal(got[g], b[s:e]) {
			return fmt.Sprintf("group %d: %q (nil=%v)", g, got[g], got[g] == nil)
		}
	}
	return ""
}

func cmpGroupsS(got []string, want []int, s string) string {
	if want == nil {
		if got != nil {
			return fmt.Sprintf("%q", got)
		}
		return ""
	}
	if len(got) != len(want)/2 {
		return fmt.Sprintf("len %d: %q", len(got), got)
	}
	for g := range got {
		a, e := want[2*g], want[2*g+1]
		w := ""
		if a >= 0 {
			w = s[a:e]
		}
		if got[g] != w {
			return fmt.Sprintf("group %d: %q", g, got[g])
		}
	}
	return ""
}

// ---- C04 ----
func (c *sctx) c04(all [][]int) int {
	n := 0
	sp := spans(all)
	for _, lim := range limits {
		args := fmt.Sprintf("n=%d", lim)
		want := takeN(all, lim)
		wsp := takeN(sp, lim)
		seq := func(api string, w [][]int, f func() [][]int) {
			n++
			c.guard("C04", api, args, func() {
				if got := f(); !eqAll(got, w) {
					c.fail("C04", api, args, fmt.Sprint(w), fmt.Sprint(got))
				}
			})
		}
		seq("FindAllSubmatchIndex", want, func() [][]int { return c.cg.FindAllSubmatchIndex(c.b, lim) })
		seq("FindAllStringSubmatchIndex", want, func() [][]int { return c.cg.FindAllStringSubmatchIndex(c.s, lim) })
		seq("FindAllIndex", wsp, func() [][]int { return c.cg.FindAllIndex(c.b, lim) })
		seq("FindAllStringIndex", wsp, func() [][]int { return c.cg.FindAllStringIndex(c.s, lim) })
		seq("AppendAllIndex", append([][]int{{7, 7}}, wsp...), func() [][]int {
			return pairs(c.cg.AppendAllIndex([][2]int{{7, 7}}, c.b, lim))
		})
		seq("AppendAllStringIndex", append([][]int{{7, 7}, {8, 9}}, wsp...), func() [][]int {
			return pairs(c.cg.AppendAllStringIndex([][2]int{{7, 7}, {8, 9}}, c.s, lim))
		})
		n++
		c.guard("C04", "FindAll", args, func() {
			got := c.cg.FindAll(c.b, lim)
			ok := len(got) == len(wsp)
			for i := 0; ok && i < len(got); i++ {
				ok = bytes.Equal(got[i], c.b[wsp[i][0]:wsp[i][1]])
			}
			if !ok {
				c.fail("C04", "FindAll", args, fmt.Sprint(wsp), fmt.Sprintf("%q", got))
			}
		})
		n++
		c.guard("C04", "FindAllString", args, func() {
			got := c.cg.FindAllString(c.s, lim)
			ok := len(got) == len(wsp)
			for i := 0; ok && i < len(got); i++ {
				ok = got[i] == c.s[wsp[i][0]:wsp[i][1]]
			}
			if !ok {
				c.fail("C04", "FindAllString", args, fmt.Sprint(wsp), fmt.Sprintf("%q", got))
			}
		})
		n++
		c.guard("C04", "FindAllSubmatch", args, func() {
			got := c.cg.FindAllSubmatch(c.b, lim)
			if len(got) != len(want) {
				c.fail("C04", "FindAllSubmatch", args, fmt.Sprint(want), fmt.Sprintf("%q", got))
				return
			}
			for i := range got {
				if msg := cmpGroupsB(got[i], want[i], c.b); msg != "" {
					c.fail("C04", "FindAllSubmatch", args, fmt.Sprint(want), fmt.Sprintf("match %d: %s", i, msg))
					return
				}
			}
		})
		n++
		c.guard("C04", "FindAllStringSubmatch", args, func() {
			got := c.cg.FindAllStringSubmatch(c.s, lim)
			if len(got) != len(want) {
				c.fail("C04", "FindAllStringSubmatch", args, fmt.Sprint(want), fmt.Sprintf("%q", got))
				return
			}
			for i := range got {
				if msg := cmpGroupsS(got[i], want[i], c.s); msg != "" {
					c.fail("C04", "FindAllStringSubmatch", args, fmt.Sprint(want), fmt.Sprintf("match %d: %s", i, msg))
					return
				}
			}
		})
		cnt := func(api string, f func() int) {
			n++
			c.guard("C04", api, args, func() {
				if got := f(); got != len(want) {
					c.fail("C04", api, args, fmt.Sprint(len(want)), fmt.Sprint(got))
				}
			})
		}
		cnt("Count", func() int { return c.cg.Count(c.b, lim) })
		cnt("CountString", func() int { return c.cg.CountString(c.s, lim) })
		if c.mode == "first" && lim != 0 { // the engine-level API documents n <= 0 as "all"
			cnt("Engine.Count", func() int { return c.eng.Count(c.b, lim) })
			seq("Engine.FindAllIndicesStreaming", wsp, func() [][]int {
				return pairs(c.eng.FindAllIndicesStreaming(c.b, lim, nil))
			})
			seq("Engine.FindAllSubmatch", want, func() [][]int {
				ms := c.eng.FindAllSubmatch(c.b, lim)
				var r [][]int
				for _, m := range ms {
					var v []int
					for g := 0; g < m.NumCaptures(); g++ {
						gi := m.GroupIndex(g)
						if gi == nil {
							v = append(v, -1, -1)
						} else {
							v = append(v, gi[0], gi[1])
						}
					}
					r = append(r, v)
				}
				return r
			})
		}
	}
	// iterators: complete, and abandoned after k results
	it := func(api string, f func(stop int) [][]int) {
		for _, stop := range []int{-1, 1, 2} {
			w := takeN(sp, stop)
			args := fmt.Sprintf("break=%d", stop)
			n++
			c.guard("C04", api, args, func() {
				if got := f(stop); !eqAll(got, w) {
					c.fail("C04", api, args, fmt.Sprint(w), fmt.Sprint(got))
				}
			})
		}
	}
	it("AllIndex", func(stop int) [][]int {
		var r [][]int
		for m := range c.cg.AllIndex(c.b) {
			r = append(r, []int{m[0], m[1]})
			if len(r) == stop {
				break
			}
		}
		return r
	})
	it("AllStringIndex", func(stop int) [][]int {
		var r [][]int
		for m := range c.cg.AllStringIndex(c.s) {
			r = append(r, []int{m[0], m[1]})
			if len(r) == stop {
				break
			}
		}
		return r
	})
	// All / AllString yield the matched text: compare text with the reference spans
	n++
	c.guard("C04", "All", "", func() {
		i := 0
		for m := range c.cg.All(c.b) {
			if i >= len(sp) || !bytes.Equal(m, c.b[sp[i][0]:sp[i][1]]) {
				c.fail("C04", "All", "", fmt.Sprint(sp), fmt.Sprintf("item %d = %q", i, m))
				return
			}
			i++
		}
		if i != len(sp) {
			c.fail("C04", "All", "", fmt.Sprint(sp), fmt.Sprintf("%d items", i))
		}
	})
	n++
	c.guard("C04", "AllString", "", func() {
		i := 0
		for m := range c.cg.AllString(c.s) {
			if i >= len(sp) || m != c.s[sp[i][0]:sp[i][1]] {
				c.fail("C04", "AllString", "", fmt.Sprint(sp), fmt.Sprintf("item %d = %q", i, m))
				return
			}
			i++
		}
		if i != len(sp) {
			c.fail("C04", "AllString", "", fmt.Sprint(sp), fmt.Sprintf("%d items", i))
		}
	})
	return n
}

// ---- C11: views of one value agree (no oracle) ----
func (c *sctx) c11() int {
	n := 0
	rel := func(name string, ok bool, detail func() string) {
		n++
		if !ok {
			c.fail("C11", name, "", "views agree", detail())
		}
	}
	c.guard("C11", "views", "", func() {
		fi := c.cg.FindIndex(c.b)
		m := c.cg.Match(c.b)
		rel("Match<=>FindIndex", m == (fi != nil), func() string { return fmt.Sprintf("Match=%v FindIndex=%v", m, fi) })
		rel("MatchString=Match", c.cg.MatchString(c.s) == m, func() string { return "MatchString differs from Match" })
		rel("MatchReader=Match", c.cg.MatchReader(strings.NewReader(c.s)) == m, func() string { return "MatchReader differs from Match" })
		fsi := c.cg.FindStringIndex(c.s)
		rel("FindStringIndex=FindIndex", eqInts(fi, fsi) && (fi == nil) == (fsi == nil), func() string { return fmt.Sprintf("%v vs %v", fsi, fi) })
		fri := c.cg.FindReaderIndex(strings.NewReader(c.s))
		rel("FindReaderIndex=FindIndex", eqInts(fi, fri) && (fi == nil) == (fri == nil), func() string { return fmt.Sprintf("%v vs %v", fri, fi) })
		f := c.cg.Find(c.b)
		rel("Find=h[FindIndex]", (fi == nil && f == nil) || (fi != nil && f != nil && bytes.Equal(f, c.b[fi[0]:fi[1]])),
			func() string { return fmt.Sprintf("Find=%q FindIndex=%v", f, fi) })
		fs := c.cg.FindString(c.s)
		rel("FindString=h[FindIndex]", (fi == nil && fs == "") || (fi != nil && fs == c.s[fi[0]:fi[1]]),
			func() string { return fmt.Sprintf("FindString=%q FindIndex=%v", fs, fi) })
		sm := c.cg.FindSubmatchIndex(c.b)
		rel("Submatch[0]=FindIndex", (sm == nil) == (fi == nil) && (sm == nil || eqInts(sm[:2], fi)),
			func() string { return fmt.Sprintf("FindSubmatchIndex=%v FindIndex=%v", sm, fi) })
		rel("len(Submatch)=2(NumSubexp+1)", sm == nil || len(sm) == 2*(c.cg.NumSubexp()+1),
			func() string { return fmt.Sprintf("len=%d NumSubexp=%d", len(sm), c.cg.NumSubexp()) })
		ssm := c.cg.FindStringSubmatchIndex(c.s)
		rel("StringSubmatchIndex=SubmatchIndex", eqInts(sm, ssm), func() string { return fmt.Sprintf("%v vs %v", ssm, sm) })
		rsm := c.cg.FindReaderSubmatchIndex(strings.NewReader(c.s))
		rel("ReaderSubmatchIndex=SubmatchIndex", eqInts(sm, rsm), func() string { return fmt.Sprintf("%v vs %v", rsm, sm) })
		fsb := c.cg.FindSubmatch(c.b)
		rel("FindSubmatch~Index", cmpGroupsB(fsb, sm, c.b) == "", func() string { return fmt.Sprintf("%q vs %v", fsb, sm) })
		all := c.cg.FindAllIndex(c.b, -1)
		rel("FindAll[0]=FindIndex", (len(all) == 0) == (fi == nil) && (len(all) == 0 || eqInts(all[0], fi)),
			func() string { return fmt.Sprintf("FindAllIndex=%v FindIndex=%v", all, fi) })
		for _, lim := range []int{0, 1, 2, 3} {
			pre := c.cg.FindAllIndex(c.b, lim)
			rel("FindAll(n)=prefix", eqAll(pre, takeN(all, lim)), func() string { return fmt.Sprintf("n=%d %v vs all %v", lim, pre, all) })
			rel("Count(n)", c.cg.Count(c.b, lim) == len(takeN(all, lim)), func() string {
				return fmt.Sprintf("n=%d Count=%d FindAll=%v", lim, c.cg.Count(c.b, lim), all)
			})
		}
		rel("Count=len(FindAll)", c.cg.Count(c.b, -1) == len(all), func() string { return fmt.Sprintf("Count=%d FindAll=%v", c.cg.Count(c.b, -1), all) })
		rel("CountString=len(FindAll)", c.cg.CountString(c.s, -1) == len(all), func() string { return "CountString" })
		rel("FindAllStringIndex=FindAllIndex", eqAll(c.cg.FindAllStringIndex(c.s, -1), all), func() string {
			return fmt.Sprintf("%v vs %v", c.cg.FindAllStringIndex(c.s, -1), all)
		})
		var itv [][]int
		for m := range c.cg.AllIndex(c.b) {
			itv = append(itv, []int{m[0], m[1]})
		}
		rel("AllIndex=FindAllIndex", eqAll(itv, all), func() string { return fmt.Sprintf("%v vs %v", itv, all) })
		itv = nil
		for m := range c.cg.AllStringIndex(c.s) {
			itv = append(itv, []int{m[0], m[1]})
		}
		rel("AllStringIndex=FindAllIndex", eqAll(itv, all), func() string { return fmt.Sprintf("%v vs %v", itv, all) })
		app := pairs(c.cg.AppendAllIndex(nil, c.b, -1))
		rel("AppendAllIndex=FindAllIndex", eqAll(app, all), func() string { return fmt.Sprintf("%v vs %v", app, all) })
		asm := c.cg.FindAllSubmatchIndex(c.b, -1)
		rel("FindAllSubmatch[i][0]=FindAll[i]", eqAll(spans(asm), all), func() string { return fmt.Sprintf("%v vs %v", asm, all) })
		rel("FindAllSubmatch[0]=FindSubmatch", (len(asm) == 0 && sm == nil) || (len(asm) > 0 && eqInts(asm[0], sm)),
			func() string { return fmt.Sprintf("%v vs %v", asm, sm) })
		if c.mode == "first" {
			// the engine-level API
			s, e, ok := c.eng.FindIndices(c.b)
			rel("Engine.FindIndices=FindIndex", ok == (fi != nil) && (!ok || (s == fi[0] && e == fi[1])),
				func() string { return fmt.Sprintf("[%d %d %v] vs %v", s, e, ok, fi) })
			rel("Engine.IsMatch=Match", c.eng.IsMatch(c.b) == m, func() string { return "Engine.IsMatch differs" })
			em := c.eng.Find(c.b)
			rel("Engine.Find=FindIndex", (em == nil) == (fi == nil) && (em == nil || (em.Start() == fi[0] && em.End() == fi[1])),
				func() string { return fmt.Sprintf("Engine.Find vs %v", fi) })
			em0 := c.eng.FindAt(c.b, 0)
			rel("Engine.FindAt(0)=Find", (em0 == nil) == (em == nil) && (em == nil || (em0.Start() == em.Start() && em0.End() == em.End())),
				func() string { return "FindAt(0) differs from Find" })
			s0, e0, ok0 := c.eng.FindIndicesAt(c.b, 0)
			rel("Engine.FindIndicesAt(0)=FindIndices", ok0 == ok && (!ok || (s0 == s && e0 == e)),
				func() string { return fmt.Sprintf("[%d %d %v] vs [%d %d %v]", s0, e0, ok0, s, e, ok) })
			rel("Engine.Count=Count", c.eng.Count(c.b, -1) == len(all), func() string { return fmt.Sprintf("%d vs %v", c.eng.Count(c.b, -1), all) })
			es := c.eng.FindSubmatch(c.b)
			rel("Engine.FindSubmatch=FindSubmatchIndex", (es == nil) == (sm == nil) && (es == nil || (es.Start() == sm[0] && es.End() == sm[1])),
				func() string { return fmt.Sprintf("Engine.FindSubmatch vs %v", sm) })
			// the second match is what FindIndicesAt reports from the first one's resume position
			if len(all) >= 2 && all[0][1] > all[0][0] {
				s2, e2, ok2 := c.eng.FindIndicesAt(c.b, all[0][1])
				// an empty match adjacent to the previous one is skipped by the enumeration, so only relate when not empty-at-resume
				if !(ok2 && s2 == e2 && s2 == all[0][1]) {
					rel("FindIndicesAt(prevEnd)=FindAll[1]", ok2 && s2 == all[1][0] && e2 == all[1][1],
						func() string { return fmt.Sprintf("[%d %d %v] vs %v", s2, e2, ok2, all) })
				}
			}
		}
	})
	return n
}

func runSearch(args []string) {
	fs := flag.NewFlagSet("search", flag.ExitOnError)
	in := fs.String("in", "", "TLC output file")
	props := fs.String("props", "C01", "comma list of properties to decide")
	report := fs.String("report", "report.json", "")
	fails := fs.String("fail", "fail.ndjson", "")
	ladder := fs.String("ladder", "", "auxiliary length ladder: q (34 kB on 1/16 of the patterns) | t (34 kB, 70 kB on 1/8, 2.3 MB on 1/64; anchored patterns: 2.3 MB and 9 MB)")
	longMax := fs.Int("long", 0, "auxiliary: also compare with regexp on pumped haystacks up to this many bytes (0 = off)")
	fs.Parse(args)

	pset := map[string]bool{}
	for _, p := range strings.Split(*props, ",") {
		pset[p] = true
	}
	f, err := os.Open(*in)
	if err != nil {
		fatal(err)
	}
	defer f.Close()
	rep, err := core.NewReport(*fails)
	if err != nil {
		fatal(err)
	}

	_, err = core.ReadRecords(f, runtime.NumCPU(), func(rec *core.Record) {
		pat := rec.Re.Pattern()
		std, err := regexp.Compile(pat)
		if err != nil {
			rep.Gap("regexp rejects printed pattern " + pat + ": " + err.Error())
			return
		}
		stdL := regexp.MustCompile(pat)
		stdL.Longest()
		var cg, cgL, cgP *coregex.Regex
		var stdP *regexp.Regexp
		var eng *meta.Engine
		var cerr error
		func() {
			defer func() {
				if r := recover(); r != nil {
					cerr = fmt.Errorf("panic: %v", r)
				}
			}()
			cg, cerr = coregex.Compile(pat)
			if cerr == nil {
				cgL, _ = coregex.Compile(pat)
				cgL.Longest()
				eng, cerr = meta.Compile(pat)
			}
		}()
		if cerr != nil {
			for p := range pset {
				rep.Fail(&core.Failure{Prop: p, API: "Compile", Mode: "first", Pattern: pat, Want: "compiles", Got: cerr.Error(), Fam: rec.Fam})
			}
			return
		}
		strat := eng.Strategy().String()
		if pset["C09"] {
			// metadata as functions of the syntax tree: NumSubexp = NCaps(re), SubexpNames = Names(re)
			names := make([]string, len(rec.Names))
			for i, nm := range rec.Names {
				b := make([]byte, len(nm))
				for j, x := range nm {
					b[j] = byte(x)
				}
				names[i] = string(b)
			}
			if std.NumSubexp() != rec.NC || fmt.Sprintf("%q", std.SubexpNames()) != fmt.Sprintf("%q", names) {
				rep.Gap(fmt.Sprintf("metadata %s: spec %d %q regexp %d %q", pat, rec.NC, names, std.NumSubexp(), std.SubexpNames()))
			} else {
				meta := func(api, want, got string) {
					if want != got {
						rep.Fail(&core.Failure{Prop: "C09", API: api, Mode: "compile", Pattern: pat, Want: want, Got: got, Fam: rec.Fam, Scope: "compile"})
					}
				}
				meta("NumSubexp", fmt.Sprint(rec.NC), fmt.Sprint(cg.NumSubexp()))
				meta("SubexpNames", fmt.Sprintf("%q", names), fmt.Sprintf("%q", cg.SubexpNames()))
				for i, nm := range names {
					if nm != "" {
						meta("SubexpIndex", fmt.Sprint(std.SubexpIndex(nm)), fmt.Sprint(cg.SubexpIndex(nm)))
						_ = i
					}
				}
				meta("String", pat, cg.String())
				sl, sc := std.LiteralPrefix()
				cl, cc := cg.LiteralPrefix()
				meta("LiteralPrefix", fmt.Sprintf("%q %v", sl, sc), fmt.Sprintf("%q %v", cl, cc))
			}
			rep.Add(1, 0, 5, 1, strat)
			return
		}
		posixPat, posixOK := "", false
		if pset["C10"] {
			if pp, ok := rec.Re.PatternPOSIX(); ok {
				if sp, err := regexp.CompilePOSIX(pp); err == nil {
					func() {
						defer func() { recover() }()
						var e2 error
						cgP, e2 = coregex.CompilePOSIX(pp)
						if e2 != nil {
							rep.Fail(&core.Failure{Prop: "C10", API: "CompilePOSIX", Mode: "posix", Pattern: pp, Want: "compiles", Got: e2.Error(), Fam: rec.Fam})
							cgP = nil
						}
					}()
					stdP, posixPat, posixOK = sp, pp, cgP != nil
				}
			}
		}
		cases, calls, nontriv := 0, 0, 0
		for hi := range rec.Hs {
			h := &rec.Hs[hi]
			b := core.HayBytes(h.H)
			c := &sctx{rep: rep, props: pset, pat: pat, fam: rec.Fam, strat: strat, cg: cg, eng: eng, nc: rec.NC,
				b: b, s: string(b), hx: core.Hex(b)}
			cases++
			// three-way: reference vs regexp
			okF := eqAll(std.FindAllSubmatchIndex(b, -1), h.AF)
			okL := eqAll(stdL.FindAllSubmatchIndex(b, -1), h.AL)
			if !okF {
				rep.Gap(fmt.Sprintf("first %s on %x: spec %v regexp %v", pat, b, h.AF, std.FindAllSubmatchIndex(b, -1)))
			}
			if !okL {
				rep.Gap(fmt.Sprintf("longest %s on %x: spec %v regexp %v", pat, b, h.AL, stdL.FindAllSubmatchIndex(b, -1)))
			}
			if len(h.AF) > 0 && !(len(h.AF) == 1 && h.AF[0][0] == h.AF[0][1] && len(b) == 0) {
				nontriv++
			}
			var first, firstL []int
			if len(h.AF) > 0 {
				first = h.AF[0]
			}
			if len(h.AL) > 0 {
				firstL = h.AL[0]
			}
			sp2 := func(v []int) []int {
				if v == nil {
					return nil
				}
				return v[:2]
			}
			if okF {
				c.mode = "first"
				if pset["C01"] {
					calls += c.c01(first != nil, hi)
				}
				if pset["C02"] {
					calls += c.c02(sp2(first))
				}
				if pset["C03"] {
					calls += c.c03(first)
				}
				if pset["C04"] {
					calls += c.c04(h.AF)
				}
			}
			if pset["C11"] {
				c.mode = "first"
				calls += c.c11()
				cl := *c
				cl.cg, cl.mode = cgL, "longest"
				calls += cl.c11()
			}
			if pset["C10"] && okL {
				cl := *c
				cl.cg, cl.mode, cl.as = cgL, "longest", "C10"
				calls += cl.c01(firstL != nil, hi)
				calls += cl.c02(sp2(firstL))
				calls += cl.c03(firstL)
				calls += cl.c04(h.AL)
				// default mode on the twin value must be unaffected by Longest() on cgL
				if okF {
					cf := *c
					cf.mode, cf.as = "first", "C10"
					calls += cf.c02(sp2(first))
				}
				if posixOK {
					wantP := stdP.FindAllSubmatchIndex(b, -1)
					// the reference in longest mode must explain regexp's POSIX result too
					if eqAll(wantP, h.AL) {
						cp := *c
						cp.cg, cp.mode, cp.pat, cp.as = cgP, "posix", posixPat, "C10"
						var fp []int
						if len(h.AL) > 0 {
							fp = h.AL[0]
						}
						calls += cp.c01(fp != nil, hi)
						calls += cp.c03(fp)
						calls += cp.c04(h.AL)
					} else {
						rep.Gap(fmt.Sprintf("posix %s on %x: spec %v regexp %v", posixPat, b, h.AL, wantP))
					}
				}
			}
		}
		if *longMax > 0 {
			// Auxiliary (regexp is the property's own reference): pumped members u.v^k.w of the record's 2-symbol haystacks, long enough
			// to cross the vector block sizes, the 100-byte window of the adaptive strategy and the 4 KiB ASCII window.
			for hi := range rec.Hs {
				h := rec.Hs[hi].H
				if len(h) != 2 || (rec.I+h[0]*5+h[1])%2 != 0 {
					continue
				}
				for li, n := range []int{20, 70, 150, 600, 4200} {
					if n > *longMax {
						continue
					}
					var u, v, w []int
					switch (li + h[0]) % 4 {
					case 0:
						u, v, w = nil, h[:1], h[1:]
					case 1:
						u, v, w = h[:1], h[1:], nil
					case 2:
						u, v, w = nil, h, nil
					default:
						u, v, w = h[1:], []int{h[1], h[0]}, h
					}
					ub, vb, wb := core.HayBytes(u), core.HayBytes(v), core.HayBytes(w)
					b := append([]byte{}, ub...)
					for len(b) < n {
						b = append(b, vb...)
					}
					b = append(b, wb...)
					lc := &sctx{rep: rep, props: pset, pat: pat, fam: rec.Fam, strat: strat, mode: "first", cg: cg, eng: eng, nc: rec.NC, b: b, s: string(b), scope: "long",
						hx: core.Hex(ub) + "|" + core.Hex(vb) + "*|" + core.Hex(wb) + fmt.Sprintf("|%d", len(b))}
					all := std.FindAllSubmatchIndex(b, -1)
					var first []int
					if len(all) > 0 {
						first = all[0]
					}
					cases++
					if pset["C01"] {
						calls += lc.c01(first != nil, 0)
					}
					if pset["C02"] {
						if first == nil {
							calls += lc.c02(nil)
						} else {
							calls += lc.c02(first[:2])
						}
					}
					if pset["C03"] {
						calls += lc.c03(first)
					}
					if pset["C04"] {
						calls += lc.c04(all)
					}
					if pset["C11"] {
						calls += lc.c11()
					}
					if pset["C10"] {
						ll := *lc
						ll.cg, ll.mode, ll.as = cgL, "longest", "C10"
						allL := stdL.FindAllSubmatchIndex(b, -1)
						var fl []int
						if len(allL) > 0 {
							fl = allL[0]
						}
						calls += ll.c03(fl)
						calls += ll.c04(allL)
					}
				}
			}
		}
		if *ladder != "" {
			// Length ladder: the thresholds inside the engines (visited-table budgets of the backtrackers, DFA cache sizes, the
			// 4 KiB / 64 KiB windows) sit far beyond what TLC can enumerate.  Content-selected patterns, pumped members of a
			// 2-symbol haystack at 34 kB / 70 kB / 2.3 MB / 9 MB, a reduced API set, regexp as the arbiter.  A pattern that is already
			// slower than 1.5 us per byte on 4200 bytes is left to C05 (counted).
			ph := contentHash([]byte(pat))
			sel := ph%16 == 0 || (*ladder == "t" && ph%8 == 0)
			if sel {
				var sizes []int
				sizes = append(sizes, 34000) // above 128 K entries / 4 states: beyond the small backtracker for every pattern
				if *ladder == "t" {
					sizes = append(sizes, 70000)
					anchored := rec.Re != nil && rec.Re.Op == "cat" && rec.Re.A != nil && rec.Re.A.Op == "look" && rec.Re.A.K == "bot"
					if ph%64 == 0 || anchored {
						sizes = append(sizes, 2300000)
					}
					if anchored {
						sizes = append(sizes, 9000000) // above 32 M entries / 4 states: beyond the large backtracker (anchored searches are cheap)
					}
				}
				nh := 0
				for hi := range rec.Hs {
					h := rec.Hs[hi].H
					if len(h) != 2 || (rec.I+h[0]*5+h[1])%2 != 0 || nh >= 2 {
						continue
					}
					nh++
					for li, n := range sizes {
						var u, v, w []int
						switch (li + h[1]) % 3 {
						case 0:
							u, v, w = nil, h[:1], h[1:] // x^k y : the interesting part at the very end
						case 1:
							u, v, w = h[:1], h[1:], nil // x y^k : ... at the very start
						default:
							u, v, w = nil, h, nil
						}
						ub, vb, wb := core.HayBytes(u), core.HayBytes(v), core.HayBytes(w)
						mk := func(n int) []byte {
							b := append([]byte{}, ub...)
							for len(b) < n {
								b = append(b, vb...)
							}
							return append(b, wb...)
						}
						// Cost guard: some patterns are superlinear (C05's business) and would take hours at these sizes.  The same shape
						// is probed at 4200 bytes (and at 70 kB before the MB sizes); the CPU time of the calling thread - not wall time,
						// which depends on the machine's load - is extrapolated QUADRATICALLY, and the size is skipped if that exceeds 2 s.
						probe := func(pn int) time.Duration {
							pb := mk(pn)
							runtime.LockOSThread()
							defer runtime.UnlockOSThread()
							c0 := threadCPU()
							func() {
								defer func() { recover() }()
								cg.Match(pb)
								cg.FindIndex(pb)
								cg.FindSubmatchIndex(pb)
								cg.FindAllIndex(pb, 3)
							}()
							return threadCPU() - c0
						}
						est := float64(probe(4200)) * (float64(n) / 4200) * (float64(n) / 4200)
						if n > 100000 && est <= float64(2*time.Second) {
							est = float64(probe(70000)) * (float64(n) / 70000) * (float64(n) / 70000)
						}
						if est > float64(2*time.Second) {
							rep.API(fmt.Sprintf("ladder:skipped-slow:%d", n), 1)
							continue
						}
						b := mk(n)
						lc := &sctx{rep: rep, props: pset, pat: pat, fam: rec.Fam, strat: strat, mode: "first", cg: cg, eng: eng, nc: rec.NC, b: b, s: string(b), scope: "ladder",
							hx: core.Hex(ub) + "|" + core.Hex(vb) + "*|" + core.Hex(wb) + fmt.Sprintf("|%d", len(b))}
						szArg := fmt.Sprintf("len=%d", len(b))
						_ = szArg
						cases++
						rep.API(fmt.Sprintf("ladder:%d", n), 1)
						if pset["C01"] || pset["C11"] {
							want := std.Match(b)
							calls++
							lc.guard("C01", "Match", "", func() {
								if got := cg.Match(b); got != want {
									lc.fail("C01", "Match", "", fmt.Sprint(want), fmt.Sprint(got))
								}
							})
						}
						if pset["C02"] || pset["C11"] {
							want := std.FindIndex(b)
							calls++
							lc.guard("C02", "FindIndex", "", func() {
								if got := cg.FindIndex(b); !eqInts(got, want) {
									lc.fail("C02", "FindIndex", "", core.IntsStr(want), core.IntsStr(got))
								}
							})
						}
						if pset["C03"] {
							want := std.FindSubmatchIndex(b)
							calls++
							lc.guard("C03", "FindSubmatchIndex", "", func() {
								if got := cg.FindSubmatchIndex(b); !eqInts(got, want) {
									lc.fail("C03", "FindSubmatchIndex", "", core.IntsStr(want), core.IntsStr(got))
								}
							})
						}
						if pset["C04"] {
							want := std.FindAllIndex(b, 3)
							calls++
							lc.guard("C04", "FindAllIndex", "n=3", func() {
								if got := cg.FindAllIndex(b, 3); !eqAll(got, want) {
									lc.fail("C04", "FindAllIndex", "n=3", fmt.Sprint(want), fmt.Sprint(got))
								}
							})
						}
						if pset["C10"] {
							want := stdL.FindSubmatchIndex(b)
							calls++
							ll := *lc
							ll.mode, ll.as = "longest", "C10"
							ll.guard("C10", "FindSubmatchIndex", "", func() {
								if got := cgL.FindSubmatchIndex(b); !eqInts(got, want) {
									ll.fail("C10", "FindSubmatchIndex", "", core.IntsStr(want), core.IntsStr(got))
								}
							})
						}
					}
				}
			}
		}
		rep.Add(1, cases, calls, nontriv, strat)
		if rec.I%97 == 1 && len(rec.Hs) > 0 {
			h := rec.Hs[len(rec.Hs)-1]
			rep.Sample(map[string]any{"pattern": pat, "strategy": strat, "haystack_hex": core.Hex(core.HayBytes(h.H)),
				"ref_first": h.AF, "ref_longest": h.AL})
		}
	})
	if err != nil {
		rep.Machinery(err.Error())
	}
	if err2 := rep.Close(*report); err2 != nil {
		fatal(err2)
	}
	if err != nil {
		fatal(err)
	}
}
