package main

// C06 (supplementary observation): free-running goroutines on one shared Regex, meant to be built with -race.
// Every result is compared with the sequential result; the race detector's reports (stderr) are parsed by the
// orchestrator: a report is an observation the specification has no action for.

import (
	"flag"
	"fmt"
	"os"
	"sync"

	"github.com/coregx/coregex"

	"verif/harness/internal/core"
)

func runRaceRun(args []string) {
	fs := flag.NewFlagSet("racerun", flag.ExitOnError)
	report := fs.String("report", "report.json", "")
	fails := fs.String("fail", "fail.ndjson", "")
	ngor := fs.Int("goroutines", 6, "")
	iters := fs.Int("iters", 40, "")
	fs.Parse(args)
	rep, err := core.NewReport(*fails)
	if err != nil {
		fatal(err)
	}
	calls := 0
	for ci, cc := range concCases {
		re, cerr := coregex.Compile(cc.pat)
		if cerr != nil {
			continue
		}
		seq, _ := coregex.Compile(cc.pat)
		for ai, api := range concAPIs {
			exp := make([]string, len(cc.hays))
			for i, h := range cc.hays {
				exp[i] = api(seq, h)
			}
			var wg sync.WaitGroup
			var mu sync.Mutex
			fmt.Fprintf(os.Stderr, "RACERUN-CASE pattern=%q api=%d\n", cc.pat, ai)
			for g := 0; g < *ngor; g++ {
				wg.Add(1)
				go func(g int) {
					defer wg.Done()
					for it := 0; it < *iters; it++ {
						i := (g + it) % len(cc.hays)
						var got string
						func() {
							defer func() {
								if r := recover(); r != nil {
									got = fmt.Sprintf("panic: %v", r)
								}
							}()
							got = api(re, cc.hays[i])
						}()
						if got != exp[i] {
							mu.Lock()
							rep.Fail(&core.Failure{Prop: "C06", API: "concurrent-call", Mode: "first", Pattern: cc.pat, Hay: core.Hex([]byte(cc.hays[i])),
								Args: fmt.Sprintf("free-running, %d goroutines, api %d", *ngor, ai), Want: "sequential result " + exp[i], Got: got, Scope: "pool"})
							mu.Unlock()
						}
					}
				}(g)
			}
			wg.Wait()
			calls += *ngor * *iters
		}
		if ci < 3 {
			rep.Sample(map[string]any{"pattern": cc.pat, "goroutines": *ngor, "iterations": *iters, "apis": len(concAPIs)})
		}
	}
	rep.Add(len(concCases), len(concCases)*len(concAPIs), calls, len(concCases)*len(concAPIs), "")
	if err := rep.Close(*report); err != nil {
		fatal(err)
	}
}
