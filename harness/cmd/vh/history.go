package main

// C13 (relational): the result of a call on a value that has been used before equals the result of the
// same call on a freshly compiled value.  Histories: every haystack of a TLC-generated record, in order,
// through a rotating API, on ONE aged value per pattern (its pooled search state, DFA caches, backtracker
// table and prefilter tracker carry over from call to call); garbage collections in between; every call
// repeated once.  Long histories that fill / clear caches and wrap generation counters are produced by the
// protocol models (MC_Backtrack, MC_LazyDFA) and replayed by the `protocol` subcommand.

import (
	"flag"
	"fmt"
	"os"
	"runtime"
	"sync/atomic"

	"github.com/coregx/coregex"
	"github.com/coregx/coregex/meta"
	"github.com/coregx/coregex/verifhook"

	"verif/harness/internal/core"
)

type histAPI struct {
	name string
	fn   func(re *coregex.Regex, b []byte) string
}

var histAPIs = []histAPI{
	{"Match", func(re *coregex.Regex, b []byte) string { return fmt.Sprint(re.Match(b)) }},
	{"FindIndex", func(re *coregex.Regex, b []byte) string { return fmt.Sprint(re.FindIndex(b)) }},
	{"FindSubmatchIndex", func(re *coregex.Regex, b []byte) string { return fmt.Sprint(re.FindSubmatchIndex(b)) }},
	{"FindAllIndex", func(re *coregex.Regex, b []byte) string { return fmt.Sprint(re.FindAllIndex(b, -1)) }},
	{"Count", func(re *coregex.Regex, b []byte) string { return fmt.Sprint(re.Count(b, -1)) }},
	{"FindAllSubmatchIndex", func(re *coregex.Regex, b []byte) string { return fmt.Sprint(re.FindAllSubmatchIndex(b, 2)) }},
	{"ReplaceAllString", func(re *coregex.Regex, b []byte) string { return re.ReplaceAllString(string(b), "<$0>") }},
	{"FindStringIndex", func(re *coregex.Regex, b []byte) string { return fmt.Sprint(re.FindStringIndex(string(b))) }},
}

func runHistory(args []string) {
	fs := flag.NewFlagSet("history", flag.ExitOnError)
	in := fs.String("in", "", "TLC output (MC_Search)")
	_ = fs.String("props", "C13", "")
	report := fs.String("report", "report.json", "")
	fails := fs.String("fail", "fail.ndjson", "")
	corpusRun := fs.Bool("corpus", false, "also run the cache-churning corpus histories")
	fs.Parse(args)
	f, err := os.Open(*in)
	if err != nil {
		fatal(err)
	}
	defer f.Close()
	rep, err := core.NewReport(*fails)
	if err != nil {
		fatal(err)
	}
	_, err = core.ReadRecords(f, runtime.NumCPU(), func(rec *core.Record) {
		pat := rec.Re.Pattern()
		aged, cerr := coregex.Compile(pat)
		if cerr != nil {
			return
		}
		agedL, _ := coregex.Compile(pat)
		agedL.Longest()
		calls, cases, nontriv := 0, 0, 0
		type seen struct {
			api int
			b   []byte
			res string
		}
		var first []seen
		call := func(re *coregex.Regex, a histAPI, b []byte) (res string) {
			defer func() {
				if r := recover(); r != nil {
					res = fmt.Sprintf("panic: %v", r)
				}
			}()
			return a.fn(re, b)
		}
		for hi := range rec.Hs {
			b := core.HayBytes(rec.Hs[hi].H)
			hx := core.Hex(b)
			cases++
			ai := (hi + rec.I) % len(histAPIs)
			a := histAPIs[ai]
			for mode, re := range map[string]*coregex.Regex{"first": aged, "longest": agedL} {
				got := call(re, a, b)
				again := call(re, a, b)
				fresh, _ := coregex.Compile(pat)
				if mode == "longest" {
					fresh.Longest()
				}
				want := call(fresh, a, b)
				calls += 3
				if got != want {
					rep.Fail(&core.Failure{Prop: "C13", API: a.name, Mode: mode, Pattern: pat, Hay: hx, Args: fmt.Sprintf("after %d earlier calls", 2*hi),
						Want: "fresh value: " + want, Got: "aged value: " + got, Fam: rec.Fam})
				} else if again != got {
					rep.Fail(&core.Failure{Prop: "C13", API: a.name, Mode: mode, Pattern: pat, Hay: hx, Args: "repeated call",
						Want: got, Got: again, Fam: rec.Fam})
				}
				if mode == "first" && hi < 6 {
					first = append(first, seen{ai, b, want})
				}
			}
			if len(rec.Hs[hi].AF) > 0 && len(b) > 0 {
				nontriv++
			}
			if hi == len(rec.Hs)/2 && rec.I%8 == 0 {
				runtime.GC() // drops sync.Pool contents: the single-slot cache must keep the state alive or a new one must be equivalent
			}
		}
		// the first calls again, at the end of the history
		for _, s := range first {
			got := call(aged, histAPIs[s.api], s.b)
			calls++
			if got != s.res {
				rep.Fail(&core.Failure{Prop: "C13", API: histAPIs[s.api].name, Mode: "first", Pattern: pat, Hay: core.Hex(s.b),
					Args: fmt.Sprintf("after the whole history (%d calls)", 4*len(rec.Hs)), Want: "fresh value: " + s.res, Got: "aged value: " + got, Fam: rec.Fam})
			}
		}
		rep.Add(1, cases, calls, nontriv, "")
		if rec.I%97 == 1 {
			rep.Sample(map[string]any{"pattern": pat, "history_calls": 4 * len(rec.Hs), "apis": len(histAPIs)})
		}
	})
	if *corpusRun {
		runCorpusHistories(rep)
	}
	if err != nil {
		rep.Machinery(err.Error())
	}
	if err2 := rep.Close(*report); err2 != nil {
		fatal(err2)
	}
	if err != nil {
		fatal(err)
	}
}

// runCorpusHistories: cache-churning histories (see the comments inside).
func runCorpusHistories(rep *core.Report) {
	// Cache-churning histories: patterns with large DFAs under configurations with tiny state budgets, a fixed pseudo-random
	// corpus, one aged value per (pattern, configuration); every answer must equal a fresh value's (and the default configuration's).
	hays := corpus(400, 60, "abc")
	for _, pat := range dfaPatterns {
		for _, st := range []uint32{1, 2, 10, 10000} {
			cfg := meta.DefaultConfig()
			cfg.MaxDFAStates = st
			aged, err := coregex.CompileWithConfig(pat, cfg)
			if err != nil {
				continue
			}
			for hi, h := range hays {
				a := histAPIs[hi%len(histAPIs)]
				got := a.fn(aged, h)
				fresh, _ := coregex.CompileWithConfig(pat, cfg)
				want := a.fn(fresh, h)
				if got != want {
					rep.Fail(&core.Failure{Prop: "C13", API: a.name, Mode: "first", Pattern: pat, Hay: core.Hex(h), Cfg: fmt.Sprintf("MaxDFAStates=%d", st),
						Args: fmt.Sprintf("after %d earlier calls on the corpus", hi), Want: "fresh value: " + want, Got: "aged value: " + got, Fam: "CORPUS"})
				}
			}
			rep.Add(1, len(hays), 2*len(hays), len(hays), "")
		}
	}
	// the default 2 MiB cache is only ever filled by automata with tens of thousands of states: long random inputs
	var clears, fulls atomic.Int64
	verifhook.Install(func(kind string, a []int) {
		switch kind {
		case "dfa.clear":
			clears.Add(1)
		case "dfa.full":
			fulls.Add(1)
		}
	})
	defer func() {
		verifhook.Install(nil)
		rep.Extra["corpus_cache_clears_observed"] = clears.Load()
		rep.Extra["corpus_cache_full_events"] = fulls.Load()
	}()
	big := corpus(24, 30000, "ab")
	bigc := corpus(60, 6000, "abababababababababc") // many matches: FindAll / Count restart the search at offsets > 0 on the aged caches
	for pi, pat := range []string{`[ab]*a[ab]{14}c`, `(a|b)*a(a|b){13}b`, `[ab]*b[ab]{15}`, `a[ab]{14}[cd]`, `b[ab]{12}(c|d)`} {
		big := big
		if pi >= 3 {
			big = bigc
		}
		aged, err := coregex.Compile(pat)
		if err != nil {
			continue
		}
		for hi, h := range big {
			// Match / FindIndex / FindSubmatchIndex / FindAllIndex / Count: the last two restart the search at offsets > 0
			// on the aged caches (start kinds other than the first search's)
			a := histAPIs[hi%5]
			got := a.fn(aged, h)
			fresh, _ := coregex.Compile(pat)
			want := a.fn(fresh, h)
			if got != want {
				rep.Fail(&core.Failure{Prop: "C13", API: a.name, Mode: "first", Pattern: pat, Hay: core.Hex(h[:32]), Cfg: fmt.Sprintf("len=%d", len(h)),
					Args: fmt.Sprintf("after %d earlier calls on long random inputs (cache clears)", hi), Want: "fresh value: " + want, Got: "aged value: " + got, Fam: "CORPUS"})
			}
		}
		rep.Add(1, len(big), 2*len(big), len(big), "")
	}
}
