package main

// C13 (relational): the result of a call on a value that has been used before equals the result of the
// same call on a freshly compiled value.  Histories: every haystack of a TLC-generated record, in order,
// through a rotating API, on ONE aged value per pattern (its pooled search state, DFA caches, backtracker
// table and prefilter tracker carry over from call to call); garbage collections in between; every call
// repeated once.  Long histories that fill / clear caches and wrap generation counters are produced by the
// protocol models (MC_Backtrack, MC_LazyDFA) and replayed by the `protocol` subcommand.

import (
	"flag"
	"fmt"
	"os"
	"runtime"

	"github.com/coregx/coregex"

	"verif/harness/internal/core"
)

type histAPI struct {
	name string
	fn   func(re *coregex.Regex, b []byte) string
}

var histAPIs = []histAPI{
	{"Match", func(re *coregex.Regex, b []byte) string { return fmt.Sprint(re.Match(b)) }},
	{"FindIndex", func(re *coregex.Regex, b []byte) string { return fmt.Sprint(re.FindIndex(b)) }},
	{"FindSubmatchIndex", func(re *coregex.Regex, b []byte) string { return fmt.Sprint(re.FindSubmatchIndex(b)) }},
	{"FindAllIndex", func(re *coregex.Regex, b []byte) string { return fmt.Sprint(re.FindAllIndex(b, -1)) }},
	{"Count", func(re *coregex.Regex, b []byte) string { return fmt.Sprint(re.Count(b, -1)) }},
	{"FindAllSubmatchIndex", func(re *coregex.Regex, b []byte) string { return fmt.Sprint(re.FindAllSubmatchIndex(b, 2)) }},
	{"ReplaceAllString", func(re *coregex.Regex, b []byte) string { return re.ReplaceAllString(string(b), "<$0>") }},
	{"FindStringIndex", func(re *coregex.Regex, b []byte) string { return fmt.Sprint(re.FindStringIndex(string(b))) }},
}

func runHistory(args []string) {
	fs := flag.NewFlagSet("history", flag.ExitOnError)
	in := fs.String("in", "", "TLC output (MC_Search)")
	_ = fs.String("props", "C13", "")
	report := fs.String("report", "report.json", "")
	fails := fs.String("fail", "fail.ndjson", "")
	fs.Parse(args)
	f, err := os.Open(*in)
	if err != nil {
		fatal(err)
	}
	defer f.Close()
	rep, err := core.NewReport(*fails)
	if err != nil {
		fatal(err)
	}
	_, err = core.ReadRecords(f, runtime.NumCPU(), func(rec *core.Record) {
		pat := rec.Re.Pattern()
		aged, cerr := coregex.Compile(pat)
		if cerr != nil {
			return
		}
		agedL, _ := coregex.Compile(pat)
		agedL.Longest()
		calls, cases, nontriv := 0, 0, 0
		type seen struct {
			api int
			b   []byte
			res string
		}
		var first []seen
		call := func(re *coregex.Regex, a histAPI, b []byte) (res string) {
			defer func() {
				if r := recover(); r != nil {
					res = fmt.Sprintf("panic: %v", r)
				}
			}()
			return a.fn(re, b)
		}
		for hi := range rec.Hs {
			b := core.HayBytes(rec.Hs[hi].H)
			hx := core.Hex(b)
			cases++
			ai := (hi + rec.I) % len(histAPIs)
			a := histAPIs[ai]
			for mode, re := range map[string]*coregex.Regex{"first": aged, "longest": agedL} {
				got := call(re, a, b)
				again := call(re, a, b)
				fresh, _ := coregex.Compile(pat)
				if mode == "longest" {
					fresh.Longest()
				}
				want := call(fresh, a, b)
				calls += 3
				if got != want {
					rep.Fail(&core.Failure{Prop: "C13", API: a.name, Mode: mode, Pattern: pat, Hay: hx, Args: fmt.Sprintf("after %d earlier calls", 2*hi),
						Want: "fresh value: " + want, Got: "aged value: " + got, Fam: rec.Fam})
				} else if again != got {
					rep.Fail(&core.Failure{Prop: "C13", API: a.name, Mode: mode, Pattern: pat, Hay: hx, Args: "repeated call",
						Want: got, Got: again, Fam: rec.Fam})
				}
				if mode == "first" && hi < 6 {
					first = append(first, seen{ai, b, want})
				}
			}
			if len(rec.Hs[hi].AF) > 0 && len(b) > 0 {
				nontriv++
			}
			if hi == len(rec.Hs)/2 && rec.I%8 == 0 {
				runtime.GC() // drops sync.Pool contents: the single-slot cache must keep the state alive or a new one must be equivalent
			}
		}
		// the first calls again, at the end of the history
		for _, s := range first {
			got := call(aged, histAPIs[s.api], s.b)
			calls++
			if got != s.res {
				rep.Fail(&core.Failure{Prop: "C13", API: histAPIs[s.api].name, Mode: "first", Pattern: pat, Hay: core.Hex(s.b),
					Args: fmt.Sprintf("after the whole history (%d calls)", 4*len(rec.Hs)), Want: "fresh value: " + s.res, Got: "aged value: " + got, Fam: rec.Fam})
			}
		}
		rep.Add(1, cases, calls, nontriv, "")
		if rec.I%97 == 1 {
			rep.Sample(map[string]any{"pattern": pat, "history_calls": 4 * len(rec.Hs), "apis": len(histAPIs)})
		}
	})
	if err != nil {
		rep.Machinery(err.Error())
	}
	if err2 := rep.Close(*report); err2 != nil {
		fatal(err2)
	}
	if err != nil {
		fatal(err)
	}
}
