package main

// C12: configuration never changes answers (relational, no oracle).  Configurations come from
// TLC (MC_Config: boundary values of every field with the verdict of the TLA+ transcription of
// Validate); patterns and haystacks from MC_Search.  For every pattern a rotating subset of the
// valid configurations is compiled and every result is compared with the default configuration's
// result and with the plain NFA simulation (nfa.PikeVM on the default-compiled NFA).
// A digest of the default-configuration results per pattern is written so that the orchestrator can
// compare runs of this same binary under masked CPU features (GODEBUG=cpu.avx2=off,...).

import (
	"bufio"
	"crypto/sha1"
	"encoding/hex"
	"encoding/json"
	"flag"
	"fmt"
	"os"
	"regexp/syntax"
	"runtime"
	"sort"
	"strconv"
	"strings"
	"sync"

	"github.com/coregx/coregex"
	"github.com/coregx/coregex/meta"
	"github.com/coregx/coregex/nfa"

	"verif/harness/internal/core"
)

type cfgRec struct {
	I   int `json:"i"`
	Cfg struct {
		DFA       bool `json:"dfa"`
		PF        bool `json:"pf"`
		MaxStates int  `json:"maxStates"`
		DetLimit  int  `json:"detLimit"`
		MinLit    int  `json:"minLit"`
		MaxLits   int  `json:"maxLits"`
		Depth     int  `json:"depth"`
		ASCII     bool `json:"ascii"`
	} `json:"cfg"`
	Valid bool `json:"valid"`
}

func (c *cfgRec) meta() meta.Config {
	return meta.Config{EnableDFA: c.Cfg.DFA, EnablePrefilter: c.Cfg.PF, MaxDFAStates: uint32(c.Cfg.MaxStates),
		DeterminizationLimit: c.Cfg.DetLimit, MinLiteralLen: c.Cfg.MinLit, MaxLiterals: c.Cfg.MaxLits,
		MaxRecursionDepth: c.Cfg.Depth, EnableASCIIOptimization: c.Cfg.ASCII}
}

func (c *cfgRec) name() string {
	b := func(x bool) string {
		if x {
			return "1"
		}
		return "0"
	}
	return fmt.Sprintf("dfa%s,pf%s,st%d,dl%d,ml%d,xl%d,d%d,a%s", b(c.Cfg.DFA), b(c.Cfg.PF), c.Cfg.MaxStates, c.Cfg.DetLimit,
		c.Cfg.MinLit, c.Cfg.MaxLits, c.Cfg.Depth, b(c.Cfg.ASCII))
}

func readConfigs(path string) ([]cfgRec, error) {
	f, err := os.Open(path)
	if err != nil {
		return nil, err
	}
	defer f.Close()
	var out []cfgRec
	sc := bufio.NewScanner(f)
	sc.Buffer(make([]byte, 1<<20), 1<<24)
	for sc.Scan() {
		line := sc.Text()
		if !strings.HasPrefix(line, `"`) {
			continue
		}
		s, err := strconv.Unquote(line)
		if err != nil {
			return nil, err
		}
		var r cfgRec
		if err := json.Unmarshal([]byte(s), &r); err != nil {
			return nil, err
		}
		out = append(out, r)
	}
	sort.Slice(out, func(i, j int) bool { return out[i].I < out[j].I })
	return out, nil
}

type resultSet struct {
	match bool
	idx   []int
	sub   []int
	all   [][]int
	count int
}

func results(re *coregex.Regex, b []byte) (r resultSet, perr string) {
	defer func() {
		if p := recover(); p != nil {
			perr = fmt.Sprint(p)
		}
	}()
	r.match = re.Match(b)
	r.idx = re.FindIndex(b)
	r.sub = re.FindSubmatchIndex(b)
	r.all = re.FindAllIndex(b, -1)
	r.count = re.Count(b, -1)
	return
}

func (a *resultSet) diff(b *resultSet) string {
	switch {
	case a.match != b.match:
		return fmt.Sprintf("Match %v vs %v", a.match, b.match)
	case !eqInts(a.idx, b.idx) || (a.idx == nil) != (b.idx == nil):
		return fmt.Sprintf("FindIndex %v vs %v", a.idx, b.idx)
	case !eqInts(a.sub, b.sub):
		return fmt.Sprintf("FindSubmatchIndex %v vs %v", a.sub, b.sub)
	case !eqAll(a.all, b.all):
		return fmt.Sprintf("FindAllIndex %v vs %v", a.all, b.all)
	case a.count != b.count:
		return fmt.Sprintf("Count %d vs %d", a.count, b.count)
	}
	return ""
}

func runConfigs(args []string) {
	fs := flag.NewFlagSet("configs", flag.ExitOnError)
	in := fs.String("in", "", "TLC output file (MC_Search)")
	cfgPath := fs.String("cfgs", "", "TLC output file (MC_Config)")
	_ = fs.String("props", "C12", "")
	report := fs.String("report", "report.json", "")
	fails := fs.String("fail", "fail.ndjson", "")
	digest := fs.String("digest", "", "write per-pattern digests of default-config results here")
	rot := fs.Int("rot", 6, "rotating configurations per pattern")
	fs.Parse(args)
	cfgs, err := readConfigs(*cfgPath)
	if err != nil {
		fatal(err)
	}
	rep, err := core.NewReport(*fails)
	if err != nil {
		fatal(err)
	}
	// (1) Validate() agrees with the specification's Valid on every enumerated configuration
	var valid []cfgRec
	vcalls := 0
	for i := range cfgs {
		c := &cfgs[i]
		verr := c.meta().Validate()
		vcalls++
		if (verr == nil) != c.Valid {
			rep.Fail(&core.Failure{Prop: "C12", API: "Config.Validate", Mode: "first", Pattern: "-", Hay: "", Cfg: c.name(),
				Want: fmt.Sprintf("valid=%v", c.Valid), Got: fmt.Sprintf("err=%v", verr)})
		}
		if c.Valid && verr == nil {
			valid = append(valid, *c)
		}
	}
	if len(valid) == 0 {
		fatal(fmt.Errorf("no valid configuration in %s", *cfgPath))
	}
	fixed := []meta.Config{}
	fixedNames := []string{}
	addFixed := func(name string, f func(c *meta.Config)) {
		c := meta.DefaultConfig()
		f(&c)
		fixed = append(fixed, c)
		fixedNames = append(fixedNames, name)
	}
	addFixed("nodfa", func(c *meta.Config) { c.EnableDFA = false })
	addFixed("nopf", func(c *meta.Config) { c.EnablePrefilter = false })
	addFixed("nodfa-nopf", func(c *meta.Config) { c.EnableDFA = false; c.EnablePrefilter = false })
	addFixed("states1", func(c *meta.Config) { c.MaxDFAStates = 1 })
	addFixed("noascii", func(c *meta.Config) { c.EnableASCIIOptimization = false })
	addFixed("minlit3-maxlit2", func(c *meta.Config) { c.MinLiteralLen = 3; c.MaxLiterals = 2 })

	f, err := os.Open(*in)
	if err != nil {
		fatal(err)
	}
	defer f.Close()
	var dmu sync.Mutex
	digests := map[string]string{}
	_, err = core.ReadRecords(f, runtime.NumCPU(), func(rec *core.Record) {
		pat := rec.Re.Pattern()
		def, derr := coregex.Compile(pat)
		if derr != nil {
			return // C09's business
		}
		re, _ := syntax.Parse(pat, syntax.Perl)
		var pv *nfa.PikeVM
		if n, err := nfa.NewDefaultCompiler().CompileRegexp(re); err == nil {
			pv = nfa.NewPikeVM(n)
		}
		type cv struct {
			name string
			re   *coregex.Regex
		}
		var vs []cv
		for i, c := range fixed {
			if r, err := coregex.CompileWithConfig(pat, c); err == nil {
				vs = append(vs, cv{fixedNames[i], r})
			} else {
				rep.Fail(&core.Failure{Prop: "C12", API: "CompileWithConfig", Mode: "first", Pattern: pat, Cfg: fixedNames[i],
					Want: "compiles like the default configuration", Got: err.Error(), Fam: rec.Fam})
			}
		}
		for k := 0; k < *rot; k++ {
			c := &valid[(rec.I*7+k*131)%len(valid)]
			mc := c.meta()
			if mc.MaxRecursionDepth < 100 {
				mc.MaxRecursionDepth = 100 // depth limits change what compiles, not answers: C09 covers them
			}
			if r, err := coregex.CompileWithConfig(pat, mc); err == nil {
				vs = append(vs, cv{c.name(), r})
			} else {
				rep.Fail(&core.Failure{Prop: "C12", API: "CompileWithConfig", Mode: "first", Pattern: pat, Cfg: c.name(),
					Want: "compiles like the default configuration", Got: err.Error(), Fam: rec.Fam})
			}
		}
		h1 := sha1.New()
		calls, cases, nontriv := 0, 0, 0
		// the record's haystacks, and pumped members of its 2-symbol haystacks that cross the vector block sizes (16/32/64
		// bytes) and the 100-byte window: the CPU-masked runs and the prefilter-related knobs only differ on longer inputs
		type hcase struct {
			b  []byte
			hx string
		}
		var hcs []hcase
		for hi := range rec.Hs {
			b := core.HayBytes(rec.Hs[hi].H)
			hcs = append(hcs, hcase{b, core.Hex(b)})
		}
		for hi := range rec.Hs {
			h := rec.Hs[hi].H
			if len(h) != 2 || (rec.I+h[0]*5+h[1])%2 != 0 {
				continue
			}
			for li, n := range []int{20, 70, 150} {
				var u, v, w []int
				switch (li + h[0]) % 3 {
				case 0:
					u, v, w = nil, h[:1], h[1:]
				case 1:
					u, v, w = h[:1], h[1:], nil
				default:
					u, v, w = nil, h, nil
				}
				ub, vb, wb := core.HayBytes(u), core.HayBytes(v), core.HayBytes(w)
				b := append([]byte{}, ub...)
				for len(b) < n {
					b = append(b, vb...)
				}
				b = append(b, wb...)
				hcs = append(hcs, hcase{b, core.Hex(ub) + "|" + core.Hex(vb) + "*|" + core.Hex(wb) + fmt.Sprintf("|%d", len(b))})
			}
		}
		for _, hc := range hcs {
			b, hx := hc.b, hc.hx
			cases++
			want, perr := results(def, b)
			if perr != "" {
				continue // a panic under the default configuration is C07's business
			}
			fmt.Fprintf(h1, "%v|%v|%v|%v|%d;", want.match, want.idx, want.sub, want.all, want.count)
			if want.match && len(b) > 0 {
				nontriv++
			}
			for _, v := range vs {
				calls += 5
				got, perr := results(v.re, b)
				d := perr
				if d == "" {
					d = got.diff(&want)
				} else {
					d = "panic: " + d
				}
				if d != "" {
					rep.Fail(&core.Failure{Prop: "C12", API: "CompileWithConfig", Mode: "first", Pattern: pat, Hay: hx, Cfg: v.name,
						Want: "same results as the default configuration", Got: d + " (config vs default)", Fam: rec.Fam})
				}
			}
			if pv != nil {
				calls += 2
				func() {
					defer func() { recover() }()
					s, e, ok := pv.Search(b)
					if ok != want.match || (ok && (s != want.idx[0] || e != want.idx[1])) {
						rep.Fail(&core.Failure{Prop: "C12", API: "PikeVM-reference", Mode: "first", Pattern: pat, Hay: hx, Cfg: "default",
							Want: fmt.Sprintf("plain NFA simulation: [%d %d %v]", s, e, ok), Got: fmt.Sprintf("default config: %v", want.idx), Fam: rec.Fam})
					}
				}()
			}
		}
		dmu.Lock()
		digests[rec.Fam+":"+strconv.Itoa(rec.I)+":"+pat] = hex.EncodeToString(h1.Sum(nil))
		dmu.Unlock()
		rep.Add(1, cases, calls, nontriv, "")
		if rec.I%89 == 1 && len(vs) > 0 {
			names := []string{}
			for _, v := range vs {
				names = append(names, v.name)
			}
			rep.Sample(map[string]any{"pattern": pat, "configs": names, "haystacks": len(rec.Hs)})
		}
	})
	rep.Extra["configs_enumerated"] = len(cfgs)
	rep.Extra["configs_valid"] = len(valid)
	rep.Extra["validate_calls"] = vcalls
	rep.Extra["godebug"] = os.Getenv("GODEBUG")
	if *digest != "" {
		keys := make([]string, 0, len(digests))
		for k := range digests {
			keys = append(keys, k)
		}
		sort.Strings(keys)
		var sb strings.Builder
		for _, k := range keys {
			sb.WriteString(digests[k] + " " + k + "\n")
		}
		os.WriteFile(*digest, []byte(sb.String()), 0o644)
	}
	if err != nil {
		rep.Machinery(err.Error())
	}
	if err2 := rep.Close(*report); err2 != nil {
		fatal(err2)
	}
	if err != nil {
		fatal(err)
	}
}
