package main

// C16: prefilters never skip a match; complete prefilters are exact.
//
// Input: the output of spec/MC_Prefilter.tla, phase "gen".  TLC has enumerated the universe of literal sets and
// printed, per literal set L, PMatch(L,h,s) (hence PFind) and PMatchLine(L,h,s) for every haystack h of the haystack
// universe and every start offset s; the digit scanner's table; and behaviours of the Tracker machine.
//
// Per literal set this driver
//  1. validates the references against each other (three-way rule): TLA+ value == naive Go implementation ==
//     package regexp on the alternation l1|l2|..|ln (leftmost-first), for every (h, s); a disagreement is a spec gap
//     and the set is skipped;
//  2. builds the real prefilters every way the library offers: prefilter.NewBuilder(seq, nil).Build() from a
//     literal.Seq (complete and incomplete literals, as prefixes and as suffixes), from a pattern the way
//     meta/compile.go does (syntax.Parse, literal.ExtractPrefixes, NewBuilder, adjustForAnchors' wrappers), the direct
//     constructors NewTeddy / NewFatTeddy (default and custom configurations: fingerprint length 1..4), the wrappers
//     WrapIncomplete, WrapLineAnchor, and the Tracker (kept efficient by ConfirmMatch);
//  3. compares Find(h, s) with the TLA+ value for every (h, s) of the short universe;
//  4. embeds every haystack that holds an occurrence (or -embed N of them, evenly spaced) at pad offsets 0,1,15,16,17,31,32,33,63,64,65 inside neutral and
//     near-miss filler, flush with the end of the buffer and followed by 17 more filler bytes, and compares Find /
//     FindMatch with the naive implementation (validated in step 1) so that the vector kernels' block boundaries and
//     tails are crossed;
//  5. for every prefilter that declares itself complete compares the reported span (FindMatch when offered, else
//     Find + LiteralLen when LiteralLen > 0) with the leftmost-first match of the originating alternation.
//
// DigitPrefilter: Find == first ASCII digit at or after s.  Tracker: the TLC-generated operation sequences are
// replayed; C16 demands Find == inner Find also from a retired tracker.

import (
	"bufio"
	"bytes"
	"encoding/json"
	"flag"
	"fmt"
	"os"
	"regexp"
	"regexp/syntax"
	"runtime"
	"sort"
	"strconv"
	"strings"
	"sync"

	"github.com/coregx/coregex/literal"
	"github.com/coregx/coregex/meta"
	"github.com/coregx/coregex/prefilter"
	"golang.org/x/sys/cpu"

	"verif/harness/internal/core"
)

type pfHdr struct {
	K       string  `json:"k"`
	NAlpha  int     `json:"nalpha"`
	Hays    [][]int `json:"hays"`
	BigHays [][]int `json:"bighays"`
	DigHays [][]int `json:"dighays"`
	NSets   int     `json:"nsets"`
	NSmall  int     `json:"nsmall"`
	Shard   int     `json:"shard"`
	NShards int     `json:"nshards"`
}

type pfSet struct {
	K    string  `json:"k"`
	I    int     `json:"i"`
	Fam  string  `json:"fam"`
	Big  bool    `json:"big"`
	Lits [][]int `json:"lits"`
	NHay int     `json:"nhay"`
	Hs   [][]int `json:"hs"`
	Ls   [][]int `json:"ls"`
}

type pfDigit struct {
	Rows [][]int `json:"rows"`
}

type pfTrk struct {
	I     int       `json:"i"`
	Ops   []int     `json:"ops"`
	Cfgs  [][]int   `json:"cfgs"`
	Steps [][][]int `json:"steps"`
}

type pfTrkLong struct {
	Cfg  []int   `json:"cfg"`
	N    int     `json:"n"`
	Runs [][]int `json:"runs"`
}

var pfPads = []int{0, 1, 15, 16, 17, 31, 32, 33, 63, 64, 65}
var pfTails = []int{0, 17}

const pfNeutral = '.' // 0x2E: shares no nibble with a q b A r

type pfCtx struct {
	rep      *core.Report
	hays     [][]byte
	bigHays  [][]byte
	digHays  [][]byte
	embedMax int
	capFail  int
	mu       sync.Mutex
	byFam    map[string]int
	built    map[string]int
	complete map[string]int
	notBuilt int
	embedded int
	shortCmp int
	spanCmp  int
	failAPI  map[string]int
}

func pfLitsString(L [][]byte) string {
	parts := make([]string, len(L))
	for i, l := range L {
		parts[i] = strconv.Quote(string(l))
	}
	return strings.Join(parts, ",")
}

// occVec[i] = index of the first literal (in order) occurring at offset i, or -1.
func pfOccVec(L [][]byte, h []byte) []int {
	v := make([]int, len(h)+1)
	for i := range v {
		v[i] = -1
		for k, l := range L {
			if i+len(l) <= len(h) && bytes.Equal(h[i:i+len(l)], l) {
				v[i] = k
				break
			}
		}
	}
	return v
}

// naive reference from an occurrence vector: smallest i >= s with an occurrence (and, for line, at a line start).
func pfNaiveFrom(L [][]byte, h []byte, occ []int, s int, line bool) (int, int) {
	for i := s; i < len(occ); i++ {
		if occ[i] >= 0 && (!line || i == 0 || h[i-1] == '\n') {
			return i, i + len(L[occ[i]])
		}
	}
	return -1, -1
}

func pfAltPattern(L [][]byte) string {
	parts := make([]string, len(L))
	for i, l := range L {
		parts[i] = regexp.QuoteMeta(string(l))
	}
	return strings.Join(parts, "|")
}

// stdlib leftmost-first match of re from offset s.  For the line-anchored form the byte before s must stay visible to
// "^": it is kept when it is a newline and replaced by NUL otherwise (no literal holds newline or NUL).
func pfStdFrom(re *regexp.Regexp, h []byte, s int, line bool) (int, int) {
	if !line || s == 0 {
		loc := re.FindIndex(h[s:])
		if loc == nil {
			return -1, -1
		}
		return loc[0] + s, loc[1] + s
	}
	buf := append([]byte(nil), h[s-1:]...)
	if buf[0] != '\n' {
		buf[0] = 0
	}
	loc := re.FindIndex(buf)
	if loc == nil {
		return -1, -1
	}
	return loc[0] + s - 1, loc[1] + s - 1
}

type pfImpl struct {
	name     string
	pf       prefilter.Prefilter
	lits     [][]byte // the literals this prefilter searches for (Find reference)
	specLits bool     // lits are exactly the TLC literal set in TLC's order: the TLA+ table applies to Find
	line     bool     // wrapped by the line-anchor wrapper
	confirm  func()   // tracker: keep it efficient
	primary  bool     // has a search kernel of its own: also driven on the embedded haystacks
}

func pfTypeName(pf prefilter.Prefilter) string {
	s := fmt.Sprintf("%T", pf)
	s = strings.TrimPrefix(s, "*prefilter.")
	s = strings.TrimSuffix(s, "Prefilter")
	return s
}

func pfSafeFind(pf prefilter.Prefilter, h []byte, s int) (r int, p any) {
	defer func() {
		if x := recover(); x != nil {
			p = x
		}
	}()
	return pf.Find(h, s), nil
}

func pfSafeFindMatch(mf prefilter.MatchFinder, h []byte, s int) (a, b int, p any) {
	defer func() {
		if x := recover(); x != nil {
			p = x
		}
	}()
	a, b = mf.FindMatch(h, s)
	return a, b, nil
}

func pfSeqLits(seq *literal.Seq) [][]byte {
	out := make([][]byte, seq.Len())
	for i := range out {
		out[i] = append([]byte(nil), seq.Get(i).Bytes...)
	}
	return out
}

func pfSameLits(a, b [][]byte) bool {
	if len(a) != len(b) {
		return false
	}
	for i := range a {
		if !bytes.Equal(a[i], b[i]) {
			return false
		}
	}
	return true
}

// fromPattern builds the prefilter of pattern pat the way meta.CompileRegexp does (prefix extraction, Builder) and
// applies adjustForAnchors' wrapping for a pattern whose only anchor is (?m)^ when lineAnchored is set.
func pfFromPattern(pat string, lineAnchored bool) (pf prefilter.Prefilter, lits [][]byte, err any) {
	defer func() {
		if x := recover(); x != nil {
			err = x
		}
	}()
	re, perr := syntax.Parse(pat, syntax.Perl)
	if perr != nil {
		return nil, nil, perr
	}
	ex := literal.New(literal.ExtractorConfig{MaxLiterals: meta.DefaultConfig().MaxLiterals, MaxLiteralLen: 64, MaxClassSize: 10})
	seq := ex.ExtractPrefixes(re)
	if seq == nil || seq.IsEmpty() {
		return nil, nil, nil
	}
	pf = prefilter.NewBuilder(seq, nil).Build()
	if pf == nil {
		return nil, nil, nil
	}
	lits = pfSeqLits(seq)
	if lineAnchored && pf.IsComplete() {
		pf = prefilter.WrapLineAnchor(pf)
	}
	return pf, lits, nil
}

func (c *pfCtx) buildImpls(L [][]byte) []*pfImpl {
	var out []*pfImpl
	add := func(name string, pf prefilter.Prefilter, lits [][]byte, spec, line bool) *pfImpl {
		im := &pfImpl{name: name, pf: pf, lits: lits, specLits: spec, line: line, primary: true}
		out = append(out, im)
		return im
	}
	mkSeq := func(complete bool) *literal.Seq {
		ls := make([]literal.Literal, len(L))
		for i, l := range L {
			ls[i] = literal.NewLiteral(append([]byte(nil), l...), complete)
		}
		return literal.NewSeq(ls...)
	}
	minLen, n := len(L[0]), len(L)
	for _, l := range L {
		if len(l) < minLen {
			minLen = len(l)
		}
	}
	guard := func(what string, f func()) {
		defer func() {
			if x := recover(); x != nil {
				c.fail(&core.Failure{Prop: "C16", Scope: "prefilter", API: what, Mode: "first", Pattern: pfLitsString(L), Hay: "",
					Want: "construction succeeds or declines", Got: fmt.Sprint("panic: ", x)})
			}
		}()
		f()
	}
	// 1. Builder from a literal.Seq
	var basePf prefilter.Prefilter
	guard("Builder.Build", func() {
		basePf = prefilter.NewBuilder(mkSeq(true), nil).Build()
		if basePf == nil {
			c.mu.Lock()
			c.notBuilt++
			c.mu.Unlock()
			return
		}
		t := pfTypeName(basePf)
		add("Builder(complete)/"+t, basePf, L, true, false)
		if pf2 := prefilter.NewBuilder(nil, mkSeq(false)).Build(); pf2 != nil {
			add("Builder(suffixes,incomplete)/"+pfTypeName(pf2), pf2, L, true, false).primary = false
		}
		add("WrapIncomplete/"+t, prefilter.WrapIncomplete(basePf), L, true, false).primary = false
		add("WrapLineAnchor/"+t, prefilter.WrapLineAnchor(basePf), L, true, true)
		tr := prefilter.NewTracker(basePf)
		im := add("Tracker(efficient)/"+t, tr, L, true, false)
		im.confirm, im.primary = tr.ConfirmMatch, false
		wt := prefilter.WrapWithTracking(basePf)
		im2 := add("WrapWithTracking(efficient)/"+t, wt, L, true, false)
		im2.primary = false
		if tp, ok := wt.(*prefilter.TrackedPrefilter); ok {
			im2.confirm = tp.ConfirmMatch
		}
	})
	// 2. direct constructors
	effDone := map[int]bool{}
	guard("NewTeddy", func() {
		if n <= prefilter.MaxSlimTeddyPatterns {
			if t := prefilter.NewTeddy(L, nil); t != nil {
				add("NewTeddy(default)", t, L, true, false)
				e := 2
				if minLen < e {
					e = minLen
				}
				effDone[e] = true
			}
			for f := 1; f <= 4; f++ {
				e := f
				if minLen < e {
					e = minLen
				}
				if effDone[e] {
					continue
				}
				effDone[e] = true
				cfg := &prefilter.TeddyConfig{MinPatterns: 1, MaxPatterns: prefilter.MaxSlimTeddyPatterns, MinPatternLen: 1, FingerprintLen: f}
				if t := prefilter.NewTeddy(L, cfg); t != nil {
					add(fmt.Sprintf("NewTeddy(fp=%d,minlen=1)", e), t, L, true, false)
				}
			}
		}
	})
	effDoneF := map[int]bool{}
	guard("NewFatTeddy", func() {
		if n <= prefilter.MaxFatTeddyPatterns {
			if t := prefilter.NewFatTeddy(L, nil); t != nil {
				add("NewFatTeddy(default)", t, L, true, false)
				e := 2
				if minLen < e {
					e = minLen
				}
				effDoneF[e] = true
			}
			for f := 1; f <= 2; f++ {
				e := f
				if minLen < e {
					e = minLen
				}
				if effDoneF[e] {
					continue
				}
				effDoneF[e] = true
				cfg := &prefilter.FatTeddyConfig{MinPatterns: 1, MaxPatterns: prefilter.MaxFatTeddyPatterns, MinPatternLen: 1, FingerprintLen: f}
				if t := prefilter.NewFatTeddy(L, cfg); t != nil {
					add(fmt.Sprintf("NewFatTeddy(fp=%d,minlen=1)", e), t, L, true, false)
				}
			}
		}
	})
	// 3. from the originating pattern, as meta/compile.go does
	alt := pfAltPattern(L)
	for _, v := range []struct {
		name, pat string
		line      bool
	}{{"Pattern", alt, false}, {"Pattern(?m)^", "(?m)^(?:" + alt + ")", true}} {
		pf, lits, err := pfFromPattern(v.pat, v.line)
		if err != nil {
			c.fail(&core.Failure{Prop: "C16", Scope: "prefilter", API: v.name + "/build", Mode: "first", Pattern: pfLitsString(L), Hay: "",
				Want: "construction succeeds or declines", Got: fmt.Sprint("error: ", err)})
			continue
		}
		if pf == nil {
			continue
		}
		isLine := v.line && pf.IsComplete() // only a complete prefilter is wrapped by adjustForAnchors
		add(v.name+"/"+pfTypeName(pf), pf, lits, pfSameLits(lits, L), isLine)
	}
	return out
}

func (c *pfCtx) fail(f *core.Failure) {
	if g := os.Getenv("GODEBUG"); g != "" { // CPU-mask runs: not part of the failure's identity, but needed to replay it
		f.Args = strings.TrimSpace(f.Args + " GODEBUG=" + g)
	}
	c.rep.Fail(f)
	c.mu.Lock()
	c.failAPI[f.API]++
	c.mu.Unlock()
}

type pfLimiter struct {
	n   map[string]int
	cap int
}

func (l *pfLimiter) ok(key string) bool {
	l.n[key]++
	return l.cap <= 0 || l.n[key] <= l.cap
}

// nearMiss returns the cyclic filler built from literal l: all of l but its last byte, then 'r' (a byte outside the
// literal alphabet whose nibbles mix those of 'q' and 'b').
func pfNearMiss(l []byte) []byte {
	p := append([]byte(nil), l[:len(l)-1]...)
	return append(p, 'r')
}

func pfEmbed(h []byte, pad, tail int, fill []byte) []byte {
	n := pad + len(h) + tail
	b := make([]byte, n)
	for i := range b {
		b[i] = fill[i%len(fill)]
	}
	copy(b[pad:], h)
	return b
}

func pfSpanStr(a, b int) string { return fmt.Sprintf("[%d %d]", a, b) }

func (c *pfCtx) doSet(rec *pfSet) {
	L := make([][]byte, len(rec.Lits))
	for i, l := range rec.Lits {
		L[i] = toBytes(l)
	}
	H := c.hays
	if rec.Big {
		H = c.bigHays
	}
	pat := pfLitsString(L)
	if rec.NHay != len(H) {
		c.rep.Machinery(fmt.Sprintf("set %d: record has %d haystacks, header %d", rec.I, rec.NHay, len(H)))
		return
	}
	// TLA+ tables
	decode := func(rows [][]int) map[int][]int {
		m := make(map[int][]int, len(rows))
		for _, r := range rows {
			m[r[0]-1] = r[1:]
		}
		return m
	}
	tab, tabL := decode(rec.Hs), decode(rec.Ls)
	spec := func(t map[int][]int, x, s int) (int, int) {
		r, ok := t[x]
		if !ok || r[s] == 0 {
			return -1, -1
		}
		p := r[s]/64 - 1
		return p, p + r[s]%64
	}
	alt := pfAltPattern(L)
	std, err1 := regexp.Compile(alt)
	stdL, err2 := regexp.Compile("(?m)^(?:" + alt + ")")
	if err1 != nil || err2 != nil {
		c.rep.Machinery(fmt.Sprintf("set %d: regexp.Compile: %v %v", rec.I, err1, err2))
		return
	}
	// 1. references against each other
	occs := make([][]int, len(H))
	nontriv := 0
	for x, h := range H {
		occs[x] = pfOccVec(L, h)
		if r, ok := tab[x]; ok {
			if len(r) != len(h)+1 {
				c.rep.Machinery(fmt.Sprintf("set %d: row of haystack %d has %d entries", rec.I, x, len(r)))
				return
			}
			nontriv++
		}
		for s := 0; s <= len(h); s++ {
			for _, line := range []bool{false, true} {
				t := tab
				re := std
				if line {
					t, re = tabL, stdL
				}
				sp, se := spec(t, x, s)
				np, ne := pfNaiveFrom(L, h, occs[x], s, line)
				gp, ge := pfStdFrom(re, h, s, line)
				if sp != gp || se != ge || sp != np || se != ne {
					c.rep.Gap(fmt.Sprintf("literals %s line=%v hay %x start=%d: TLA+ %s naive %s regexp %s", pat, line, h, s,
						pfSpanStr(sp, se), pfSpanStr(np, ne), pfSpanStr(gp, ge)))
					return
				}
			}
		}
	}
	impls := c.buildImpls(L)
	lim := &pfLimiter{n: map[string]int{}, cap: c.capFail}
	report := func(im *pfImpl, method string, h []byte, s int, want, got string) {
		api := im.name + "." + method
		if !lim.ok(api) {
			c.mu.Lock()
			c.failAPI[api+" (suppressed beyond cap)"]++
			c.mu.Unlock()
			return
		}
		c.fail(&core.Failure{Prop: "C16", Scope: "prefilter", API: api, Mode: "first", Pattern: pat, Hay: core.Hex(h),
			Args: fmt.Sprintf("start=%d", s), Want: want, Got: got, Fam: rec.Fam})
	}
	calls, spans, embedded := 0, 0, 0
	apiCalls := map[string]int{}
	// check one (haystack, start) for one implementation; wantP/wantE: reference for Find over im.lits;
	// origP/origE: leftmost-first match of the originating alternation (literal set L in TLC's order)
	check := func(im *pfImpl, h []byte, s, wantP, origP, origE int) {
		got, p := pfSafeFind(im.pf, h, s)
		calls++
		apiCalls[im.name+".Find"]++
		if p != nil {
			report(im, "Find", h, s, strconv.Itoa(wantP), fmt.Sprint("panic: ", p))
			return
		}
		if got != wantP {
			report(im, "Find", h, s, strconv.Itoa(wantP), strconv.Itoa(got))
		}
		if got >= 0 && im.confirm != nil {
			im.confirm()
		}
		if !im.pf.IsComplete() {
			return
		}
		// complete: the span is the match of the originating pattern
		if got != origP && got == wantP {
			report(im, "Find(IsComplete)", h, s, "match start "+strconv.Itoa(origP), strconv.Itoa(got))
		}
		if mf, ok := im.pf.(prefilter.MatchFinder); ok {
			a, b, p := pfSafeFindMatch(mf, h, s)
			spans++
			apiCalls[im.name+".FindMatch"]++
			if p != nil {
				report(im, "FindMatch", h, s, pfSpanStr(origP, origE), fmt.Sprint("panic: ", p))
			} else if a != origP || b != origE {
				report(im, "FindMatch", h, s, pfSpanStr(origP, origE), pfSpanStr(a, b))
			}
		}
		if ll := im.pf.LiteralLen(); ll > 0 && got >= 0 {
			spans++
			apiCalls[im.name+".LiteralLen"]++
			if got != origP || got+ll != origE {
				report(im, "Find+LiteralLen", h, s, pfSpanStr(origP, origE), pfSpanStr(got, got+ll))
			}
		}
	}
	// per implementation: occurrence vectors of its own literal list when that differs from L
	ownOcc := func(im *pfImpl, h []byte, occL []int) []int {
		if im.specLits {
			return occL
		}
		return pfOccVec(im.lits, h)
	}
	// 3. the short universe against the TLA+ tables
	for x, h := range H {
		for _, im := range impls {
			var oo []int
			if !im.specLits {
				oo = pfOccVec(im.lits, h)
			}
			for s := 0; s <= len(h); s++ {
				t := tab
				if im.line {
					t = tabL
				}
				origP, origE := spec(t, x, s)
				wantP := origP
				if !im.specLits {
					wantP, _ = pfNaiveFrom(im.lits, h, oo, s, im.line)
				}
				check(im, h, s, wantP, origP, origE)
			}
		}
	}
	// 4. embedded at the pad offsets
	fillers := [][]byte{{pfNeutral}, pfNearMiss(L[0])}
	if nm := pfNearMiss(L[len(L)-1]); rec.Big && !bytes.Equal(nm, fillers[1]) {
		fillers = append(fillers, nm)
	}
	hits := make([]int, 0, len(tab))
	for x := range tab {
		hits = append(hits, x)
	}
	sort.Ints(hits)
	em := c.embedMax
	if rec.Big {
		em *= 4
	}
	if em > 0 && len(hits) > em {
		step := len(hits) / em
		var sel []int
		for i := 0; i < len(hits) && len(sel) < em; i += step {
			sel = append(sel, hits[i])
		}
		hits = sel
	}
	doBuf := func(buf []byte, offs []int) bool {
		occL := pfOccVec(L, buf)
		// naive against regexp on the embedded haystack (three-way), at the first offset
		for _, line := range []bool{false, true} {
			re := std
			if line {
				re = stdL
			}
			np, ne := pfNaiveFrom(L, buf, occL, offs[0], line)
			gp, ge := pfStdFrom(re, buf, offs[0], line)
			if np != gp || ne != ge {
				c.rep.Gap(fmt.Sprintf("literals %s line=%v embedded hay %x start=%d: naive %s regexp %s", pat, line, buf, offs[0], pfSpanStr(np, ne), pfSpanStr(gp, ge)))
				return false
			}
		}
		embedded++
		for _, im := range impls {
			if !im.primary {
				continue
			}
			oo := ownOcc(im, buf, occL)
			for _, s := range offs {
				origP, origE := pfNaiveFrom(L, buf, occL, s, im.line)
				wantP := origP
				if !im.specLits {
					wantP, _ = pfNaiveFrom(im.lits, buf, oo, s, im.line)
				}
				check(im, buf, s, wantP, origP, origE)
			}
		}
		return true
	}
	for _, x := range hits {
		h := H[x]
		for _, fill := range fillers {
			for _, pad := range pfPads {
				for _, tail := range pfTails {
					buf := pfEmbed(h, pad, tail, fill)
					offs := []int{0}
					for _, s := range []int{pad, pad + 1} {
						if s > 0 && s <= len(buf) && s != offs[len(offs)-1] {
							offs = append(offs, s)
						}
					}
					if !doBuf(buf, offs) {
						return
					}
				}
			}
		}
	}
	// every literal itself as the embedded haystack (the only occurrences of literals longer than the short haystacks)
	for k, l := range L {
		if !rec.Big && k >= 8 {
			break
		}
		for _, fill := range fillers {
			for _, pad := range pfPads {
				for _, tail := range pfTails {
					if !doBuf(pfEmbed(l, pad, tail, fill), []int{0, pad, pad + 1}) {
						return
					}
				}
			}
		}
	}
	// pure filler of every length 0..80 (no occurrence unless the filler itself forms one; the naive reference decides)
	for _, fill := range fillers {
		for n := 0; n <= 80; n++ {
			if !doBuf(pfEmbed(nil, n, 0, fill), []int{0}) {
				return
			}
		}
	}
	c.rep.Add(1, len(H), calls+spans, nontriv, "")
	c.mu.Lock()
	c.byFam[rec.Fam]++
	for _, im := range impls {
		c.built[im.name]++
		if im.pf.IsComplete() {
			c.complete[im.name]++
		}
	}
	c.embedded += embedded
	c.shortCmp += len(H)
	c.spanCmp += spans
	c.mu.Unlock()
	for k, v := range apiCalls {
		c.rep.API(k, v)
	}
	if len(L) <= 3 || rec.Big {
		names := []string{}
		for _, im := range impls {
			names = append(names, im.name)
		}
		c.rep.Sample(map[string]any{"literals": pat, "family": rec.Fam, "implementations": names, "haystacks_with_occurrence": nontriv})
	}
}

func (c *pfCtx) doDigit(rec *pfDigit) {
	if len(rec.Rows) != len(c.digHays) {
		c.rep.Machinery("digit table size differs from header")
		return
	}
	pf := prefilter.NewDigitPrefilter()
	naive := func(h []byte, s int) int {
		for i := s; i < len(h); i++ {
			if h[i] >= '0' && h[i] <= '9' {
				return i
			}
		}
		return -1
	}
	stdDigit := regexp.MustCompile(`[0-9]`)
	stdF := func(h []byte, s int) int {
		loc := stdDigit.FindIndex(h[s:])
		if loc == nil {
			return -1
		}
		return loc[0] + s
	}
	calls, nontriv, nfail := 0, 0, 0
	one := func(h []byte, s, want int) {
		got, p := pfSafeFind(pf, h, s)
		calls++
		if p != nil || got != want {
			nfail++
			if nfail <= 50 {
				g := strconv.Itoa(got)
				if p != nil {
					g = fmt.Sprint("panic: ", p)
				}
				c.fail(&core.Failure{Prop: "C16", Scope: "prefilter", API: "DigitPrefilter.Find", Mode: "first", Pattern: "[0-9]", Hay: core.Hex(h),
					Args: fmt.Sprintf("start=%d", s), Want: strconv.Itoa(want), Got: g, Fam: "DIGIT"})
			}
		}
	}
	for x, h := range c.digHays {
		row := rec.Rows[x]
		if row[0] != 0 {
			nontriv++
		}
		for s := 0; s <= len(h); s++ {
			want := row[s] - 1
			if n, g := naive(h, s), stdF(h, s); n != want || g != want {
				c.rep.Gap(fmt.Sprintf("digit hay %x start=%d: TLA+ %d naive %d regexp %d", h, s, want, n, g))
				return
			}
			one(h, s, want)
		}
		if len(h) == 0 || (c.embedMax > 0 && x%7 != 0) {
			continue
		}
		for _, fill := range [][]byte{{'x'}, {'/'}, {':'}, {'/', ':', 0xB0, 0xB9}} {
			for _, pad := range pfPads {
				for _, tail := range pfTails {
					buf := pfEmbed(h, pad, tail, fill)
					for _, s := range []int{0, pad, pad + 1, pad + len(h)} {
						if s > len(buf) {
							continue
						}
						want := naive(buf, s)
						if g := stdF(buf, s); g != want {
							c.rep.Gap(fmt.Sprintf("digit embedded hay %x start=%d: naive %d regexp %d", buf, s, want, g))
							return
						}
						one(buf, s, want)
					}
				}
			}
		}
	}
	c.rep.Add(1, len(c.digHays), calls, nontriv, "")
	c.rep.API("DigitPrefilter.Find", calls)
	c.mu.Lock()
	c.byFam["DIGIT"]++
	c.built["DigitPrefilter"]++
	c.mu.Unlock()
}

// the inner prefilter of the tracker runs: the single byte 'a' through the Builder; haystack "ab":
// Find(h, 0) has a candidate (0), Find(h, 1) has none.
func pfTrackerInner() prefilter.Prefilter {
	return prefilter.NewBuilder(literal.NewSeq(literal.NewLiteral([]byte("a"), false)), nil).Build()
}

func (c *pfCtx) doTrk(rec *pfTrk) {
	h := []byte("ab")
	inner := pfTrackerInner()
	calls := 0
	for ci, cfg := range rec.Cfgs {
		tc := prefilter.TrackerConfig{WarmupPeriod: uint64(cfg[0]), CheckInterval: uint64(cfg[1]), MinEfficiency: float64(cfg[2]) / float64(cfg[3])}
		tr := prefilter.NewTrackerWithConfig(inner, tc)
		failed := false
		for k, op := range rec.Ops {
			st := rec.Steps[ci][k] // answer (model), demanded answer, candidates, confirms, active
			switch op {
			case 1, 2:
				start := 0
				if op == 2 {
					start = 1
				}
				got, p := pfSafeFind(tr, h, start)
				calls++
				want := -1
				if st[1] == 1 {
					want = 0
				}
				model := -1
				if st[0] == 1 {
					model = 0
				}
				if p == nil && got != model {
					c.rep.Gap(fmt.Sprintf("tracker model: ops %v step %d cfg %v: model answers %d, implementation %d", rec.Ops, k+1, cfg, model, got))
				}
				if (p != nil || got != want) && !failed {
					failed = true
					g := strconv.Itoa(got)
					if p != nil {
						g = fmt.Sprint("panic: ", p)
					}
					c.fail(&core.Failure{Prop: "C16", Scope: "prefilter", API: "Tracker.Find", Mode: "first", Pattern: `"a"`, Hay: core.Hex(h),
						Args: fmt.Sprintf("start=%d warmup=%d interval=%d minEff=%d/%d ops=%s step=%d", start, cfg[0], cfg[1], cfg[2], cfg[3], pfOpsString(rec.Ops), k+1),
						Want: strconv.Itoa(want), Got: g, Fam: "TRACKER"})
				}
			case 3:
				tr.ConfirmMatch()
			case 4:
				tr.Reset()
			}
			cand, conf, _, active := tr.Stats()
			if int(cand) != st[2] || int(conf) != st[3] || active != (st[4] == 1) || tr.IsActive() != active {
				c.rep.Gap(fmt.Sprintf("tracker model: ops %v step %d cfg %v: model state (%d,%d,%d), implementation (%d,%d,%v)", rec.Ops, k+1, cfg, st[2], st[3], st[4], cand, conf, active))
				break
			}
		}
	}
	c.rep.Add(0, 1, calls, 1, "")
	c.rep.API("Tracker.Find", calls)
	c.mu.Lock()
	c.byFam["TRACKER"]++
	c.mu.Unlock()
}

func pfOpsString(ops []int) string {
	b := make([]byte, len(ops))
	for i, o := range ops {
		b[i] = "?FMCR"[o] // Find with candidate, Find without (Miss), Confirm, Reset
	}
	return string(b)
}

func (c *pfCtx) doTrkLong(rec *pfTrkLong) {
	h := []byte("ab")
	def := prefilter.DefaultTrackerConfig()
	if int(def.WarmupPeriod) != rec.Cfg[0] || int(def.CheckInterval) != rec.Cfg[1] || def.MinEfficiency != float64(rec.Cfg[2])/float64(rec.Cfg[3]) {
		c.rep.Gap(fmt.Sprintf("tracker model: default configuration is %+v, the specification assumes %v", def, rec.Cfg))
		return
	}
	calls := 0
	for _, run := range rec.Runs { // confirmations, deact, candidates, confirms, active
		tr := prefilter.NewTracker(pfTrackerInner())
		for i := 0; i < run[0]; i++ {
			tr.ConfirmMatch()
		}
		firstMinus := 0
		for k := 1; k <= rec.N; k++ {
			got, p := pfSafeFind(tr, h, 0)
			calls++
			if (p != nil || got != 0) && firstMinus == 0 {
				firstMinus = k
				g := strconv.Itoa(got)
				if p != nil {
					g = fmt.Sprint("panic: ", p)
				}
				c.fail(&core.Failure{Prop: "C16", Scope: "prefilter", API: "Tracker.Find", Mode: "first", Pattern: `"a"`, Hay: core.Hex(h),
					Args: fmt.Sprintf("start=0 default config, %d ConfirmMatch then Find number %d", run[0], k), Want: "0", Got: g, Fam: "TRACKER"})
			}
		}
		modelFirst := 0
		if run[1] > 0 {
			modelFirst = run[1] + 1
		}
		cand, conf, _, active := tr.Stats()
		if firstMinus != modelFirst || int(cand) != run[2] || int(conf) != run[3] || active != (run[4] == 1) {
			c.rep.Gap(fmt.Sprintf("tracker model (default config, %d confirms): model first -1 at Find %d state (%d,%d,%d); implementation %d (%d,%d,%v)",
				run[0], modelFirst, run[2], run[3], run[4], firstMinus, cand, conf, active))
		}
	}
	c.rep.Add(0, len(rec.Runs), calls, len(rec.Runs), "")
	c.rep.API("Tracker.Find", calls)
}

func runPrefilter(args []string) {
	fs := flag.NewFlagSet("prefilter", flag.ExitOnError)
	in := fs.String("in", "", "TLC output (MC_Prefilter, Phase gen)")
	report := fs.String("report", "report.json", "")
	fails := fs.String("fail", "fail.ndjson", "")
	embedMax := fs.Int("embed", 16, "embed this many haystacks with an occurrence per literal set, evenly spaced (4x for the structured large sets; 0 = all). Part of the fixed universe: keep the default")
	capFail := fs.Int("cap", 2, "failures reported per (literal set, implementation, method), the first ones in enumeration order; the rest is only counted (0 = all)")
	workers := fs.Int("workers", runtime.NumCPU(), "")
	fs.Parse(args)
	f, err := os.Open(*in)
	if err != nil {
		fatal(err)
	}
	defer f.Close()
	rep, err := core.NewReport(*fails)
	if err != nil {
		fatal(err)
	}
	ctx := &pfCtx{rep: rep, embedMax: *embedMax, capFail: *capFail, byFam: map[string]int{}, built: map[string]int{}, complete: map[string]int{}, failAPI: map[string]int{}}
	// pass 1: collect the records (the header may come anywhere in TLC's output)
	var lines []string
	var hdr *pfHdr
	br := bufio.NewReaderSize(f, 1<<20)
	for {
		line, rerr := br.ReadString('\n')
		if len(line) > 0 && line[0] == '"' {
			s, uerr := strconv.Unquote(strings.TrimRight(line, "\r\n"))
			if uerr != nil {
				fatal(fmt.Errorf("unquote: %v: %.80s", uerr, line))
			}
			if hdr == nil && strings.Contains(s, `"k":"hdr"`) {
				hdr = new(pfHdr)
				if jerr := json.Unmarshal([]byte(s), hdr); jerr != nil {
					fatal(jerr)
				}
			} else {
				lines = append(lines, s)
			}
		}
		if rerr != nil {
			break
		}
	}
	if hdr == nil {
		if len(lines) > 0 {
			fatal(fmt.Errorf("no header record in generator output"))
		}
		rep.Close(*report)
		return
	}
	conv := func(v [][]int) [][]byte {
		out := make([][]byte, len(v))
		for i, h := range v {
			out[i] = toBytes(h)
		}
		return out
	}
	ctx.hays, ctx.bigHays, ctx.digHays = conv(hdr.Hays), conv(hdr.BigHays), conv(hdr.DigHays)
	ch := make(chan string, 64)
	var wg sync.WaitGroup
	for i := 0; i < *workers; i++ {
		wg.Add(1)
		go func() {
			defer wg.Done()
			for s := range ch {
				var kind struct {
					K string `json:"k"`
				}
				if jerr := json.Unmarshal([]byte(s), &kind); jerr != nil {
					rep.Machinery("json: " + jerr.Error())
					continue
				}
				var jerr error
				switch kind.K {
				case "set":
					r := new(pfSet)
					if jerr = json.Unmarshal([]byte(s), r); jerr == nil {
						ctx.doSet(r)
					}
				case "digit":
					r := new(pfDigit)
					if jerr = json.Unmarshal([]byte(s), r); jerr == nil {
						ctx.doDigit(r)
					}
				case "trk":
					r := new(pfTrk)
					if jerr = json.Unmarshal([]byte(s), r); jerr == nil {
						ctx.doTrk(r)
					}
				case "trklong":
					r := new(pfTrkLong)
					if jerr = json.Unmarshal([]byte(s), r); jerr == nil {
						ctx.doTrkLong(r)
					}
				case "teddy":
					// design-level records of phase "teddy" are not replayed
				default:
					rep.Machinery("unknown record kind " + kind.K)
				}
				if jerr != nil {
					rep.Machinery("json: " + jerr.Error())
				}
			}
		}()
	}
	// big sets first (they take longest)
	sort.SliceStable(lines, func(i, j int) bool { return len(lines[i]) > len(lines[j]) })
	for _, s := range lines {
		ch <- s
	}
	close(ch)
	wg.Wait()
	slim, fat := "pure Go (findScalarCandidate)", "pure Go (findScalarCandidate)"
	if cpu.X86.HasSSSE3 {
		slim = "SSSE3 assembly (teddySlimSSSE3_1/_2) for fingerprint length 1-2, pure Go for 3-4"
	}
	if cpu.X86.HasAVX2 {
		fat = "AVX2 assembly (fatTeddyAVX2_2) for fingerprint length 2, pure Go otherwise"
	}
	mem := "generic / SSE path (no AVX2)"
	if cpu.X86.HasAVX2 {
		mem = "AVX2 assembly for inputs >= 32 bytes"
	}
	rep.Extra["cpu"] = map[string]any{"GODEBUG": os.Getenv("GODEBUG"), "avx2": cpu.X86.HasAVX2, "ssse3": cpu.X86.HasSSSE3, "sse41": cpu.X86.HasSSE41, "sse42": cpu.X86.HasSSE42}
	rep.Extra["selected"] = map[string]string{"slim_teddy_candidates": slim, "fat_teddy_candidates": fat, "memchr_memmem_digit": mem}
	rep.Extra["universe"] = map[string]any{"nalpha": hdr.NAlpha, "haystacks": len(ctx.hays), "haystacks_big": len(ctx.bigHays), "haystacks_digit": len(ctx.digHays),
		"literal_sets_total": hdr.NSets, "shard": fmt.Sprintf("%d/%d", hdr.Shard, hdr.NShards)}
	rep.Extra["records_by_family"] = ctx.byFam
	rep.Extra["implementations_built"] = ctx.built
	rep.Extra["implementations_complete"] = ctx.complete
	rep.Extra["sets_builder_declined"] = ctx.notBuilt
	rep.Extra["embedded_haystacks"] = ctx.embedded
	rep.Extra["span_comparisons"] = ctx.spanCmp
	rep.Extra["failures_by_api"] = ctx.failAPI
	if err := rep.Close(*report); err != nil {
		fatal(err)
	}
}

// ---------------------------------------------------------------------------------------------------------------
// Replay of one recorded C16 failure (a line of the -fail file or out/C16/viol_N.json).

func pfParseLits(pattern string) ([][]byte, error) {
	var L [][]byte
	rest := pattern
	for len(rest) > 0 {
		q, err := strconv.QuotedPrefix(rest)
		if err != nil {
			return nil, fmt.Errorf("literal set %q: %v", pattern, err)
		}
		u, _ := strconv.Unquote(q)
		L = append(L, []byte(u))
		rest = strings.TrimPrefix(rest[len(q):], ",")
	}
	if len(L) == 0 {
		return nil, fmt.Errorf("empty literal set")
	}
	return L, nil
}

// replayPrefilter re-executes the call a C16 failure record describes, recomputes the expectation with the naive
// reference and package regexp, and reports what the implementation answers now.
func replayPrefilter(d *core.Failure) (want, got string, violated bool, err error) {
	h, herr := pfHexDecode(d.Hay)
	if herr != nil {
		return "", "", false, herr
	}
	start := 0
	for _, f := range strings.Fields(d.Args) {
		if strings.HasPrefix(f, "start=") {
			start, _ = strconv.Atoi(strings.TrimPrefix(f, "start="))
		}
	}
	switch {
	case d.API == "DigitPrefilter.Find":
		w := -1
		for i := start; i < len(h); i++ {
			if h[i] >= '0' && h[i] <= '9' {
				w = i
				break
			}
		}
		g, p := pfSafeFind(prefilter.NewDigitPrefilter(), h, start)
		if p != nil {
			return strconv.Itoa(w), fmt.Sprint("panic: ", p), true, nil
		}
		return strconv.Itoa(w), strconv.Itoa(g), g != w, nil
	case d.API == "Tracker.Find":
		inner := pfTrackerInner()
		w, _ := pfSafeFind(inner, h, start)
		var tr *prefilter.Tracker
		var ops string
		var upto int
		if strings.Contains(d.Args, "default config") {
			var c, k int
			if _, serr := fmt.Sscanf(d.Args[strings.Index(d.Args, "default config"):], "default config, %d ConfirmMatch then Find number %d", &c, &k); serr != nil {
				return "", "", false, serr
			}
			tr = prefilter.NewTracker(inner)
			ops, upto = strings.Repeat("C", c)+strings.Repeat("F", k), c+k
		} else {
			var warm, interval, num, den uint64
			for _, f := range strings.Fields(d.Args) {
				switch {
				case strings.HasPrefix(f, "warmup="):
					warm, _ = strconv.ParseUint(f[7:], 10, 64)
				case strings.HasPrefix(f, "interval="):
					interval, _ = strconv.ParseUint(f[9:], 10, 64)
				case strings.HasPrefix(f, "minEff="):
					fmt.Sscanf(f[7:], "%d/%d", &num, &den)
				case strings.HasPrefix(f, "ops="):
					ops = f[4:]
				case strings.HasPrefix(f, "step="):
					upto, _ = strconv.Atoi(f[5:])
				}
			}
			if den == 0 || upto == 0 || upto > len(ops) {
				return "", "", false, fmt.Errorf("cannot parse tracker arguments %q", d.Args)
			}
			tr = prefilter.NewTrackerWithConfig(inner, prefilter.TrackerConfig{WarmupPeriod: warm, CheckInterval: interval, MinEfficiency: float64(num) / float64(den)})
		}
		g := 0
		for i := 0; i < upto; i++ {
			switch ops[i] {
			case 'F':
				g = tr.Find(h, 0)
			case 'M':
				g = tr.Find(h, 1)
			case 'C':
				tr.ConfirmMatch()
			case 'R':
				tr.Reset()
			}
		}
		return strconv.Itoa(w), strconv.Itoa(g), g != w, nil
	}
	L, perr := pfParseLits(d.Pattern)
	if perr != nil {
		return "", "", false, perr
	}
	var name, method string
	if i := strings.LastIndex(d.API, ".Find(IsComplete)"); i >= 0 {
		name, method = d.API[:i], "Find(IsComplete)"
	} else if i := strings.LastIndex(d.API, ".Find+LiteralLen"); i >= 0 {
		name, method = d.API[:i], "Find+LiteralLen"
	} else if i := strings.LastIndex(d.API, ".FindMatch"); i >= 0 {
		name, method = d.API[:i], "FindMatch"
	} else if i := strings.LastIndex(d.API, ".Find"); i >= 0 {
		name, method = d.API[:i], "Find"
	}
	rep, rerr := core.NewReport(os.DevNull)
	if rerr != nil {
		return "", "", false, rerr
	}
	ctx := &pfCtx{rep: rep, byFam: map[string]int{}, built: map[string]int{}, complete: map[string]int{}, failAPI: map[string]int{}}
	var im *pfImpl
	for _, x := range ctx.buildImpls(L) {
		if x.name == name {
			im = x
		}
	}
	if im == nil {
		return "", "", false, fmt.Errorf("implementation %q is no longer built for this literal set (not a violation any more)", name)
	}
	// references: naive and regexp must agree (three-way rule)
	occL := pfOccVec(L, h)
	origP, origE := pfNaiveFrom(L, h, occL, start, im.line)
	alt := pfAltPattern(L)
	if im.line {
		alt = "(?m)^(?:" + alt + ")"
	}
	re, cerr := regexp.Compile(alt)
	if cerr != nil {
		return "", "", false, cerr
	}
	if gp, ge := pfStdFrom(re, h, start, im.line); gp != origP || ge != origE {
		return "", "", false, fmt.Errorf("references disagree: naive %s regexp %s", pfSpanStr(origP, origE), pfSpanStr(gp, ge))
	}
	wantP, _ := pfNaiveFrom(im.lits, h, pfOccVec(im.lits, h), start, im.line)
	switch method {
	case "Find":
		g, p := pfSafeFind(im.pf, h, start)
		if p != nil {
			return strconv.Itoa(wantP), fmt.Sprint("panic: ", p), true, nil
		}
		return strconv.Itoa(wantP), strconv.Itoa(g), g != wantP, nil
	case "Find(IsComplete)":
		g, _ := pfSafeFind(im.pf, h, start)
		return "match start " + strconv.Itoa(origP), strconv.Itoa(g), im.pf.IsComplete() && g != origP, nil
	case "FindMatch":
		mf, ok := im.pf.(prefilter.MatchFinder)
		if !ok || !im.pf.IsComplete() {
			return pfSpanStr(origP, origE), "no longer complete / no FindMatch", false, nil
		}
		a, b, p := pfSafeFindMatch(mf, h, start)
		if p != nil {
			return pfSpanStr(origP, origE), fmt.Sprint("panic: ", p), true, nil
		}
		return pfSpanStr(origP, origE), pfSpanStr(a, b), a != origP || b != origE, nil
	case "Find+LiteralLen":
		g, _ := pfSafeFind(im.pf, h, start)
		ll := im.pf.LiteralLen()
		if !im.pf.IsComplete() || ll == 0 || g < 0 {
			return pfSpanStr(origP, origE), "no span reported", false, nil
		}
		return pfSpanStr(origP, origE), pfSpanStr(g, g+ll), g != origP || g+ll != origE, nil
	}
	return "", "", false, fmt.Errorf("method %q", method)
}

func pfHexDecode(s string) ([]byte, error) {
	b := make([]byte, len(s)/2)
	for i := range b {
		v, err := strconv.ParseUint(s[2*i:2*i+2], 16, 8)
		if err != nil {
			return nil, err
		}
		b[i] = byte(v)
	}
	return b, nil
}

// runPrefilterReplay: vh prefilter-replay -file <json>; exit status 1 when the recorded disagreement is reproduced,
// 0 when the implementation now answers what the reference demands, 2 on a machinery problem.
func runPrefilterReplay(args []string) {
	fs := flag.NewFlagSet("prefilter-replay", flag.ExitOnError)
	file := fs.String("file", "", "one C16 failure record (JSON)")
	fs.Parse(args)
	b, err := os.ReadFile(*file)
	if err != nil {
		fatal(err)
	}
	var d core.Failure
	if err := json.Unmarshal(b, &d); err != nil {
		fatal(err)
	}
	want, got, bad, rerr := replayPrefilter(&d)
	if rerr != nil {
		fatal(rerr)
	}
	fmt.Printf("C16 %s literals %s hay %s %s: want %s got %s\n", d.API, d.Pattern, d.Hay, d.Args, want, got)
	if bad {
		fmt.Println("REPRODUCED")
		os.Exit(1)
	}
	fmt.Println("not reproduced")
}
