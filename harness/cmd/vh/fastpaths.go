package main

// C19: specialised fast paths are exact on every pattern they accept.
// (a) End to end, by strategy: for every TLC-generated pattern whose selected strategy is one of the
//     special-purpose searchers, every engine-level search (IsMatch, FindIndices, FindIndicesAt at every
//     offset, FindAt, FindSubmatchAt) must equal the reference.  A pattern that a changed selector no longer
//     routes to a fast path is simply not counted: dropping a fast path violates nothing.
// (b) Direct: the public searchers are constructed exactly as meta/compile.go constructs them whenever their
//     own public applicability predicate accepts the pattern, and compared with the reference on every
//     haystack and offset: CharClassSearcher, CompositeSearcher, CompositeSequenceDFA, BranchDispatcher,
//     anchored-literal matcher, first-byte rejection set.

import (
	"flag"
	"fmt"
	"os"
	"regexp"
	"regexp/syntax"
	"runtime"

	"github.com/coregx/coregex/meta"
	"github.com/coregx/coregex/nfa"

	"verif/harness/internal/core"
)

var fastStrategies = map[string]bool{
	"UseCharClassSearcher": true, "UseCompositeSearcher": true, "UseBranchDispatch": true, "UseAnchoredLiteral": true,
	"UseReverseAnchored": true, "UseReverseSuffix": true, "UseReverseSuffixSet": true, "UseReverseInner": true,
	"UseMultilineReverseSuffix": true, "UseDigitPrefilter": true, "UseTeddy": true, "UseAhoCorasick": true,
}

func runFastPaths(args []string) {
	fs := flag.NewFlagSet("fastpaths", flag.ExitOnError)
	in := fs.String("in", "", "TLC output (MC_Search, WithAt)")
	_ = fs.String("props", "C19", "")
	report := fs.String("report", "report.json", "")
	fails := fs.String("fail", "fail.ndjson", "")
	fs.Parse(args)
	f, err := os.Open(*in)
	if err != nil {
		fatal(err)
	}
	defer f.Close()
	rep, err := core.NewReport(*fails)
	if err != nil {
		fatal(err)
	}
	_, err = core.ReadRecords(f, runtime.NumCPU(), func(rec *core.Record) {
		pat := rec.Re.Pattern()
		std, err := regexp.Compile(pat)
		if err != nil {
			return
		}
		eng, cerr := meta.Compile(pat)
		if cerr != nil {
			return
		}
		strat := eng.Strategy().String()
		re, _ := syntax.Parse(pat, syntax.Perl)
		startAnch := nfa.IsPatternStartAnchored(re)
		isFast := fastStrategies[strat]
		// direct searchers
		var ccs *nfa.CharClassSearcher
		if nfa.IsSimpleCharClassPlus(re) {
			if ranges := nfa.ExtractCharClassRanges(re); ranges != nil {
				mm := 1
				if re.Op == syntax.OpStar {
					mm = 0
				}
				ccs = nfa.NewCharClassSearcher(ranges, mm)
			}
		}
		var comp *nfa.CompositeSearcher
		var cdfa *nfa.CompositeSequenceDFA
		if nfa.IsCompositeCharClassPattern(re) {
			comp = nfa.NewCompositeSearcher(re)
			if comp != nil && nfa.IsCompositeSequenceDFAPattern(re) {
				cdfa = nfa.NewCompositeSequenceDFA(re)
			}
		}
		var bd *nfa.BranchDispatcher
		// the dispatcher and the first-byte set are only ever built under further conditions of the selector
		// (start-anchored pattern, strategy UseBranchDispatch resp. UseBoundedBacktracker): replicate them
		if nfa.IsBranchDispatchPattern(re) && strat == "UseBranchDispatch" {
			alt := re
			if re.Op == syntax.OpConcat && len(re.Sub) >= 2 {
				for _, sub := range re.Sub[1:] {
					if sub.Op == syntax.OpAlternate || sub.Op == syntax.OpCapture {
						alt = sub
						break
					}
				}
			}
			bd = nfa.NewBranchDispatcher(alt)
		}
		ali := meta.DetectAnchoredLiteral(re)
		var fb *nfa.FirstByteSet
		if eng.IsStartAnchored() && strat == "UseBoundedBacktracker" {
			if x := nfa.ExtractFirstBytes(re); x != nil && x.IsUseful() {
				fb = x
			}
		}
		direct := ccs != nil || comp != nil || bd != nil || ali != nil || fb != nil
		if !isFast && !direct && !startAnch {
			rep.Add(0, 0, 0, 0, "")
			return
		}
		calls, cases, nontriv := 0, 0, 0
		var hx string
		fail := func(api, args, want, got string) {
			rep.Fail(&core.Failure{Prop: "C19", API: api, Mode: "first", Pattern: pat, Hay: hx, Args: args, Want: want, Got: got, Strat: strat, Fam: rec.Fam})
		}
		guard := func(api, args string, fn func()) {
			defer func() {
				if r := recover(); r != nil {
					fail(api, args, "no panic", fmt.Sprintf("panic: %v", r))
				}
			}()
			calls++
			fn()
		}
		for hi := range rec.Hs {
			h := &rec.Hs[hi]
			if h.AtF == nil {
				continue
			}
			b := core.HayBytes(h.H)
			hx = core.Hex(b)
			offs := core.Offsets(h.H)
			if !eqAll(std.FindAllSubmatchIndex(b, -1), h.AF) {
				rep.Gap(fmt.Sprintf("%s on %x", pat, b))
				continue
			}
			cases++
			if len(h.AF) > 0 && len(b) > 0 {
				nontriv++
			}
			wantMatch := len(h.AtF[0]) > 0
			if isFast || startAnch {
				guard("Engine.IsMatch", "", func() {
					if got := eng.IsMatch(b); got != wantMatch {
						fail("Engine.IsMatch", "", fmt.Sprint(wantMatch), fmt.Sprint(got))
					}
				})
			}
			for pi, at := range offs {
				ws, we, wok := spanOf(h.AtF[pi])
				args := fmt.Sprintf("at=%d", at)
				cmp := func(api string, s, e int, ok bool) {
					if ok != wok || (ok && (s != ws || e != we)) {
						fail(api, args, fmt.Sprintf("[%d %d %v]", ws, we, wok), fmt.Sprintf("[%d %d %v]", s, e, ok))
					}
				}
				if isFast || startAnch {
					guard("Engine.FindIndicesAt", args, func() {
						s, e, ok := eng.FindIndicesAt(b, at)
						cmp("Engine.FindIndicesAt", s, e, ok)
					})
					guard("Engine.FindAt", args, func() {
						m := eng.FindAt(b, at)
						if m == nil {
							cmp("Engine.FindAt", -1, -1, false)
						} else {
							cmp("Engine.FindAt", m.Start(), m.End(), true)
						}
					})
					guard("Engine.FindSubmatchAt", args, func() {
						m := eng.FindSubmatchAt(b, at)
						if m == nil {
							cmp("Engine.FindSubmatchAt", -1, -1, false)
						} else {
							cmp("Engine.FindSubmatchAt", m.Start(), m.End(), true)
						}
					})
				}
				if ccs != nil {
					guard("Searcher.CharClass.SearchAt", args, func() {
						s, e, ok := ccs.SearchAt(b, at)
						cmp("Searcher.CharClass.SearchAt", s, e, ok)
					})
				}
				if comp != nil {
					guard("Searcher.Composite.SearchAt", args, func() {
						s, e, ok := comp.SearchAt(b, at)
						cmp("Searcher.Composite.SearchAt", s, e, ok)
					})
				}
				if cdfa != nil {
					guard("Searcher.CompositeDFA.SearchAt", args, func() {
						s, e, ok := cdfa.SearchAt(b, at)
						cmp("Searcher.CompositeDFA.SearchAt", s, e, ok)
					})
				}
			}
			if ccs != nil {
				guard("Searcher.CharClass.IsMatch", "", func() {
					if got := ccs.IsMatch(b); got != wantMatch {
						fail("Searcher.CharClass.IsMatch", "", fmt.Sprint(wantMatch), fmt.Sprint(got))
					}
				})
				guard("Searcher.CharClass.FindAllIndices", "", func() {
					got := pairs(ccs.FindAllIndices(b, nil))
					if !eqAll(got, spans(h.AF)) {
						fail("Searcher.CharClass.FindAllIndices", "", fmt.Sprint(spans(h.AF)), fmt.Sprint(got))
					}
				})
				guard("Searcher.CharClass.Count", "", func() {
					if got := ccs.Count(b); got != len(h.AF) {
						fail("Searcher.CharClass.Count", "", fmt.Sprint(len(h.AF)), fmt.Sprint(got))
					}
				})
			}
			if comp != nil {
				guard("Searcher.Composite.IsMatch", "", func() {
					if got := comp.IsMatch(b); got != wantMatch {
						fail("Searcher.Composite.IsMatch", "", fmt.Sprint(wantMatch), fmt.Sprint(got))
					}
				})
			}
			if cdfa != nil {
				guard("Searcher.CompositeDFA.IsMatch", "", func() {
					if got := cdfa.IsMatch(b); got != wantMatch {
						fail("Searcher.CompositeDFA.IsMatch", "", fmt.Sprint(wantMatch), fmt.Sprint(got))
					}
				})
			}
			if bd != nil {
				ws, we, wok := spanOf(h.AtF[0])
				guard("Searcher.BranchDispatch.IsMatch", "", func() {
					if got := bd.IsMatch(b); got != wantMatch {
						fail("Searcher.BranchDispatch.IsMatch", "", fmt.Sprint(wantMatch), fmt.Sprint(got))
					}
				})
				_, _, _ = ws, we, wok
			}
			if ali != nil {
				guard("Searcher.AnchoredLiteral.Match", "", func() {
					if got := meta.MatchAnchoredLiteral(b, ali); got != wantMatch {
						fail("Searcher.AnchoredLiteral.Match", "", fmt.Sprint(wantMatch), fmt.Sprint(got))
					}
				})
			}
			if fb != nil && wantMatch && len(b) > 0 {
				calls++
				if !fb.Contains(b[0]) {
					fail("Searcher.FirstBytes.Contains", "", fmt.Sprintf("first byte %#x of a matching haystack is in the set", b[0]), "rejected")
				}
			}
		}
		// Exhaustive sweep for the searchers that replace the automata (auxiliary; regexp is the arbiter): every haystack of length
		// <= 6 over up to five bytes the record's haystacks use (ASCII only, the first five in byte order).  The restart logic of
		// these searchers (where to resume after a failed attempt) only shows on inputs in which a failed attempt has consumed the
		// start of the real match - far longer than the enumerated haystacks.
		if os.Getenv("VH_DEBUG_SWEEP") != "" {
			fmt.Fprintf(os.Stderr, "REC %s strat=%s fast=%v comp=%v cdfa=%v hash=%d\n", pat, strat, isFast, comp != nil, cdfa != nil, contentHash([]byte(pat))%2)
		}
		if ccs != nil || comp != nil || cdfa != nil || bd != nil || ali != nil || isFast {
			var seen [128]bool
			var alpha []byte
			for hi := range rec.Hs {
				for _, c := range core.HayBytes(rec.Hs[hi].H) {
					if c < 128 && !seen[c] {
						seen[c] = true
					}
				}
			}
			// the bytes the pattern itself mentions first, then the other bytes of its haystacks
			var inAlpha [128]bool
			var walk func(a *core.AST)
			walk = func(a *core.AST) {
				if a == nil {
					return
				}
				ids := append([]int{}, a.S...)
				if a.Op == "lit" {
					ids = append(ids, a.C)
				}
				for _, id := range ids {
					if id >= 1 && id <= len(core.Syms) && len(core.Syms[id-1].B) == 1 {
						if c := core.Syms[id-1].B[0]; c < 128 && !inAlpha[c] && len(alpha) < 5 {
							inAlpha[c] = true
							alpha = append(alpha, byte(c))
						}
					}
				}
				walk(a.A)
				walk(a.B)
			}
			walk(rec.Re)
			for c := 127; c >= 0 && len(alpha) < 5; c-- {
				if seen[c] && !inAlpha[c] {
					inAlpha[c] = true
					alpha = append(alpha, byte(c))
				}
			}
			if os.Getenv("VH_DEBUG_SWEEP") != "" {
				fmt.Fprintf(os.Stderr, "SWEEP %s alpha=%q cdfa=%v comp=%v strat=%s\n", pat, alpha, cdfa != nil, comp != nil, strat)
			}
			if len(alpha) >= 2 {
				buf := make([]byte, 0, 6)
				var rec6 func(n int)
				nsw := 0
				rec6 = func(n int) {
					if n >= 5 { // lengths 5 and 6 only: shorter ones are in the enumerated universe
						b := buf
						hx = core.Hex(b)
						nsw++
						want := std.FindIndex(b)
						wok := want != nil
						cmp := func(api string, s, e int, ok bool) {
							if ok != wok || (ok && (s != want[0] || e != want[1])) {
								fail(api, "sweep", fmt.Sprint(want), fmt.Sprintf("[%d %d %v]", s, e, ok))
							}
						}
						guard("Engine.FindIndicesAt", "sweep", func() {
							s, e, ok := eng.FindIndicesAt(b, 0)
							cmp("Engine.FindIndicesAt", s, e, ok)
						})
						guard("Engine.IsMatch", "sweep", func() {
							if got := eng.IsMatch(b); got != wok {
								fail("Engine.IsMatch", "sweep", fmt.Sprint(wok), fmt.Sprint(got))
							}
						})
						if comp != nil {
							guard("Searcher.Composite.SearchAt", "sweep", func() {
								s, e, ok := comp.SearchAt(b, 0)
								cmp("Searcher.Composite.SearchAt", s, e, ok)
							})
						}
						if cdfa != nil {
							guard("Searcher.CompositeDFA.SearchAt", "sweep", func() {
								s, e, ok := cdfa.SearchAt(b, 0)
								cmp("Searcher.CompositeDFA.SearchAt", s, e, ok)
							})
						}
						if ccs != nil {
							guard("Searcher.CharClass.SearchAt", "sweep", func() {
								s, e, ok := ccs.SearchAt(b, 0)
								cmp("Searcher.CharClass.SearchAt", s, e, ok)
							})
						}
					}
					if n == 6 {
						return
					}
					for _, c := range alpha {
						buf = append(buf, c)
						rec6(n + 1)
						buf = buf[:len(buf)-1]
					}
				}
				rec6(0)
				cases += nsw
				rep.API("sweep:haystacks", nsw)
			}
		}
		rep.Add(1, cases, calls, nontriv, strat)
		if rec.I%37 == 1 && len(rec.Hs) > 0 {
			rep.Sample(map[string]any{"pattern": pat, "strategy": strat, "direct": map[string]bool{"charclass": ccs != nil, "composite": comp != nil,
				"compositeDFA": cdfa != nil, "branch": bd != nil, "anchoredLiteral": ali != nil, "firstBytes": fb != nil}})
		}
	})
	if err != nil {
		rep.Machinery(err.Error())
	}
	if err2 := rep.Close(*report); err2 != nil {
		fatal(err2)
	}
	if err != nil {
		fatal(err)
	}
}
