package main

// C14 (one-pass DFA), model side = spec/OnePass.tla through MC_OnePass: per pattern the model's verdict "one-pass" and,
// per haystack, the result of the model's search.  Here: the real construction (anchored NFA as meta.buildOnePassDFA
// compiles it -> onepass.Build) and the real Search.
//
//   real match, model match   : must be equal, slot by slot (the model's value has been proved = AnchoredP by TLC)
//   real match, model no match: three-way - regexp's anchored whole-input match decides (spec gap if it agrees with the code)
//   real nil                  : declining is allowed (counted: the model is rune-level, the code byte-level)
//   real Build ok, model says not one-pass: every reported match is still compared with regexp; counted.

import (
	"flag"
	"fmt"
	"os"
	"regexp"
	"regexp/syntax"
	"runtime"

	"github.com/coregx/coregex/dfa/onepass"
	"github.com/coregx/coregex/nfa"

	"verif/harness/internal/core"
)

func runOnePass(args []string) {
	fs := flag.NewFlagSet("onepass", flag.ExitOnError)
	in := fs.String("in", "", "TLC output (MC_OnePass)")
	_ = fs.String("props", "C14", "")
	report := fs.String("report", "report.json", "")
	fails := fs.String("fail", "fail.ndjson", "")
	fs.Parse(args)
	f, err := os.Open(*in)
	if err != nil {
		fatal(err)
	}
	defer f.Close()
	rep, err := core.NewReport(*fails)
	if err != nil {
		fatal(err)
	}
	_, err = core.ReadRecords(f, runtime.NumCPU(), func(rec *core.Record) {
		if rec.OP == nil {
			return
		}
		pat := rec.Re.Pattern()
		std, err := regexp.Compile(`\A(?:` + pat + `)`)
		if err != nil {
			rep.Gap("regexp rejects " + pat)
			return
		}
		re, _ := syntax.Parse(pat, syntax.Perl)
		ac := nfa.NewCompiler(nfa.CompilerConfig{UTF8: true, Anchored: true, MaxRecursionDepth: 100})
		an, cerr := ac.CompileRegexp(re)
		var d *onepass.DFA
		if cerr == nil {
			d, _ = onepass.Build(an)
		}
		quad := fmt.Sprintf("onepass:model=%v,code=%v", *rec.OP, d != nil)
		rep.API(quad, 1)
		if d == nil {
			rep.Add(1, 0, 0, 0, "")
			return
		}
		cache := onepass.NewCache(d.NumCaptures())
		calls, cases, nontriv := 0, 0, 0
		for hi := range rec.Hs {
			h := &rec.Hs[hi]
			b := core.HayBytes(h.H)
			cases++
			calls++
			var got []int
			func() {
				defer func() {
					if r := recover(); r != nil {
						rep.Fail(&core.Failure{Prop: "C14", Scope: "onepass", API: "onepass.Search", Mode: "first", Pattern: pat, Hay: core.Hex(b),
							Want: "no panic", Got: fmt.Sprintf("panic: %v", r), Fam: rec.Fam})
					}
				}()
				got = d.Search(b, cache)
			}()
			if got == nil {
				if len(h.OPS) > 0 {
					rep.API("onepass:code-declines-where-model-matches", 1)
				}
				continue
			}
			// the arbiter: the leftmost-first match anchored at 0; the one-pass search only reports whole-input matches
			want := std.FindSubmatchIndex(b)
			if len(h.OPS) > 0 {
				nontriv++
				if eqInts(got, h.OPS) {
					continue
				}
				if eqInts(h.OPS, want) {
					rep.Fail(&core.Failure{Prop: "C14", Scope: "onepass", API: "onepass.Search", Mode: "first", Pattern: pat, Hay: core.Hex(b),
						Want: core.IntsStr(h.OPS), Got: core.IntsStr(got), Fam: rec.Fam})
				} else {
					rep.Gap(fmt.Sprintf("one-pass model vs regexp: %s on %x", pat, b))
				}
				continue
			}
			// the model reports nothing (dead state, or the pattern is not one-pass for the model)
			if !eqInts(got, want) {
				rep.Fail(&core.Failure{Prop: "C14", Scope: "onepass", API: "onepass.Search", Mode: "first", Pattern: pat, Hay: core.Hex(b),
					Args: fmt.Sprintf("model one-pass=%v", *rec.OP), Want: core.IntsStr(want), Got: core.IntsStr(got), Fam: rec.Fam})
			} else if *rec.OP {
				rep.Gap(fmt.Sprintf("one-pass model reports nothing, code and regexp agree: %s on %x", pat, b))
			}
		}
		rep.Add(1, cases, calls, nontriv, "")
		if rec.I%53 == 1 {
			rep.Sample(map[string]any{"pattern": pat, "model_onepass": *rec.OP, "code_onepass": true, "haystacks": len(rec.Hs)})
		}
	})
	if err != nil {
		rep.Machinery(err.Error())
	}
	if err2 := rep.Close(*report); err2 != nil {
		fatal(err2)
	}
	if err != nil {
		fatal(err)
	}
}
