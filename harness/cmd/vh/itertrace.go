package main

// Records executions of the nine match-iteration loops of coregex (hook H-iter) on pumped
// inputs derived from TLC-generated records, as ndjson for spec/Trace_MatchIter.tla.

import (
	"bufio"
	"encoding/json"
	"flag"
	"fmt"
	"os"
	"unicode/utf8"

	"github.com/coregx/coregex"
	"github.com/coregx/coregex/meta"
	"github.com/coregx/coregex/verifhook"

	"verif/harness/internal/core"
)

type iterEv struct {
	Ev        string `json:"ev"`
	Loop      int    `json:"loop"`
	N         int    `json:"n"`
	Len       int    `json:"len"`
	W         []int  `json:"w"`
	Pos       int    `json:"pos"`
	S         int    `json:"s"`
	E         int    `json:"e"`
	Emit      int    `json:"emit"`
	NP        int    `json:"np"`
	Found     int    `json:"found"`
	Count     int    `json:"count"`
	Abandoned int    `json:"abandoned"`
	Pat       string `json:"pat,omitempty"`
	Hay       string `json:"hay,omitempty"`
}

func widths(b []byte) []int {
	w := make([]int, len(b))
	for i := 0; i < len(b); {
		_, k := utf8.DecodeRune(b[i:])
		w[i] = k
		i += k
	}
	return w
}

func runIterTrace(args []string) {
	fs := flag.NewFlagSet("itertrace", flag.ExitOnError)
	in := fs.String("in", "", "TLC output file (MC_Search records)")
	out := fs.String("out", "iter.ndjson", "")
	maxPat := fs.Int("maxpat", 150, "patterns per input file")
	perPat := fs.Int("perpat", 3, "haystacks per pattern")
	report := fs.String("report", "report.json", "")
	drop := fs.Int("corrupt", 0, "testing the binding: corrupt the k-th iter event (0 = none)")
	fs.Parse(args)
	f, err := os.Open(*in)
	if err != nil {
		fatal(err)
	}
	defer f.Close()
	of, err := os.Create(*out)
	if err != nil {
		fatal(err)
	}
	defer of.Close()
	w := bufio.NewWriter(of)
	defer w.Flush()
	if !verifhook.On {
		fatal(fmt.Errorf("harness built without -tags verif"))
	}
	events, traces, iters := 0, 0, 0
	curLoop := 0
	var samples []any
	emit := func(e *iterEv) {
		if e.W == nil {
			e.W = []int{}
		}
		b, _ := json.Marshal(e)
		w.Write(b)
		w.WriteByte('\n')
		events++
	}
	verifhook.Install(func(kind string, a []int) {
		switch kind {
		case "iter":
			if a[0] != curLoop {
				return // an inner loop of another API (e.g. Split -> FindAll) is not the one being traced
			}
			iters++
			e := &iterEv{Ev: "iter", Loop: a[0], Pos: a[1], S: a[2], E: a[3], Emit: a[4], NP: a[5]}
			if *drop > 0 && iters == *drop {
				e.NP++ // deliberately wrong: the trace spec must reject this line
			}
			emit(e)
		case "iterstop":
			if a[0] == curLoop {
				emit(&iterEv{Ev: "stop", Loop: a[0], Pos: a[1]})
			}
		case "iteranch":
			if a[0] == curLoop {
				emit(&iterEv{Ev: "anch", Loop: a[0], Found: a[1], S: a[2], E: a[3]})
			}
		}
	})
	defer verifhook.Install(nil)
	npat := 0
	// single worker: the hook sink is global
	_, err = core.ReadRecords(f, 1, func(rec *core.Record) {
		if npat >= *maxPat {
			return
		}
		pat := rec.Re.Pattern()
		cg, cerr := coregex.Compile(pat)
		eng, cerr2 := meta.Compile(pat)
		if cerr != nil || cerr2 != nil {
			return
		}
		streaming := eng.Strategy() == meta.UseCharClassSearcher
		npat++
		picked := 0
		for hi := len(rec.Hs) - 1; hi >= 0 && picked < *perPat; hi -= 1 + len(rec.Hs)/7 {
			h := rec.Hs[hi]
			base := core.HayBytes(h.H)
			if len(base) == 0 {
				continue
			}
			picked++
			var b []byte
			target := []int{12, 40, 72}[hi%3] // pumped: the short haystack repeated past the 16/32/64-byte vector block sizes
			for len(b) < target {
				b = append(b, base...)
			}
			s := string(b)
			ws := widths(b)
			call := func(loop, n int, fn func() (count int, abandoned bool)) {
				curLoop = loop
				emit(&iterEv{Ev: "begin", Loop: loop, N: n, Len: len(b), W: ws, Pat: pat, Hay: core.Hex(b)})
				cnt, ab := fn()
				e := &iterEv{Ev: "end", Loop: loop, Count: cnt}
				if ab {
					e.Abandoned = 1
				}
				emit(e)
				traces++
				curLoop = 0
			}
			for _, n := range []int{-1, 2} {
				if !streaming {
					call(1, n, func() (int, bool) { return len(cg.FindAllIndex(b, n)), false })
				}
				call(2, n, func() (int, bool) { return cg.Count(b, n), false })
				call(3, n, func() (int, bool) { return len(cg.FindAllSubmatchIndex(b, n)), false })
			}
			call(4, -1, func() (int, bool) {
				c := 0
				for range cg.AllIndex(b) {
					c++
				}
				return c, false
			})
			call(4, -1, func() (int, bool) { // abandoned after two results
				c := 0
				for range cg.AllIndex(b) {
					c++
					if c == 2 {
						return -1, true
					}
				}
				return c, false
			})
			call(5, -1, func() (int, bool) { cg.ReplaceAllLiteral(b, []byte("-")); return -1, false })
			call(6, -1, func() (int, bool) { cg.ReplaceAllLiteralString(s, "-"); return -1, false })
			call(7, -1, func() (int, bool) { cg.ReplaceAll(b, []byte("<$0>")); return -1, false })
			call(8, -1, func() (int, bool) {
				c := 0
				cg.ReplaceAllFunc(b, func(m []byte) []byte { c++; return m })
				return c, false
			})
			call(9, -1, func() (int, bool) {
				c := 0
				cg.ReplaceAllStringFunc(s, func(m string) string { c++; return m })
				return c, false
			})
			if len(samples) < 4 {
				samples = append(samples, map[string]any{"pattern": pat, "haystack_hex": core.Hex(b), "loops": 9})
			}
		}
	})
	if err != nil {
		fatal(err)
	}
	w.Flush()
	rep := map[string]any{"events": events, "traces": traces, "iterations": iters, "patterns": npat, "samples": samples}
	bb, _ := json.MarshalIndent(rep, "", " ")
	os.WriteFile(*report, bb, 0o644)
}
