package main

// C05: every single search runs in time linear in the haystack.  Work = number of executed basic blocks of library
// code, read from the coverage counters of a binary built with
//   -cover -covermode=atomic -coverpkg=github.com/coregx/coregex/...,verif/harness/...
// (runtime/coverage.ClearCounters / WriteCounters): deterministic, whole-library, no hook can be forgotten.
// Inputs: for every TLC-generated pattern, the 2-symbol haystacks of its record pumped whole to n in {128 .. 2048} (the same
// measurement in both tiers; pumping stops once a call has executed more than 3 M blocks); each measurement is the second of
// two identical calls.
// Verdict (DESIGN.md 6 C05): superlinear iff the least-squares slope of log(work) against log(n) exceeds 1.35 AND the
// last two doubling ratios both exceed 2.4 AND the largest measurement is above the noise floor - a one-off step
// (a cache that starts clearing, a fallback that kicks in) changes the constant, not the slope, and must not alarm.
// Compile work: pattern families pumped in length must grow polynomially with degree <= 3.

import (
	"bytes"
	"encoding/binary"
	"flag"
	"fmt"
	"math"
	"os"
	"runtime/coverage"
	"time"

	"github.com/coregx/coregex"

	"verif/harness/internal/core"
)

func sumCounters(b []byte) uint64 {
	if len(b) < 48 {
		return 0
	}
	flavor := b[24]
	off := 32
	fcn := binary.LittleEndian.Uint64(b[off:])
	strLen := binary.LittleEndian.Uint32(b[off+8:])
	argsLen := binary.LittleEndian.Uint32(b[off+12:])
	off += 16 + int(strLen) + int(argsLen)
	for off%4 != 0 {
		off++
	}
	var total uint64
	readU := func() uint32 {
		if flavor == 1 {
			v := binary.LittleEndian.Uint32(b[off:])
			off += 4
			return v
		}
		var v uint64
		var shift uint
		for {
			c := b[off]
			off++
			v |= uint64(c&0x7f) << shift
			if c&0x80 == 0 {
				break
			}
			shift += 7
		}
		return uint32(v)
	}
	for i := uint64(0); i < fcn && off < len(b); i++ {
		n := readU()
		_ = readU()
		_ = readU()
		for j := uint32(0); j < n; j++ {
			total += uint64(readU())
		}
	}
	return total
}

var workBuf bytes.Buffer

func measure(f func()) (uint64, time.Duration, error) {
	if err := coverage.ClearCounters(); err != nil {
		return 0, 0, err
	}
	t0 := time.Now()
	f()
	d := time.Since(t0)
	workBuf.Reset()
	if err := coverage.WriteCounters(&workBuf); err != nil {
		return 0, 0, err
	}
	return sumCounters(workBuf.Bytes()), d, nil
}

func slope(ns []int, ws []uint64) float64 {
	var sx, sy, sxx, sxy float64
	k := float64(len(ns))
	for i := range ns {
		x, y := math.Log(float64(ns[i])), math.Log(float64(ws[i])+1)
		sx += x
		sy += y
		sxx += x * x
		sxy += x * y
	}
	d := k*sxx - sx*sx
	if d == 0 {
		return 0
	}
	return (k*sxy - sx*sy) / d
}

func superlinear(ns []int, ws []uint64, deg float64) (bool, float64) {
	if len(ns) < 4 {
		return false, 0
	}
	sl := slope(ns, ws)
	k := len(ws)
	r1 := float64(ws[k-1]) / float64(ws[k-2]+1)
	r2 := float64(ws[k-2]) / float64(ws[k-3]+1)
	thr := math.Pow(2, deg) * 1.2
	return sl > deg+0.35 && r1 > thr && r2 > thr && ws[k-1] > 50000, sl
}

func runWork(args []string) {
	fs := flag.NewFlagSet("work", flag.ExitOnError)
	in := fs.String("in", "", "TLC output (MC_Search)")
	report := fs.String("report", "report.json", "")
	fails := fs.String("fail", "fail.ndjson", "")
	part := fs.Int("part", 0, "this process handles patterns with index%parts == part")
	parts := fs.Int("parts", 1, "")
	maxN := fs.Int("maxn", 4096, "")
	maxPat := fs.Int("maxpat", 100000, "")
	maxHay := fs.Int("maxhay", 3, "pump haystacks of at most this many symbols")
	allSplits := fs.Bool("splits", false, "also pump the first and the last symbol alone")
	fs.Parse(args)
	rep, err := core.NewReport(*fails)
	if err != nil {
		fatal(err)
	}
	if _, _, err := measure(func() {}); err != nil {
		fatal(fmt.Errorf("coverage counters unavailable (binary not built with -cover?): %v", err))
	}
	f, err := os.Open(*in)
	if err != nil {
		fatal(err)
	}
	defer f.Close()
	type api struct {
		name string
		fn   func(re *coregex.Regex, h []byte)
	}
	apis := []api{
		{"Match", func(re *coregex.Regex, h []byte) { re.Match(h) }},
		{"FindIndex", func(re *coregex.Regex, h []byte) { re.FindIndex(h) }},
		{"FindSubmatchIndex", func(re *coregex.Regex, h []byte) { re.FindSubmatchIndex(h) }},
	}
	families, calls, npat, measured := 0, 0, 0, 0
	seen := 0
	_, err = core.ReadRecords(f, 1, func(rec *core.Record) {
		seen++
		if seen%*parts != *part || npat >= *maxPat {
			return
		}
		pat := rec.Re.Pattern()
		re, cerr := coregex.Compile(pat)
		if cerr != nil {
			return
		}
		npat++
		// every haystack of the record with at least 2 symbols; pumped whole, and (thorough: -splits) by its first and last symbol
		for hi := range rec.Hs {
			h := rec.Hs[hi].H
			if len(h) < 2 || len(h) > *maxHay {
				continue // the spliced / sampled longer haystacks of the record are not pumped
			}
			splits := [][2]int{{0, len(h)}}
			if *allSplits {
				splits = append(splits, [2]int{0, 1}, [2]int{len(h) - 1, len(h)})
			}
			for _, sp := range splits {
				u, v, w := core.HayBytes(h[:sp[0]]), core.HayBytes(h[sp[0]:sp[1]]), core.HayBytes(h[sp[1]:])
				families++
				for _, a := range apis {
					var ns []int
					var ws []uint64
					slow := false
					for n := 128; n <= *maxN && !slow; n *= 2 {
						k := (n - len(u) - len(w)) / len(v)
						if k < 1 {
							k = 1
						}
						hay := append(append(append([]byte{}, u...), bytes.Repeat(v, k)...), w...)
						var wk uint64
						var d time.Duration
						func() {
							defer func() { recover() }()
							a.fn(re, hay) // first call: warms caches
							wk, d, _ = measure(func() { a.fn(re, hay) })
						}()
						calls += 2
						ns = append(ns, len(hay))
						ws = append(ws, wk)
						_ = d
						if wk > 3_000_000 {
							slow = true // do not pump further: the points measured so far decide (a work bound, not a time bound: deterministic)
						}
					}
					measured++
					if bad, sl := superlinear(ns, ws, 1); bad {
						rep.Fail(&core.Failure{Prop: "C05", API: a.name, Mode: "first", Pattern: pat,
							Hay: core.Hex(u) + "|" + core.Hex(v) + "*k|" + core.Hex(w), Args: fmt.Sprintf("slope=%.2f", sl),
							Want: "work linear in the haystack length", Got: fmt.Sprintf("n=%v work=%v", ns, ws), Fam: rec.Fam, Scope: "work"})
					}
					if measured%997 == 1 {
						rep.Sample(map[string]any{"pattern": pat, "u": core.Hex(u), "v": core.Hex(v), "w": core.Hex(w), "api": a.name, "n": ns, "work": ws})
					}
				}
			}
		}
	})
	if err != nil {
		fatal(err)
	}
	// compile work: pattern text pumped in length (part 0 only)
	if *part == 0 {
		for _, pf := range []struct{ name, pre, rep, post string }{
			{"concat", "", "a", ""}, {"alt", "", "a|", "b"}, {"class", "", "[ab]", ""}, {"star", "", "a*", ""},
			{"group", "", "(a)", ""}, {"optional", "", "a?", "b"}, {"dotstar", "", ".*a", ""}, {"count", "", "a{2}", ""},
		} {
			var ns []int
			var ws []uint64
			for n := 32; n <= 1024; n *= 2 {
				p := pf.pre
				for i := 0; i < n/len(pf.rep); i++ {
					p += pf.rep
				}
				p += pf.post
				var wk uint64
				var d time.Duration
				func() {
					defer func() { recover() }()
					wk, d, _ = measure(func() { coregex.Compile(p) })
				}()
				ns = append(ns, len(p))
				ws = append(ws, wk)
				calls++
				if d > 2*time.Second {
					break
				}
			}
			if bad, sl := superlinear(ns, ws, 3); bad {
				rep.Fail(&core.Failure{Prop: "C05", API: "Compile", Mode: "compile", Pattern: pf.name + ": " + pf.rep + " repeated", Hay: "",
					Args: fmt.Sprintf("slope=%.2f", sl), Want: "compile work polynomial (degree <= 3) in the pattern length",
					Got: fmt.Sprintf("len=%v work=%v", ns, ws), Scope: "work"})
			}
			families++
		}
	}
	rep.Add(npat, families, calls, measured, "")
	rep.Extra["pumped_families"] = families
	rep.Extra["series_measured"] = measured
	if err := rep.Close(*report); err != nil {
		fatal(err)
	}
}
