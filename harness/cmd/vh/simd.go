package main

// C18: vectorised byte-search primitives (package simd) equal their scalar definitions and
// touch no memory outside the slice.
//
// Input: the records printed by spec/MC_Simd.tla (one per abstract haystack over the cell classes
// filler / hit kinds / near-miss fillers, for an abstract vector width W of 2 or 4; TLC has checked
// the block-scan model on them).  Every record carries, per byte palette, the value of the scalar
// definition (spec/Simd.tla) of every primitive.  This driver
//
//  1. replays every record as it is (stretch factor 1) and stretched to the real vector widths
//     W' in {16,32,64}: every abstract cell becomes s = W'/W bytes of filler with the cell's byte at
//     lane offset o in {0, 1, s-2, s-1} (so first/last lanes and both sides of every block boundary
//     are hit) and the length is n*s + {-1,0,+1}.  The expected value is the TLA+ value mapped
//     through i -> i*s+o; it is compared first with an independent naive Go loop (a difference is
//     a spec gap, never a violation) and then with the real primitive.
//  2. exhaustively, without TLC: all lengths 0..193, every single hit position (and no hit), every
//     start alignment 0..63, several fillers per primitive, against the naive loop.
//
// Memory safety: haystacks (and Memmem needles) live in anonymous mappings between two PROT_NONE
// pages: "end" = the slice ends exactly at the inaccessible page, "start" = it begins right after
// one, "mid" = arbitrary alignment inside the mapping.  Bytes next to the slice are bait (hit bytes).
// debug.SetPanicOnFault turns a fault inside a primitive (assembly included) into a recoverable
// panic that is reported as "touches memory outside the slice".  The haystack must be unchanged
// after every call.

import (
	"bytes"
	"encoding/hex"
	"encoding/json"
	"flag"
	"fmt"
	"os"
	"runtime"
	"runtime/debug"
	"sort"
	"strconv"
	"strings"
	"sync"
	"syscall"
	"unsafe"

	"github.com/coregx/coregex/simd"

	"verif/harness/internal/core"
)

// ---------------------------------------------------------------- records of MC_Simd

type simdPalette struct {
	Name string `json:"name"`
	B    []int  `json:"b"`
}

type simdHdr struct {
	Hdr     bool          `json:"hdr"`
	W       int           `json:"w"`
	D       int           `json:"d"`
	NMax    int           `json:"nmax"`
	MaxHits int           `json:"maxhits"`
	NCases  int           `json:"ncases"`
	Modes   []string      `json:"modes"`
	Pals    []simdPalette `json:"pals"`
	PairK   [][]int       `json:"pairk"`
	MemK    [][]int       `json:"memk"`
	M1K     [][]int       `json:"m1k"`
	M2K     [][]int       `json:"m2k"`
	M3K     [][]int       `json:"m3k"`
}

type simdPalRec struct {
	M     []int   `json:"m"`
	M2    []int   `json:"m2"`
	M3    []int   `json:"m3"`
	Pair  [][]int `json:"pair"`
	Mem   []int   `json:"mem"`
	Tin   int     `json:"tin"`
	Tnot  int     `json:"tnot"`
	Tnf   int     `json:"tnf"`
	Dig   int     `json:"dig"`
	DigAt []int   `json:"digat"`
	Word  int     `json:"word"`
	NWord int     `json:"nword"`
	Asc   bool    `json:"asc"`
	Cnt   int     `json:"cnt"`
	Fna   int     `json:"fna"`
}

type simdRec struct {
	Hdr bool         `json:"hdr"`
	I   int          `json:"i"`
	W   int          `json:"w"`
	N   int          `json:"n"`
	H   []int        `json:"h"`
	Al  []int        `json:"al"`
	P   []simdPalRec `json:"p"`
}

// ---------------------------------------------------------------- probes

const (
	skMemchr = iota
	skMemchr2
	skMemchr3
	skPair
	skMemmem
	skDigit
	skDigitAt
	skWord
	skNotWord
	skInTable
	skNotInTable
	skIsASCII
	skCount
	skFirstNA
	skN
)

var skNames = [skN]string{"Memchr", "Memchr2", "Memchr3", "MemchrPair", "Memmem", "MemchrDigit", "MemchrDigitAt",
	"MemchrWord", "MemchrNotWord", "MemchrInTable", "MemchrNotInTable", "IsASCII", "CountNonASCII", "FirstNonASCII"}

// sprobe is one call of one primitive with fixed needles on the current haystack.
type sprobe struct {
	kind     int
	b        [3]byte
	off      int // MemchrPair offset / MemchrDigitAt position
	nd       []byte
	tbl      *[256]bool
	tdesc    string
	naive    int  // independent scalar loop (bool as 0/1)
	tla      int  // value of the TLA+ scalar definition, mapped to the concrete haystack
	hasTLA   bool // false: no TLA+ value can be derived for this stretched form (naive only)
	skip     bool // spec gap
	reported uint8
}

func b2i(b bool) int {
	if b {
		return 1
	}
	return 0
}

func (p *sprobe) call(h, nd []byte) int {
	switch p.kind {
	case skMemchr:
		return simd.Memchr(h, p.b[0])
	case skMemchr2:
		return simd.Memchr2(h, p.b[0], p.b[1])
	case skMemchr3:
		return simd.Memchr3(h, p.b[0], p.b[1], p.b[2])
	case skPair:
		return simd.MemchrPair(h, p.b[0], p.b[1], p.off)
	case skMemmem:
		return simd.Memmem(h, nd)
	case skDigit:
		return simd.MemchrDigit(h)
	case skDigitAt:
		return simd.MemchrDigitAt(h, p.off)
	case skWord:
		return simd.MemchrWord(h)
	case skNotWord:
		return simd.MemchrNotWord(h)
	case skInTable:
		return simd.MemchrInTable(h, p.tbl)
	case skNotInTable:
		return simd.MemchrNotInTable(h, p.tbl)
	case skIsASCII:
		return b2i(simd.IsASCII(h))
	case skCount:
		return simd.CountNonASCII(h)
	case skFirstNA:
		return simd.FirstNonASCII(h)
	}
	panic("unknown probe kind")
}

func simdIsDigit(c byte) bool { return c >= '0' && c <= '9' }
func simdIsWord(c byte) bool {
	return (c >= '0' && c <= '9') || (c >= 'A' && c <= 'Z') || (c >= 'a' && c <= 'z') || c == '_'
}

// simdNaive is the independent reference: the one-line scalar definition as a plain Go loop.
func simdNaive(p *sprobe, h []byte) int {
	switch p.kind {
	case skMemchr:
		for i, c := range h {
			if c == p.b[0] {
				return i
			}
		}
		return -1
	case skMemchr2:
		for i, c := range h {
			if c == p.b[0] || c == p.b[1] {
				return i
			}
		}
		return -1
	case skMemchr3:
		for i, c := range h {
			if c == p.b[0] || c == p.b[1] || c == p.b[2] {
				return i
			}
		}
		return -1
	case skPair:
		if p.off < 0 {
			return -1
		}
		for i := 0; i+p.off < len(h); i++ {
			if h[i] == p.b[0] && h[i+p.off] == p.b[1] {
				return i
			}
		}
		return -1
	case skMemmem:
		for i := 0; i+len(p.nd) <= len(h); i++ {
			ok := true
			for k := range p.nd {
				if h[i+k] != p.nd[k] {
					ok = false
					break
				}
			}
			if ok {
				return i
			}
		}
		return -1
	case skDigit:
		for i, c := range h {
			if simdIsDigit(c) {
				return i
			}
		}
		return -1
	case skDigitAt:
		if p.off < 0 || p.off >= len(h) {
			return -1
		}
		for i := p.off; i < len(h); i++ {
			if simdIsDigit(h[i]) {
				return i
			}
		}
		return -1
	case skWord:
		for i, c := range h {
			if simdIsWord(c) {
				return i
			}
		}
		return -1
	case skNotWord:
		for i, c := range h {
			if !simdIsWord(c) {
				return i
			}
		}
		return -1
	case skInTable:
		if p.tbl == nil {
			return -1
		}
		for i, c := range h {
			if p.tbl[c] {
				return i
			}
		}
		return -1
	case skNotInTable:
		if p.tbl == nil {
			return -1
		}
		for i, c := range h {
			if !p.tbl[c] {
				return i
			}
		}
		return -1
	case skIsASCII:
		for _, c := range h {
			if c >= 0x80 {
				return 0
			}
		}
		return 1
	case skCount:
		n := 0
		for _, c := range h {
			if c >= 0x80 {
				n++
			}
		}
		return n
	case skFirstNA:
		for i, c := range h {
			if c >= 0x80 {
				return i
			}
		}
		return -1
	}
	panic("unknown probe kind")
}

func hexBytes(b []byte, max int) string {
	var sb strings.Builder
	for i, c := range b {
		if i >= max {
			fmt.Fprintf(&sb, "..(%d)", len(b))
			break
		}
		fmt.Fprintf(&sb, "%02x", c)
	}
	return sb.String()
}

// pattern is the short description of the needles (independent of the placement).
func (p *sprobe) pattern() string {
	switch p.kind {
	case skMemchr:
		return fmt.Sprintf("needle=%02x", p.b[0])
	case skMemchr2:
		return fmt.Sprintf("needles=%02x,%02x", p.b[0], p.b[1])
	case skMemchr3:
		return fmt.Sprintf("needles=%02x,%02x,%02x", p.b[0], p.b[1], p.b[2])
	case skPair:
		return fmt.Sprintf("b1=%02x b2=%02x offset=%d", p.b[0], p.b[1], p.off)
	case skMemmem:
		return fmt.Sprintf("needle[%d]=%s", len(p.nd), hexBytes(p.nd, 80))
	case skDigitAt:
		return fmt.Sprintf("at=%d", p.off)
	case skInTable, skNotInTable:
		return "table=" + p.tdesc
	}
	return ""
}

// ---------------------------------------------------------------- guarded memory

const (
	plEnd = iota
	plStart
	plMid
)

var plNames = [...]string{"end", "start", "mid"}

type sarena struct {
	mem  []byte
	data []byte // the accessible pages between the two PROT_NONE pages
}

const simdDataPages = 2

func newSArena() (*sarena, error) {
	pg := syscall.Getpagesize()
	mem, err := syscall.Mmap(-1, 0, (simdDataPages+2)*pg, syscall.PROT_READ|syscall.PROT_WRITE, syscall.MAP_ANON|syscall.MAP_PRIVATE)
	if err != nil {
		return nil, fmt.Errorf("mmap: %v", err)
	}
	if err := syscall.Mprotect(mem[:pg], syscall.PROT_NONE); err != nil {
		return nil, fmt.Errorf("mprotect: %v", err)
	}
	if err := syscall.Mprotect(mem[(simdDataPages+1)*pg:], syscall.PROT_NONE); err != nil {
		return nil, fmt.Errorf("mprotect: %v", err)
	}
	return &sarena{mem: mem, data: mem[pg : (simdDataPages+1)*pg]}, nil
}

// place copies src into the arena and returns the slice (cap == len).  Up to 128 bytes on either
// side (inside the accessible pages) are filled with bait bytes.
func (a *sarena) place(src []byte, kind, align int, bait *[3]byte) []byte {
	n := len(src)
	var off int
	switch kind {
	case plEnd:
		off = len(a.data) - n
	case plStart:
		off = 0
	default:
		off = 1024 + align
	}
	if bait != nil {
		lo, hi := off-128, off+n+128
		if lo < 0 {
			lo = 0
		}
		if hi > len(a.data) {
			hi = len(a.data)
		}
		for i := lo; i < off; i++ {
			a.data[i] = bait[i%3]
		}
		for i := off + n; i < hi; i++ {
			a.data[i] = bait[i%3]
		}
	}
	copy(a.data[off:], src)
	return a.data[off : off+n : off+n]
}

// ---------------------------------------------------------------- worker

type simdWorker struct {
	rep     *core.Report
	hay     *sarena
	ndl     *sarena
	godebug string
	probes  []sprobe
	ndbuf   []byte
	src     []byte

	cases, calls, nontriv, tlaChecked, naiveOnly, faults, concretisations int64
	apiCalls                                                              [skN]int64
	fails                                                                 int64
	jobFails                                                              [skN]int // failures per primitive in the current job
}

// A broken primitive fails on almost every haystack (and every fault costs a signal): after this many
// reported failures of one primitive within one job (one TLA+ record or one exhaustive length) the
// primitive is not called again in that job.  Jobs are processed sequentially by one worker, so the
// set of reported failures is a deterministic function of the tree.
const simdMaxFailsPerJob = 4

func newSimdWorker(rep *core.Report) (*simdWorker, error) {
	h, err := newSArena()
	if err != nil {
		return nil, err
	}
	n, err := newSArena()
	if err != nil {
		return nil, err
	}
	return &simdWorker{rep: rep, hay: h, ndl: n, godebug: os.Getenv("GODEBUG")}, nil
}

// guard runs one primitive; a memory fault or any other panic is returned as text.
func (w *simdWorker) guard(p *sprobe, h, nd []byte) (res int, fault string) {
	defer func() {
		if r := recover(); r != nil {
			if ae, ok := r.(interface{ Addr() uintptr }); ok {
				base := uintptr(unsafe.Pointer(unsafe.SliceData(h)))
				d := int64(ae.Addr()) - int64(base)
				where := fmt.Sprintf("haystack[%d] (len %d)", d, len(h))
				if p.kind == skMemmem && nd != nil {
					nb := uintptr(unsafe.Pointer(unsafe.SliceData(nd)))
					dn := int64(ae.Addr()) - int64(nb)
					if dn >= -4096 && dn <= int64(len(nd))+4096 && (d < -4096 || d > int64(len(h))+4096) {
						where = fmt.Sprintf("needle[%d] (len %d)", dn, len(nd))
					}
				}
				fault = "memory fault: touches memory outside the slice at " + where
			} else {
				fault = fmt.Sprintf("panic: %v", r)
			}
		}
	}()
	return p.call(h, nd), ""
}

func (w *simdWorker) fail(p *sprobe, src []byte, h []byte, pl int, want, got string) {
	align := int(uintptr(unsafe.Pointer(unsafe.SliceData(h))) & 63)
	hs := src
	if len(hs) > 256 {
		hs = hs[:256]
	}
	w.fails++
	w.jobFails[p.kind]++
	w.rep.Fail(&core.Failure{Prop: "C18", Scope: "simd", API: skNames[p.kind], Mode: "", Pattern: p.pattern(), Hay: hex.EncodeToString(hs),
		Args: fmt.Sprintf("len=%d align=%d placement=%s", len(src), align, plNames[pl]), Want: want, Got: got, Cfg: w.godebug})
}

func (p *sprobe) want() string {
	if p.hasTLA {
		return fmtRes(p.kind, p.naive) + " (scalar definition: TLA+ value and naive loop agree)"
	}
	return fmtRes(p.kind, p.naive) + " (scalar definition, naive loop)"
}

func fmtRes(kind, v int) string {
	if kind == skIsASCII {
		return strconv.FormatBool(v != 0)
	}
	return strconv.Itoa(v)
}

// runCase places src in every requested way and runs every probe on it.
func (w *simdWorker) runCase(src []byte, bait *[3]byte, probes []sprobe, mids []int) {
	w.concretisations++
	midReady, prevOff := false, 0
	for pi := 0; pi < 2+len(mids); pi++ {
		pl, align := pi, 0
		if pi >= 2 {
			pl, align = plMid, mids[pi-2]
		}
		var h []byte
		if pl == plMid {
			// the alignments are ascending: bait the whole region once, then only the bytes the slice moved over
			off := 1024 + align
			d := w.hay.data
			if !midReady {
				for i := 1024 - 128; i < 1024+64+len(src)+128; i++ {
					d[i] = bait[i%3]
				}
				midReady = true
			} else {
				for i := prevOff; i < off; i++ {
					d[i] = bait[i%3]
				}
			}
			prevOff = off
			copy(d[off:], src)
			h = d[off : off+len(src) : off+len(src)]
		} else {
			h = w.hay.place(src, pl, align, bait)
		}
		w.cases++
		for i := range probes {
			p := &probes[i]
			if p.skip || p.reported&(1<<uint(pl)) != 0 || w.jobFails[p.kind] >= simdMaxFailsPerJob {
				continue
			}
			var nd []byte
			if p.kind == skMemmem {
				npl := plEnd
				if pl == plStart {
					npl = plStart
				}
				nd = w.ndl.place(p.nd, npl, 0, nil)
			}
			got, fault := w.guard(p, h, nd)
			w.calls++
			w.apiCalls[p.kind]++
			if p.hasTLA {
				w.tlaChecked++
			} else {
				w.naiveOnly++
			}
			if p.naive != -1 && !(p.kind == skIsASCII && p.naive == 1) && !(p.kind == skCount && p.naive == 0) {
				w.nontriv++
			}
			switch {
			case fault != "":
				w.faults++
				p.reported |= 1 << uint(pl)
				w.fail(p, src, h, pl, "no panic, no access outside the slice; result "+p.want(), fault)
			case got != p.naive:
				p.reported |= 1 << uint(pl)
				w.fail(p, src, h, pl, p.want(), fmtRes(p.kind, got))
			}
			if !bytes.Equal(h, src) {
				p.reported |= 1 << uint(pl)
				w.fail(p, src, h, pl, "haystack bytes unchanged by the call", "haystack modified")
				copy(h, src)
			}
			if nd != nil && !bytes.Equal(nd, p.nd) {
				p.reported |= 1 << uint(pl)
				w.fail(p, src, h, pl, "needle bytes unchanged by the call", "needle modified")
			}
		}
	}
}

// finishProbes computes the naive value of every probe and applies the three-way rule.
func (w *simdWorker) finishProbes(src []byte, probes []sprobe, what func() string) {
	for i := range probes {
		p := &probes[i]
		p.naive = simdNaive(p, src)
		if p.hasTLA && p.tla != p.naive {
			p.skip = true
			w.rep.Gap(fmt.Sprintf("%s %s on %s (%s): TLA+ %d, naive loop %d", skNames[p.kind], p.pattern(), hexBytes(src, 64), what(), p.tla, p.naive))
		}
	}
}

func (w *simdWorker) needle(n int) []byte {
	if len(w.ndbuf)+n > cap(w.ndbuf) {
		w.ndbuf = make([]byte, 0, 1<<16)
	}
	s := w.ndbuf[len(w.ndbuf) : len(w.ndbuf)+n : len(w.ndbuf)+n]
	w.ndbuf = w.ndbuf[:len(w.ndbuf)+n]
	return s
}

type simdTables struct {
	in, notIn, fillerOnly [256]bool
	dIn, dNotIn, dNotF    string
}

// doRecord replays one TLA+ record under every palette, width, lane offset and length jitter.
func (w *simdWorker) doRecord(hdr *simdHdr, tabs []simdTables, rec *simdRec, widths []int) {
	w.jobFails = [skN]int{}
	if len(rec.P) != len(hdr.Pals) || len(rec.H) != rec.N {
		w.rep.Machinery(fmt.Sprintf("record %d: malformed (TLC theorem failed?)", rec.I))
		return
	}
	W := hdr.W
	var mids []int
	for pi := range hdr.Pals {
		pb := hdr.Pals[pi].B
		var pal [6]byte
		for i := range pal {
			pal[i] = byte(pb[i])
		}
		pr := &rec.P[pi]
		bait := [3]byte{pal[1], pal[2], pal[3]}
		for wi := -1; wi < len(widths); wi++ {
			s := 1
			if wi >= 0 {
				s = widths[wi] / W
				if s < 4 {
					continue
				}
			}
			// alignments: a*s (mod 64) for every abstract alignment a, and 63 / 1 around a = 0
			// (the exhaustive part sweeps all 64 alignments)
			var seen [64]bool
			mids = mids[:0]
			for _, a := range rec.Al {
				for da := -1; da <= 1; da++ {
					if a != 0 && da != 0 {
						continue
					}
					x := ((a*s+da)%64 + 64) % 64
					if !seen[x] {
						seen[x] = true
						mids = append(mids, x)
					}
				}
			}
			sort.Ints(mids)
			offs := []int{0}
			jit := []int{0}
			if s > 1 && rec.N > 0 {
				offs = []int{0, 1, s - 2, s - 1}
				jit = []int{-1, 0, 1}
			}
			for _, o := range offs {
				for _, dl := range jit {
					if o >= s+dl {
						continue
					}
					w.concretise(hdr, &tabs[pi], rec, pr, &pal, &bait, s, o, dl, mids)
				}
			}
		}
	}
}

func (w *simdWorker) concretise(hdr *simdHdr, tb *simdTables, rec *simdRec, pr *simdPalRec, pal *[6]byte, bait *[3]byte, s, o, dl int, mids []int) {
	n := rec.N
	nn := n*s + dl
	if cap(w.src) < nn {
		w.src = make([]byte, nn, 2*nn+64)
	}
	src := w.src[:nn]
	f := pal[0]
	for i := range src {
		src[i] = f
	}
	for i, c := range rec.H {
		src[i*s+o] = pal[c]
	}
	cm := func(r int) int {
		if r < 0 {
			return -1
		}
		return r*s + o
	}
	exact := s == 1
	ps := w.probes[:0]
	w.ndbuf = w.ndbuf[:0]
	for k, cl := range hdr.M1K {
		ps = append(ps, sprobe{kind: skMemchr, b: [3]byte{pal[cl[0]]}, tla: cm(pr.M[k]), hasTLA: true})
	}
	for k, cl := range hdr.M2K {
		ps = append(ps, sprobe{kind: skMemchr2, b: [3]byte{pal[cl[0]], pal[cl[1]]}, tla: cm(pr.M2[k]), hasTLA: true})
	}
	for k, cl := range hdr.M3K {
		ps = append(ps, sprobe{kind: skMemchr3, b: [3]byte{pal[cl[0]], pal[cl[1]], pal[cl[2]]}, tla: cm(pr.M3[k]), hasTLA: true})
	}
	for k, cl := range hdr.PairK {
		b := [3]byte{pal[cl[0]], pal[cl[1]]}
		for d := 0; d <= hdr.D; d++ {
			ps = append(ps, sprobe{kind: skPair, b: b, off: d * s, tla: cm(pr.Pair[k][d]), hasTLA: true})
		}
		// in a stretched haystack two non-filler bytes are never s-1 or s+1 apart
		// (negative offsets are outside the documented domain of MemchrPair and are not called)
		if !exact {
			ps = append(ps, sprobe{kind: skPair, b: b, off: s - 1, tla: -1, hasTLA: true},
				sprobe{kind: skPair, b: b, off: s + 1, tla: -1, hasTLA: true})
		}
	}
	for k, cl := range hdr.MemK {
		var nd []byte
		if len(cl) > 0 {
			nd = w.needle((len(cl)-1)*s + 1)
			for i := range nd {
				nd[i] = f
			}
			for j, c := range cl {
				nd[j*s] = pal[c]
			}
		} else {
			nd = w.needle(0)
		}
		t := cm(pr.Mem[k])
		if len(cl) == 0 {
			t = pr.Mem[k] // the empty needle is found at 0
		}
		ps = append(ps, sprobe{kind: skMemmem, nd: nd, tla: t, hasTLA: true})
	}
	ps = append(ps,
		sprobe{kind: skInTable, tbl: &tb.in, tdesc: tb.dIn, tla: cm(pr.Tin), hasTLA: true},
		sprobe{kind: skNotInTable, tbl: &tb.notIn, tdesc: tb.dNotIn, tla: cm(pr.Tnot), hasTLA: true},
		sprobe{kind: skNotInTable, tbl: &tb.fillerOnly, tdesc: tb.dNotF, tla: cm(pr.Tnf), hasTLA: true},
		// the mapping i -> i*s+o is valid only when the filler does not satisfy the predicate
		sprobe{kind: skDigit, tla: cm(pr.Dig), hasTLA: exact || !simdIsDigit(f)},
		sprobe{kind: skWord, tla: cm(pr.Word), hasTLA: exact || !simdIsWord(f)},
		sprobe{kind: skNotWord, tla: cm(pr.NWord), hasTLA: exact || simdIsWord(f)},
		sprobe{kind: skIsASCII, tla: b2i(pr.Asc), hasTLA: exact || f < 0x80},
		sprobe{kind: skCount, tla: pr.Cnt, hasTLA: exact || f < 0x80},
		sprobe{kind: skFirstNA, tla: cm(pr.Fna), hasTLA: exact || f < 0x80})
	// MemchrDigitAt: digat[j] is the value for at = j-1, j = 0..n+2
	for j, v := range pr.DigAt {
		t := j - 1
		ats := [2]int{t * s, t*s + o}
		na := 2
		if t < 0 {
			ats[0], na = -1, 1
		} else if o == 0 {
			na = 1
		}
		for _, at := range ats[:na] {
			e := -1
			if at >= 0 && at < nn {
				e = cm(v)
			}
			ps = append(ps, sprobe{kind: skDigitAt, off: at, tla: e, hasTLA: exact || !simdIsDigit(f)})
		}
	}
	w.finishProbes(src, ps, func() string {
		return fmt.Sprintf("W=%d record %d stretched x%d lane %d len%+d", hdr.W, rec.I, s, o, dl)
	})
	w.runCase(src, bait, ps, mids)
	w.probes = ps[:0]
}

// ---------------------------------------------------------------- exhaustive part (no TLC)

var simdAllAligns = func() []int {
	a := make([]int, 64)
	for i := range a {
		a[i] = i
	}
	return a
}()

func simdTable(set func(byte) bool) *[256]bool {
	t := new([256]bool)
	for i := 0; i < 256; i++ {
		t[i] = set(byte(i))
	}
	return t
}

var (
	simdDigitTab   = simdTable(simdIsDigit)
	simdWordTab    = simdTable(simdIsWord)
	simdXTab       = simdTable(func(c byte) bool { return c == 'x' })
	simdNotXTab    = simdTable(func(c byte) bool { return c != 'x' })
	simdPairOffs   = []int{1, 2, 3, 7, 8, 9, 15, 16, 17, 31, 32, 33, 63, 64, 65}
	simdNeedleLens = []int{2, 3, 4, 6, 7, 8, 15, 16, 17, 31, 32, 33, 40}
	simdWordHits   = []byte{'A', 'Z', 'a', 'z', '0', '9', '_', 'm'}
	simdWordNear   = []byte{'@', '[', '`', '{', '/', ':', '^', 0x80, 0xff, 0x00, 0xc1, 0xda, 0xe1, 0xfa, 0xb0, 0xb9, 0xdf}
	simdDigitNear  = []byte{'/', ':', 0xb0, 0xb9, 0xaf, 0xba}
)

// exhaustiveN runs every single-hit scenario of length n.
func (w *simdWorker) exhaustiveN(n int) {
	w.jobFails = [skN]int{}
	src := make([]byte, n)
	fill := func(cyc []byte) {
		for i := range src {
			src[i] = cyc[i%len(cyc)]
		}
	}
	run := func(bait [3]byte, ps []sprobe) {
		w.finishProbes(src, ps, func() string { return "exhaustive" })
		w.runCase(src, &bait, ps, simdAllAligns)
	}
	for pos := -1; pos < n; pos++ {
		// --- single / double / triple byte, tables, one-byte needle; three fillers
		for _, cyc := range [][]byte{{'a'}, {'y', 0xf8, 'X'}, {0x00}} {
			fill(cyc)
			if pos >= 0 {
				src[pos] = 'x'
			}
			run([3]byte{'x', 'x', 'x'}, []sprobe{
				{kind: skMemchr, b: [3]byte{'x'}},
				{kind: skMemchr2, b: [3]byte{'x', 'Q'}}, {kind: skMemchr2, b: [3]byte{'Q', 'x'}}, {kind: skMemchr2, b: [3]byte{'x', 'x'}},
				{kind: skMemchr3, b: [3]byte{'x', 'Q', 'R'}}, {kind: skMemchr3, b: [3]byte{'Q', 'x', 'R'}}, {kind: skMemchr3, b: [3]byte{'Q', 'R', 'x'}},
				{kind: skInTable, tbl: simdXTab, tdesc: "{78}"}, {kind: skNotInTable, tbl: simdNotXTab, tdesc: "all but {78}"},
				{kind: skMemmem, nd: []byte{'x'}}, {kind: skMemmem, nd: []byte{}},
				{kind: skPair, b: [3]byte{'x', 'x'}, off: 0}, {kind: skPair, b: [3]byte{'x', 'Q'}, off: 0},
			})
		}
		// needle 0x00 in 0x01 filler and needle 0x80 in 0x00 filler (SWAR zero-byte detection corner cases)
		for _, nf := range [][2]byte{{0x00, 0x01}, {0x80, 0x00}, {0xff, 0x7f}, {0x01, 0x00}} {
			fill([]byte{nf[1]})
			if pos >= 0 {
				src[pos] = nf[0]
			}
			run([3]byte{nf[0], nf[0], nf[0]}, []sprobe{
				{kind: skMemchr, b: [3]byte{nf[0]}}, {kind: skMemchr2, b: [3]byte{nf[0], nf[0] ^ 0x55}}, {kind: skMemchr3, b: [3]byte{nf[0] ^ 0x55, nf[0] ^ 0x33, nf[0]}},
			})
		}
		// --- byte pair: b1 at pos, b2 at pos+d; three fillers (plain, b1 everywhere, b2 everywhere)
		for _, d := range simdPairOffs {
			for v := 0; v < 4; v++ {
				fl := []byte{'a', 'x', 'Q', 'y'}[v]
				fill([]byte{fl})
				if pos >= 0 {
					// v=0: plain; v=1: b1 everywhere, the only b2 at pos+d; v=2: b2 everywhere, the only b1 at pos;
					// v=3: filler b1^1, b1 at pos, b2 one place too far (no pair at all; a SWAR zero-byte
					//      detector sees a false b1 right after a true one)
					if v != 1 {
						src[pos] = 'x'
					}
					if v == 3 {
						if pos+d+1 < n {
							src[pos+d+1] = 'Q'
						}
					} else if v != 2 && pos+d < n {
						src[pos+d] = 'Q'
					}
				}
				run([3]byte{'x', 'Q', 'x'}, []sprobe{{kind: skPair, b: [3]byte{'x', 'Q'}, off: d}})
			}
		}
		// --- substring: needle at pos (truncated at the end = near miss); fillers: plain, first needle byte, last needle byte
		for _, m := range simdNeedleLens {
			for shape := 0; shape < 3; shape++ {
				nd := make([]byte, m)
				for i := range nd {
					switch shape {
					case 0: // distinct letters, the rarest ('q','z','j',...) somewhere inside
						nd[i] = "etaoinshrdlucmfwypvbgkqjxz"[(i*7+3)%26]
					case 1: // one repeated byte
						nd[i] = 'x'
					case 2: // periodic with a distinct last byte
						nd[i] = "ab"[i%2]
						if i == m-1 {
							nd[i] = 'c'
						}
					}
				}
				for v := 0; v < 3; v++ {
					fl := byte(' ')
					if v == 1 {
						fl = nd[0]
					} else if v == 2 {
						fl = nd[m-1]
					}
					if shape == 1 && v > 0 {
						continue // filler == needle byte: every position matches; covered by pos = 0
					}
					fill([]byte{fl})
					if pos >= 0 {
						copy(src[pos:], nd)
					}
					run([3]byte{nd[0], nd[m-1], nd[m/2]}, []sprobe{{kind: skMemmem, nd: nd}})
				}
			}
		}
		// --- digits
		for fi, cyc := range [][]byte{{'a'}, simdDigitNear, {0xb5}} {
			fill(cyc)
			if pos >= 0 {
				src[pos] = "09"[pos%2]
			}
			ps := []sprobe{{kind: skDigit}, {kind: skDigitAt, off: 0}, {kind: skDigitAt, off: pos}, {kind: skDigitAt, off: pos + 1},
				{kind: skDigitAt, off: n - 1}, {kind: skDigitAt, off: n}, {kind: skDigitAt, off: -1}, {kind: skDigitAt, off: n / 2},
				{kind: skInTable, tbl: simdDigitTab, tdesc: "[0-9]"}}
			if fi != 0 {
				ps = append(ps, sprobe{kind: skWord})
			}
			run([3]byte{'0', '9', '5'}, ps)
		}
		// --- word characters
		for _, cyc := range [][]byte{{' '}, simdWordNear} {
			fill(cyc)
			if pos >= 0 {
				src[pos] = simdWordHits[pos%len(simdWordHits)]
			}
			run([3]byte{'A', 'z', '_'}, []sprobe{{kind: skWord}, {kind: skInTable, tbl: simdWordTab, tdesc: `\w`}})
		}
		// --- non-word characters
		for _, cyc := range [][]byte{{'m'}, simdWordHits} {
			fill(cyc)
			if pos >= 0 {
				src[pos] = simdWordNear[pos%len(simdWordNear)]
			}
			run([3]byte{'@', '[', 0x80}, []sprobe{{kind: skNotWord}, {kind: skNotInTable, tbl: simdWordTab, tdesc: `\w`}})
		}
		// --- ASCII: one non-ASCII byte at pos; and everything from pos on non-ASCII (count)
		for v := 0; v < 3; v++ {
			switch v {
			case 0:
				fill([]byte{'a'})
			case 1:
				fill([]byte{0x7f, 0x00})
			case 2:
				fill([]byte{'a'})
			}
			if pos >= 0 {
				src[pos] = []byte{0x80, 0xff, 0xc3}[pos%3]
				if v == 2 {
					for i := pos; i < n; i++ {
						src[i] = 0x80 | byte(i)
					}
				}
			}
			run([3]byte{0x80, 0xff, 0xc3}, []sprobe{{kind: skIsASCII}, {kind: skCount}, {kind: skFirstNA}})
		}
	}
}

// ---------------------------------------------------------------- self test of the fault detector

// selfTest lies about the length of a slice that ends at the PROT_NONE page (and about the start of
// one that begins right after it): the over-read must come back as a recovered fault.
func (w *simdWorker) selfTest() error {
	src := bytes.Repeat([]byte{'a'}, 64)
	h := w.hay.place(src, plEnd, 0, nil)
	lying := unsafe.Slice(unsafe.SliceData(h), len(h)+8)
	for _, p := range []sprobe{{kind: skMemchr, b: [3]byte{'x'}}, {kind: skIsASCII}, {kind: skDigit}} {
		if _, fault := w.guard(&p, lying, nil); !strings.HasPrefix(fault, "memory fault") {
			return fmt.Errorf("guard self-test: %s over-reading 8 bytes into the PROT_NONE page was not detected (%q)", skNames[p.kind], fault)
		}
	}
	h = w.hay.place(src, plStart, 0, nil)
	before := unsafe.Slice((*byte)(unsafe.Add(unsafe.Pointer(unsafe.SliceData(h)), -8)), len(h)+8)
	p := sprobe{kind: skMemchr, b: [3]byte{'x'}}
	if _, fault := w.guard(&p, before, nil); !strings.HasPrefix(fault, "memory fault") {
		return fmt.Errorf("guard self-test: reading before the slice was not detected (%q)", fault)
	}
	return nil
}

// detectDispatch finds out, through the public API only, whether the vector or the scalar code is
// dispatched under the current CPU feature mask: a 32-byte slice of which only the first 16 bytes are
// accessible has its hit in byte 0.  Scalar/SWAR code (8-byte words at most) returns 0; a 32-byte
// vector load faults.
func (w *simdWorker) detectDispatch() map[string]string {
	out := map[string]string{}
	for _, p := range []sprobe{{kind: skMemchr, b: [3]byte{'x'}}, {kind: skMemchr2, b: [3]byte{'x', 'Q'}}, {kind: skMemchr3, b: [3]byte{'x', 'Q', 'R'}},
		{kind: skPair, b: [3]byte{'x', 'Q'}, off: 1}, {kind: skDigit}, {kind: skWord}, {kind: skNotWord}, {kind: skIsASCII}} {
		src := []byte("xQ              ")
		switch p.kind {
		case skDigit, skWord:
			src[0] = '7'
		case skNotWord:
			src = []byte("%aaaaaaaaaaaaaaa")
		case skIsASCII:
			src[0] = 0x80
		}
		h := w.hay.place(src, plEnd, 0, nil)
		n := 32
		if p.kind == skPair {
			n = 33 // the vector path needs len >= 32+offset
		}
		lying := unsafe.Slice(unsafe.SliceData(h), n)
		res, fault := w.guard(&p, lying, nil)
		switch {
		case strings.HasPrefix(fault, "memory fault"):
			out[skNames[p.kind]] = "vector (32-byte loads)"
		case fault == "" && res == 0:
			out[skNames[p.kind]] = "scalar/SWAR (no load wider than 8 bytes)"
		default:
			out[skNames[p.kind]] = fmt.Sprintf("undetermined (result %d, %s)", res, fault)
		}
	}
	return out
}

// ---------------------------------------------------------------- driver

func runSimd(args []string) {
	fs := flag.NewFlagSet("simd", flag.ExitOnError)
	in := fs.String("in", "", "TLC output file(s) of MC_Simd, comma separated (may be empty: exhaustive part only)")
	_ = fs.String("props", "C18", "")
	report := fs.String("report", "report.json", "")
	fails := fs.String("fail", "fail.ndjson", "")
	widthsF := fs.String("widths", "16,32,64", "real vector widths the abstract cases are stretched to")
	exh := fs.Int("exh", 193, "exhaustive part: all lengths 0..exh (-1: skip)")
	workers := fs.Int("workers", runtime.NumCPU(), "")
	fs.Parse(args)

	var widths []int
	for _, x := range strings.Split(*widthsF, ",") {
		v, err := strconv.Atoi(strings.TrimSpace(x))
		if err != nil || v <= 0 {
			fatal(fmt.Errorf("bad -widths %q", *widthsF))
		}
		widths = append(widths, v)
	}
	rep, err := core.NewReport(*fails)
	if err != nil {
		fatal(err)
	}
	rep.Extra["godebug"] = os.Getenv("GODEBUG")

	{
		done := make(chan struct{})
		go func() { // SetPanicOnFault is per goroutine
			defer close(done)
			debug.SetPanicOnFault(true)
			w, err := newSimdWorker(rep)
			if err != nil {
				fatal(err)
			}
			d := w.detectDispatch()
			rep.Extra["dispatch_observed"] = d
			keys := make([]string, 0, len(d))
			for k := range d {
				keys = append(keys, k)
			}
			sort.Strings(keys)
			var sb strings.Builder
			for _, k := range keys {
				fmt.Fprintf(&sb, " %s=%s;", k, d[k])
			}
			fmt.Fprintf(os.Stderr, "vh simd: GODEBUG=%q dispatch observed through the public API:%s\n", os.Getenv("GODEBUG"), sb.String())
		}()
		<-done
	}
	type job struct {
		hdr  *simdHdr
		tabs []simdTables
		rec  *simdRec
		exhN int
	}
	jobs := make(chan job, 256)
	var wg sync.WaitGroup
	var mu sync.Mutex
	var tot simdWorker
	var firstErr error
	for i := 0; i < *workers; i++ {
		wg.Add(1)
		go func() {
			defer wg.Done()
			debug.SetPanicOnFault(true)
			w, err := newSimdWorker(rep)
			if err == nil {
				err = w.selfTest()
			}
			if err != nil {
				mu.Lock()
				if firstErr == nil {
					firstErr = err
				}
				mu.Unlock()
				for range jobs {
				}
				return
			}
			for j := range jobs {
				if j.rec != nil {
					w.doRecord(j.hdr, j.tabs, j.rec, widths)
				} else {
					w.exhaustiveN(j.exhN)
				}
			}
			mu.Lock()
			tot.cases += w.cases
			tot.calls += w.calls
			tot.nontriv += w.nontriv
			tot.tlaChecked += w.tlaChecked
			tot.naiveOnly += w.naiveOnly
			tot.faults += w.faults
			tot.concretisations += w.concretisations
			tot.fails += w.fails
			for k := range tot.apiCalls {
				tot.apiCalls[k] += w.apiCalls[k]
			}
			mu.Unlock()
		}()
	}

	for n := *exh; n >= 0; n-- { // the long ones first
		jobs <- job{exhN: n}
	}
	nrec := 0
	recsByW := map[string]int{}
	var hdrs []any
	if *in != "" {
		for _, path := range strings.Split(*in, ",") {
			var hdr *simdHdr
			var tabs []simdTables
			var pending []*simdRec
			emit := func(r *simdRec) {
				nrec++
				recsByW[fmt.Sprintf("W=%d", hdr.W)]++
				jobs <- job{hdr: hdr, tabs: tabs, rec: r}
			}
			err := readQuoted(path, func(s string) {
				r := new(simdRec)
				if e := json.Unmarshal([]byte(s), r); e != nil {
					rep.Machinery("json: " + e.Error())
					return
				}
				if r.Hdr {
					hdr = new(simdHdr)
					if e := json.Unmarshal([]byte(s), hdr); e != nil {
						rep.Machinery("json header: " + e.Error())
						hdr = nil
						return
					}
					tabs = make([]simdTables, len(hdr.Pals))
					for i, p := range hdr.Pals {
						t := &tabs[i]
						for c := 0; c < 256; c++ {
							hit := c == p.B[1] || c == p.B[2] || c == p.B[3]
							t.in[c] = hit
							t.notIn[c] = !hit
							t.fillerOnly[c] = c == p.B[0]
						}
						t.dIn = fmt.Sprintf("{%02x,%02x,%02x}", p.B[1], p.B[2], p.B[3])
						t.dNotIn = "all but " + t.dIn
						t.dNotF = fmt.Sprintf("{%02x}", p.B[0])
					}
					hdrs = append(hdrs, map[string]any{"file": path, "W": hdr.W, "ncases": hdr.NCases, "maxhits": hdr.MaxHits, "nmax": hdr.NMax,
						"tail_modes_checked_by_TLC": hdr.Modes, "palettes": len(hdr.Pals)})
					for _, p := range pending {
						emit(p)
					}
					pending = nil
					return
				}
				if hdr == nil {
					pending = append(pending, r)
					return
				}
				emit(r)
			})
			if err != nil {
				rep.Machinery(err.Error())
			}
			if hdr == nil {
				rep.Machinery("no header record in " + path)
			}
		}
	}
	close(jobs)
	wg.Wait()
	if firstErr != nil {
		rep.Machinery(firstErr.Error())
	}
	rep.Add(nrec, int(tot.cases), int(tot.calls), int(tot.nontriv), "")
	for k, n := range tot.apiCalls {
		rep.API(skNames[k], int(n))
	}
	rep.Extra["generator_headers"] = hdrs
	rep.Extra["records_by_width"] = recsByW
	rep.Extra["haystacks_built"] = tot.concretisations
	rep.Extra["placements"] = tot.cases
	rep.Extra["calls_checked_against_tla_and_naive"] = tot.tlaChecked
	rep.Extra["calls_checked_against_naive_only"] = tot.naiveOnly
	rep.Extra["faults"] = tot.faults
	rep.Extra["exhaustive_max_len"] = *exh
	rep.Extra["widths"] = widths
	rep.Extra["guard_selftest"] = firstErr == nil
	if err2 := rep.Close(*report); err2 != nil {
		fatal(err2)
	}
	if len(rep.MachineryErrs) > 0 {
		fatal(fmt.Errorf("%s", rep.MachineryErrs[0]))
	}
}
