package main

// C15 (translation validation): `nfaexport` compiles every class / literal / dot descriptor printed by
// MC_UTF8 (phase "gen") with the real NFA compiler in each compilation mode and exports the automaton through
// nfa.NFA's public inspection API, one JSON line per (descriptor, mode), for MC_UTF8 (phase "check").
// `utf8confirm` takes the disagreements TLC found and confirms each against package regexp (three-way rule)
// and against the real engine (nfa.PikeVM on the exported automaton's source), before it counts.
// `utf8sweep` is the auxiliary full sweep of all 0x110000 code points against regexp.

import (
	"bufio"
	"encoding/json"
	"flag"
	"fmt"
	"os"
	"regexp"
	"regexp/syntax"
	"sort"
	"strconv"
	"strings"
	"unicode/utf8"

	"github.com/coregx/coregex/nfa"

	"verif/harness/internal/core"
)

type u8Desc struct {
	Desc int `json:"desc"`
	D    struct {
		Kind string  `json:"kind"`
		Rs   [][]int `json:"rs"`
		Neg  bool    `json:"neg"`
		Fold bool    `json:"fold"`
	} `json:"d"`
}

func (d *u8Desc) pattern() string {
	esc := func(r int) string { return fmt.Sprintf(`\x{%X}`, r) }
	var s string
	switch d.D.Kind {
	case "dot":
		return "."
	case "dots":
		return "(?s:.)"
	case "lit":
		s = esc(d.D.Rs[0][0])
	default:
		var sb strings.Builder
		sb.WriteString("[")
		if d.D.Neg {
			sb.WriteString("^")
		}
		for _, r := range d.D.Rs {
			if r[0] == r[1] {
				sb.WriteString(esc(r[0]))
			} else {
				sb.WriteString(esc(r[0]) + "-" + esc(r[1]))
			}
		}
		sb.WriteString("]")
		s = sb.String()
	}
	if d.D.Fold {
		return "(?i:" + s + ")"
	}
	return s
}

type xState struct {
	K    string   `json:"k"`
	Lo   int      `json:"lo"`
	Hi   int      `json:"hi"`
	Next int      `json:"next"`
	L    int      `json:"l"`
	R    int      `json:"r"`
	Tr   []xTrans `json:"tr"`
}
type xTrans struct {
	Lo   int `json:"lo"`
	Hi   int `json:"hi"`
	Next int `json:"next"`
}
type xNFA struct {
	Desc   int      `json:"desc"`
	Mode   string   `json:"mode"`
	Pat    string   `json:"pat"`
	Start  int      `json:"start"`
	States []xState `json:"states"`
}

func exportNFA(n *nfa.NFA) (int, []xState) {
	out := make([]xState, n.States())
	for i := 0; i < n.States(); i++ {
		s := n.State(nfa.StateID(i))
		x := xState{Tr: []xTrans{}}
		switch s.Kind() {
		case nfa.StateMatch:
			x.K = "match"
		case nfa.StateByteRange:
			lo, hi, next := s.ByteRange()
			x.K, x.Lo, x.Hi, x.Next = "range", int(lo), int(hi), int(next)
		case nfa.StateSparse:
			x.K = "sparse"
			for _, t := range s.Transitions() {
				x.Tr = append(x.Tr, xTrans{int(t.Lo), int(t.Hi), int(t.Next)})
			}
		case nfa.StateSplit:
			l, r := s.Split()
			x.K, x.L, x.R = "split", int(l), int(r)
		case nfa.StateEpsilon:
			x.K, x.Next = "eps", int(s.Epsilon())
		case nfa.StateCapture:
			_, _, next := s.Capture()
			x.K, x.Next = "cap", int(next)
		case nfa.StateLook:
			_, next := s.Look()
			x.K, x.Next = "look", int(next)
		case nfa.StateRuneAny:
			x.K, x.Next = "runeany", int(s.RuneAny())
		case nfa.StateRuneAnyNotNL:
			x.K, x.Next = "runeanynotnl", int(s.RuneAnyNotNL())
		default:
			x.K = "fail"
		}
		out[i] = x
	}
	return int(n.StartAnchored()), out
}

var u8Modes = []struct {
	name string
	cfg  func() nfa.CompilerConfig
}{
	{"default", func() nfa.CompilerConfig { return nfa.DefaultCompilerConfig() }},
	{"sparse", func() nfa.CompilerConfig { c := nfa.DefaultCompilerConfig(); c.UseRuneStates = true; return c }},
	{"ascii", func() nfa.CompilerConfig { c := nfa.DefaultCompilerConfig(); c.ASCIIOnly = true; return c }},
}

func readQuoted(path string, fn func(s string)) error {
	f, err := os.Open(path)
	if err != nil {
		return err
	}
	defer f.Close()
	sc := bufio.NewScanner(f)
	sc.Buffer(make([]byte, 1<<20), 1<<28)
	for sc.Scan() {
		line := sc.Text()
		if !strings.HasPrefix(line, `"`) {
			continue
		}
		s, err := strconv.Unquote(line)
		if err != nil {
			return err
		}
		fn(s)
	}
	return sc.Err()
}

func runNFAExport(args []string) {
	fs := flag.NewFlagSet("nfaexport", flag.ExitOnError)
	in := fs.String("in", "", "TLC output (MC_UTF8 gen)")
	out := fs.String("out", "nfas.ndjson", "")
	fs.Parse(args)
	var descs []u8Desc
	if err := readQuoted(*in, func(s string) {
		var d u8Desc
		if json.Unmarshal([]byte(s), &d) == nil && d.Desc > 0 {
			descs = append(descs, d)
		}
	}); err != nil {
		fatal(err)
	}
	sort.Slice(descs, func(i, j int) bool { return descs[i].Desc < descs[j].Desc })
	of, err := os.Create(*out)
	if err != nil {
		fatal(err)
	}
	defer of.Close()
	w := bufio.NewWriter(of)
	defer w.Flush()
	n := 0
	for _, d := range descs {
		pat := d.pattern()
		re, perr := syntax.Parse(pat, syntax.Perl)
		if perr != nil {
			fatal(fmt.Errorf("descriptor %d: %q: %v", d.Desc, pat, perr))
		}
		for _, m := range u8Modes {
			cfg := m.cfg()
			cfg.Anchored = true
			an, cerr := nfa.NewCompiler(cfg).CompileRegexp(re)
			if cerr != nil {
				continue // declined
			}
			start, states := exportNFA(an)
			b, _ := json.Marshal(xNFA{Desc: d.Desc, Mode: m.name, Pat: pat, Start: start, States: states})
			w.Write(b)
			w.WriteByte('\n')
			n++
		}
	}
	fmt.Println(n)
}

type u8Result struct {
	Desc  int    `json:"desc"`
	Mode  string `json:"mode"`
	Pat   string `json:"pat"`
	Tests int    `json:"tests"`
	Bad   []struct {
		S    []int `json:"s"`
		Want bool  `json:"want"`
	} `json:"bad"`
}

func runUTF8Confirm(args []string) {
	fs := flag.NewFlagSet("utf8confirm", flag.ExitOnError)
	in := fs.String("in", "", "TLC output (MC_UTF8 check)")
	report := fs.String("report", "report.json", "")
	fails := fs.String("fail", "fail.ndjson", "")
	fs.Parse(args)
	rep, err := core.NewReport(*fails)
	if err != nil {
		fatal(err)
	}
	lines, tests, confirmed := 0, 0, 0
	err = readQuoted(*in, func(s string) {
		var r u8Result
		if json.Unmarshal([]byte(s), &r) != nil || r.Desc == 0 {
			return
		}
		lines++
		tests += r.Tests
		std := regexp.MustCompile("^(?:" + r.Pat + ")$")
		re, _ := syntax.Parse(r.Pat, syntax.Perl)
		for _, b := range r.Bad {
			bs := toBytes(b.S)
			if std.Match(bs) != b.Want {
				rep.Gap(fmt.Sprintf("C15 %s on %x: spec %v regexp %v", r.Pat, bs, b.Want, std.Match(bs)))
				continue
			}
			// observe the real engine on the real automaton (the TLC verdict concerned the exported copy)
			cfg := nfa.DefaultCompilerConfig()
			for _, m := range u8Modes {
				if m.name == r.Mode {
					cfg = m.cfg()
				}
			}
			cfg.Anchored = true
			got := !b.Want
			if an, cerr := nfa.NewCompiler(cfg).CompileRegexp(re); cerr == nil {
				s, e, ok := nfa.NewPikeVM(an).Search(bs)
				got = ok && s == 0 && e == len(bs)
				if !ok || s != 0 {
					got = false
				}
				// whole-input acceptance: a shorter match is not acceptance of the string
				if ok && e != len(bs) {
					got = false
				}
			}
			if got == b.Want {
				rep.Gap(fmt.Sprintf("C15 %s [%s] on %x: exported automaton disagrees (%v) but the engine agrees with regexp", r.Pat, r.Mode, bs, !b.Want))
				continue
			}
			confirmed++
			rep.Fail(&core.Failure{Prop: "C15", API: "nfa.Compile[" + r.Mode + "]", Mode: r.Mode, Pattern: r.Pat, Hay: core.Hex(bs),
				Want: fmt.Sprintf("accepts=%v (regexp ^(?:c)$; decoded rune %U)", b.Want, firstRune(bs)), Got: fmt.Sprintf("accepts=%v", got), Scope: "compile"})
		}
		if lines%17 == 1 {
			rep.Sample(map[string]any{"pattern": r.Pat, "mode": r.Mode, "tests": r.Tests, "disagreements": len(r.Bad)})
		}
	})
	if err != nil {
		fatal(err)
	}
	rep.Add(lines, tests, tests, tests/2, "")
	rep.Extra["automata_checked"] = lines
	rep.Extra["acceptance_tests_by_tlc"] = tests
	rep.Extra["disagreements_confirmed"] = confirmed
	if err := rep.Close(*report); err != nil {
		fatal(err)
	}
}

func firstRune(b []byte) rune {
	r, _ := utf8.DecodeRune(b)
	return r
}

// runUTF8Sweep: all code points, all descriptors, default mode, real engine vs regexp (auxiliary evidence).
func runUTF8Sweep(args []string) {
	fs := flag.NewFlagSet("utf8sweep", flag.ExitOnError)
	in := fs.String("in", "", "TLC output (MC_UTF8 gen)")
	report := fs.String("report", "report.json", "")
	fails := fs.String("fail", "fail.ndjson", "")
	step := fs.Int("step", 1, "stride over code points (1 = all)")
	fs.Parse(args)
	rep, err := core.NewReport(*fails)
	if err != nil {
		fatal(err)
	}
	var descs []u8Desc
	readQuoted(*in, func(s string) {
		var d u8Desc
		if json.Unmarshal([]byte(s), &d) == nil && d.Desc > 0 {
			descs = append(descs, d)
		}
	})
	total := 0
	for _, d := range descs {
		pat := d.pattern()
		std := regexp.MustCompile("^(?:" + pat + ")$")
		re, _ := syntax.Parse(pat, syntax.Perl)
		cfg := nfa.DefaultCompilerConfig()
		cfg.Anchored = true
		an, cerr := nfa.NewCompiler(cfg).CompileRegexp(re)
		if cerr != nil {
			continue
		}
		pv := nfa.NewPikeVM(an)
		bad := 0
		var buf [4]byte
		for r := rune(0); r <= 0x10FFFF; r += rune(*step) {
			if r >= 0xD800 && r <= 0xDFFF {
				continue
			}
			n := utf8.EncodeRune(buf[:], r)
			b := buf[:n]
			want := std.Match(b)
			s, e, ok := pv.Search(b)
			got := ok && s == 0 && e == n
			total++
			if got != want {
				bad++
				if bad <= 3 {
					rep.Fail(&core.Failure{Prop: "C15", API: "nfa.Compile[default]", Mode: "default", Pattern: pat, Hay: core.Hex(b),
						Want: fmt.Sprintf("accepts=%v (%U)", want, r), Got: fmt.Sprintf("accepts=%v", got), Scope: "compile"})
				}
			}
		}
	}
	rep.Add(len(descs), total, total, total/2, "")
	rep.Extra["code_points_swept"] = total
	if err := rep.Close(*report); err != nil {
		fatal(err)
	}
}
