package main

// C07: total, memory-safe, well-formed.  For every TLC-generated (pattern, haystack) - and a pumped copy of the
// haystack - every search / enumeration / replace call is executed with the haystack placed in mmap'ed memory flush
// against a PROT_NONE page (at its end, then at its start), the haystack pages themselves READ-ONLY, under
// debug.SetPanicOnFault: a read outside the slice or any write to the input is a fault attributed to the call; a panic
// or a missed deadline is a failure too.  Every returned value is checked against the well-formedness predicates
// that spec/MC_Search.tla asserts of the reference (WFSlots, WFAll) plus aliasing of returned slices.
// (Pattern strings: `compile -props C07` on MC_Compile output.)

import (
	"bytes"
	"flag"
	"fmt"
	"os"
	"runtime"
	"runtime/debug"
	"syscall"
	"time"
	"unsafe"

	"github.com/coregx/coregex"

	"verif/harness/internal/core"
)

var wfSink byte // keeps the self-test's out-of-bounds load alive

func wfSlots(m []int, n, nc int) string {
	if m == nil {
		return ""
	}
	if len(m) != 2*(nc+1) {
		return fmt.Sprintf("len %d, want %d", len(m), 2*(nc+1))
	}
	if !(0 <= m[0] && m[0] <= m[1] && m[1] <= n) {
		return fmt.Sprintf("span [%d %d] outside 0..%d", m[0], m[1], n)
	}
	for g := 1; g <= nc; g++ {
		s, e := m[2*g], m[2*g+1]
		if s == -1 && e == -1 {
			continue
		}
		if !(m[0] <= s && s <= e && e <= m[1]) {
			return fmt.Sprintf("group %d [%d %d] not inside the match [%d %d]", g, s, e, m[0], m[1])
		}
	}
	return ""
}

func wfAll(a [][]int, n, nc int, full bool) string {
	for i, m := range a {
		if full {
			if msg := wfSlots(m, n, nc); msg != "" {
				return fmt.Sprintf("match %d: %s", i, msg)
			}
		} else if len(m) != 2 || !(0 <= m[0] && m[0] <= m[1] && m[1] <= n) {
			return fmt.Sprintf("match %d: bad span %v", i, m)
		}
		if i > 0 {
			p := a[i-1]
			if p[1] > m[0] {
				return fmt.Sprintf("matches %d and %d overlap or are out of order: %v %v", i-1, i, p[:2], m[:2])
			}
			if m[0] == m[1] && p[1] == m[0] && p[0] != p[1] {
				return fmt.Sprintf("empty match %v directly after match %v", m[:2], p[:2])
			}
		}
	}
	return ""
}

func aliases(sub, h []byte) bool {
	if len(sub) == 0 {
		return true
	}
	if len(h) == 0 {
		return false
	}
	lo := uintptr(unsafe.Pointer(&h[0]))
	p := uintptr(unsafe.Pointer(&sub[0]))
	return p >= lo && p+uintptr(len(sub)) <= lo+uintptr(len(h))
}

func runWellFormed(args []string) {
	fs := flag.NewFlagSet("wellformed", flag.ExitOnError)
	in := fs.String("in", "", "TLC output (MC_Search)")
	_ = fs.String("props", "C07", "")
	report := fs.String("report", "report.json", "")
	fails := fs.String("fail", "fail.ndjson", "")
	fs.Parse(args)
	f, err := os.Open(*in)
	if err != nil {
		fatal(err)
	}
	defer f.Close()
	rep, err := core.NewReport(*fails)
	if err != nil {
		fatal(err)
	}
	arenas := make(chan *sarena, runtime.NumCPU())
	for i := 0; i < runtime.NumCPU(); i++ {
		a, err := newSArena()
		if err != nil {
			fatal(err)
		}
		arenas <- a
	}
	// self-test of the observation: a read one byte past a slice that ends at the guard page, and a write into
	// read-only haystack pages, must both come back as recovered faults - otherwise nothing below means anything
	{
		ar := <-arenas
		probe := func(fn func()) (faulted bool) {
			debug.SetPanicOnFault(true)
			defer func() {
				if r := recover(); r != nil {
					faulted = true
				}
			}()
			fn()
			return false
		}
		h := ar.place([]byte("0123456789abcdef"), plEnd, 0, nil)
		over := probe(func() { wfSink = *(*byte)(unsafe.Add(unsafe.Pointer(&h[0]), len(h))) })
		syscall.Mprotect(ar.data, syscall.PROT_READ)
		wr := probe(func() { h[0] = 'x' })
		syscall.Mprotect(ar.data, syscall.PROT_READ|syscall.PROT_WRITE)
		if !over || !wr {
			fatal(fmt.Errorf("guard-page self-test failed (over-read detected=%v, write detected=%v)", over, wr))
		}
		rep.Extra["guard_selftest"] = true
		arenas <- ar
	}
	_, err = core.ReadRecords(f, runtime.NumCPU(), func(rec *core.Record) {
		pat := rec.Re.Pattern()
		var re *coregex.Regex
		var cerr error
		func() {
			defer func() {
				if r := recover(); r != nil {
					cerr = fmt.Errorf("panic: %v", r)
				}
			}()
			re, cerr = coregex.Compile(pat)
		}()
		if cerr != nil {
			return // C09 / compile -props C07 report it
		}
		nc := rec.NC
		done := make(chan [3]int, 1)
		go func() {
			ar := <-arenas
			defer func() { arenas <- ar }()
			debug.SetPanicOnFault(true)
			calls, cases, nontriv := 0, 0, 0
			for hi := range rec.Hs {
				base := core.HayBytes(rec.Hs[hi].H)
				variants := [][]byte{base}
				if len(base) > 0 && hi%3 == 0 {
					variants = append(variants, bytes.Repeat(base, 1+300/len(base)))
				}
				for _, src := range variants {
					if len(src) > len(ar.data)-64 {
						continue
					}
					for _, pl := range []int{plEnd, plStart} {
						h := ar.place(src, pl, 0, nil)
						ro := cases%16 == 0 // read-only input pages on a fixed subset (two syscalls per case); all cases compare the bytes afterwards
						if ro {
							syscall.Mprotect(ar.data, syscall.PROT_READ) // nothing may write to the input
						}
						var s string
						if len(h) > 0 {
							s = unsafe.String(&h[0], len(h))
						}
						hx := core.Hex(src[:min(len(src), 96)])
						cases++
						if len(rec.Hs[hi].AF) > 0 {
							nontriv++
						}
						fail := func(api, want, got string) {
							rep.Fail(&core.Failure{Prop: "C07", API: api, Mode: "first", Pattern: pat, Hay: hx, Args: fmt.Sprintf("len=%d placement=%s", len(src), plNames[pl]),
								Want: want, Got: got, Fam: rec.Fam})
						}
						guard := func(api string, fn func() string) {
							calls++
							defer func() {
								if r := recover(); r != nil {
									if e, ok := r.(runtime.Error); ok {
										if _, isFault := r.(interface{ Addr() uintptr }); isFault {
											fail(api, "touches only the haystack, never writes it", "memory fault: "+e.Error())
											return
										}
									}
									fail(api, "returns normally", fmt.Sprintf("panic: %v", r))
								}
							}()
							if msg := fn(); msg != "" {
								fail(api, "a well-formed result", msg)
							}
						}
						n := len(h)
						guard("Match", func() string { re.Match(h); re.MatchString(s); return "" })
						guard("FindIndex", func() string {
							m := re.FindIndex(h)
							if m != nil && (len(m) != 2 || !(0 <= m[0] && m[0] <= m[1] && m[1] <= n)) {
								return fmt.Sprintf("bad span %v (len %d)", m, n)
							}
							if ms := re.FindStringIndex(s); (ms == nil) != (m == nil) {
								return "FindStringIndex disagrees on existence"
							}
							return ""
						})
						guard("FindSubmatchIndex", func() string { return wfSlots(re.FindSubmatchIndex(h), n, nc) })
						guard("FindStringSubmatchIndex", func() string { return wfSlots(re.FindStringSubmatchIndex(s), n, nc) })
						guard("FindAllIndex", func() string { return wfAll(re.FindAllIndex(h, -1), n, nc, false) })
						guard("FindAllSubmatchIndex", func() string { return wfAll(re.FindAllSubmatchIndex(h, -1), n, nc, true) })
						guard("Find", func() string {
							m := re.Find(h)
							idx := re.FindIndex(h)
							if m != nil && !aliases(m, h) {
								return "returned slice does not alias the haystack"
							}
							if m != nil && idx != nil && len(m) > 0 && &m[0] != &h[idx[0]] {
								return "returned slice is not h[start:end]"
							}
							return ""
						})
						guard("FindAll", func() string {
							for i, m := range re.FindAll(h, -1) {
								if !aliases(m, h) {
									return fmt.Sprintf("element %d does not alias the haystack", i)
								}
							}
							return ""
						})
						guard("FindSubmatch", func() string {
							for i, m := range re.FindSubmatch(h) {
								if m != nil && !aliases(m, h) {
									return fmt.Sprintf("group %d does not alias the haystack", i)
								}
							}
							return ""
						})
						guard("Count", func() string {
							if c := re.Count(h, -1); c < 0 || c > n+1 {
								return fmt.Sprintf("Count = %d for len %d", c, n)
							}
							return ""
						})
						guard("AllIndex", func() string {
							prev := -1
							for m := range re.AllIndex(h) {
								if !(0 <= m[0] && m[0] <= m[1] && m[1] <= n) || m[0] < prev {
									return fmt.Sprintf("bad or unordered span %v", m)
								}
								prev = m[1]
							}
							return ""
						})
						guard("ReplaceAll", func() string {
							out := re.ReplaceAll(h, []byte("<$0>"))
							if len(out) > 0 && aliases(out, h) {
								return "result aliases the source"
							}
							re.ReplaceAllString(s, "$1")
							re.ReplaceAllLiteral(h, []byte("-"))
							re.ReplaceAllFunc(h, func(m []byte) []byte { return m })
							return ""
						})
						guard("Split", func() string {
							for _, p := range re.Split(s, -1) {
								if len(p) > n {
									return "piece longer than the input"
								}
							}
							return ""
						})
						guard("Reader", func() string {
							m := re.FindReaderIndex(bytes.NewReader(h))
							if m != nil && !(0 <= m[0] && m[0] <= m[1] && m[1] <= n) {
								return fmt.Sprintf("bad span %v", m)
							}
							return ""
						})
						if ro {
							syscall.Mprotect(ar.data, syscall.PROT_READ|syscall.PROT_WRITE)
						}
						if !bytes.Equal(h, src) {
							fail("any", "haystack unchanged", "haystack bytes differ after the calls")
						}
					}
				}
			}
			done <- [3]int{cases, calls, nontriv}
		}()
		select {
		case r := <-done:
			rep.Add(1, r[0], r[1], r[2], "")
		case <-time.After(120 * time.Second):
			rep.Fail(&core.Failure{Prop: "C07", API: "deadline", Mode: "first", Pattern: pat, Hay: "", Want: "every call on haystacks of <= 300 bytes returns",
				Got: "the record's calls did not finish within 120 s (non-termination or super-linear time)", Fam: rec.Fam})
			a, _ := newSArena()
			if a != nil {
				arenas <- a // the stuck worker keeps its arena
			}
		}
		if rec.I%83 == 1 && len(rec.Hs) > 0 {
			rep.Sample(map[string]any{"pattern": pat, "haystacks": len(rec.Hs), "placements": []string{"end", "start"}, "calls_per_case": 14})
		}
	})
	if err != nil {
		rep.Machinery(err.Error())
	}
	if err2 := rep.Close(*report); err2 != nil {
		fatal(err2)
	}
	if err != nil {
		fatal(err)
	}
}
