package main

// Deep histories of the bounded backtracker on ONE reused BacktrackerState (C13, C14, C20), recorded
// through hook H-bt for spec/Trace_Backtrack.tla, with the relational C13 check after every probe:
// the aged state must answer like a fresh one.
//
// History "wrap" concretises the counter-example TLC finds in spec/Backtrack.tla for WrapClears = "len"
// (search a long input; search shorter inputs until the generation counter overflows, which clears only
// the live prefix; keep searching until the counter returns to the stale stamp; search the long input
// again) at the real modulus 65536: the filler searches are chosen adaptively from the observed
// Generation so that the probe is executed at every generation value at which a stale stamp could sit.

import (
	"bufio"
	"encoding/json"
	"flag"
	"fmt"
	"os"
	"regexp/syntax"

	"github.com/coregx/coregex/nfa"
	"github.com/coregx/coregex/verifhook"

	"verif/harness/internal/core"
)

type btEv struct {
	Ev      string `json:"ev"`
	Need    int    `json:"need"`
	CapB    int    `json:"capb"`
	Realloc int    `json:"realloc"`
	Gen     int    `json:"gen"`
	Cleared int    `json:"cleared"`
	NS      int    `json:"ns"`
	HLen    int    `json:"hlen"`
	CapA    int    `json:"capa"`
	MaxV    int    `json:"maxv"`
	Rel     int    `json:"rel"`
}

func runBtTrace(args []string) {
	fs := flag.NewFlagSet("bttrace", flag.ExitOnError)
	out := fs.String("out", "bt.ndjson", "")
	report := fs.String("report", "report.json", "")
	fails := fs.String("fail", "fail.ndjson", "")
	wraps := fs.Int("wraps", 1, "generation overflows to drive")
	npat := fs.Int("npat", 3, "patterns (1..3)")
	corrupt := fs.Int("corrupt", 0, "testing the binding: corrupt the k-th bump event")
	fs.Parse(args)
	if !verifhook.On {
		fatal(fmt.Errorf("harness built without -tags verif"))
	}
	of, err := os.Create(*out)
	if err != nil {
		fatal(err)
	}
	defer of.Close()
	w := bufio.NewWriterSize(of, 1<<20)
	defer w.Flush()
	rep, err := core.NewReport(*fails)
	if err != nil {
		fatal(err)
	}
	events, bumps := 0, 0
	emit := func(e *btEv) {
		b, _ := json.Marshal(e)
		w.Write(b)
		w.WriteByte('\n')
		events++
	}
	sink := func(kind string, a []int) {
		switch kind {
		case "btreset":
			emit(&btEv{Ev: "reset", Need: a[0], CapB: a[1], Realloc: a[2], Gen: a[3], Cleared: a[4], NS: a[5], HLen: a[6], CapA: a[7], MaxV: a[8]})
		case "btattempt":
			emit(&btEv{Ev: "attempt", Rel: a[0], Gen: a[1]})
		case "btbump":
			bumps++
			e := &btEv{Ev: "bump", Gen: a[0], Cleared: a[1]}
			if *corrupt > 0 && bumps == *corrupt {
				e.Gen++
			}
			emit(e)
		}
	}
	verifhook.Install(sink)
	defer verifhook.Install(nil)
	hooksOff := func(fn func()) { // control searches on fresh states are not part of the trace
		verifhook.Install(nil)
		fn()
		verifhook.Install(sink)
	}

	calls, probes := 0, 0
	type pat struct{ p, long, short string }
	// (pattern, probe haystack with the match at the far end, shorter fillers)
	for pi, pp := range []pat{{"ab", "xxxxxxxxab", "x"}, {"a[bc]+d", "zzzzzzzzzzzzabcbd", "zz"}, {"(a|b)*c", "ddddddddddababc", ""}}[:*npat] {
		re, _ := syntax.Parse(pp.p, syntax.Perl)
		n, cerr := nfa.NewDefaultCompiler().CompileRegexp(re)
		if cerr != nil {
			fatal(cerr)
		}
		bt := nfa.NewBoundedBacktracker(n)
		st := nfa.NewBacktrackerState()
		emit(&btEv{Ev: "new"})
		probeNow := func(why string) {
			s, e, ok := bt.SearchAtWithState([]byte(pp.long), 0, st)
			calls++
			probes++
			// reference: a fresh state (hooks off)
			var fs2, fe2 int
			var fok2 bool
			hooksOff(func() { fs2, fe2, fok2 = bt.SearchAtWithState([]byte(pp.long), 0, nfa.NewBacktrackerState()) })
			if s != fs2 || e != fe2 || ok != fok2 {
				rep.Fail(&core.Failure{Prop: "C13", API: "Backtracker.SearchAtWithState", Mode: "first", Pattern: pp.p, Hay: core.Hex([]byte(pp.long)),
					Args: why, Want: fmt.Sprintf("fresh state: [%d %d %v]", fs2, fe2, fok2),
					Got: fmt.Sprintf("aged state: [%d %d %v] at generation %d", s, e, ok, st.Generation), Scope: "Backtracker"})
			}
		}
		// a few ordinary searches first, so that the history does not start at generation 0
		for k := 0; k < 5; k++ {
			bt.SearchAtWithState([]byte("yy"), 0, st)
		}
		// grow the table to its final capacity first (a reallocation restarts the counter)
		bt.SearchAtWithState(append([]byte(pp.long), "yyy"...), 0, st)
		for wdone := 0; wdone < *wraps; wdone++ {
			gin := st.Generation // the probe's matching attempt stamps its cells with gin+1+<match start>
			probeNow(fmt.Sprintf("use %d", wdone))
			// Short searches only (they never touch the cells the probe stamped, and when the counter
			// overflows during one of them only their short live prefix is cleared), until the counter
			// has gone all the way round and is back at the value the probe was entered with.
			for {
				d := int(uint16(gin - st.Generation))
				if d == 0 {
					break
				}
				// The counter is advanced at two sites, each with its own overflow handling: reset() at the start of a
				// search and the per-start-position bump inside the search loop.  Steer the overflow to the bump site
				// (counter = 65534 when a search of "y" starts: reset -> 65535, first bump -> overflow) or to the reset
				// site (counter = 65535 when a search starts), alternating over patterns and overflows.
				target := 65534 // bump site
				if (pi+wdone)%2 == 1 {
					target = 65535 // reset site
				}
				toT := target - int(st.Generation)
				switch {
				case toT == 0:
					bt.SearchAtWithState([]byte("y"), 0, st)
				case toT > 0 && toT <= 6:
					if toT == 2 || toT == 4 || toT == 5 {
						bt.SearchAtWithState([]byte(""), 0, st) // advances the counter by 2
					} else {
						bt.SearchAtWithState([]byte("y"), 0, st) // advances it by 3
					}
				case d == 2 || d == 4:
					bt.SearchAtWithState([]byte(""), 0, st)
				default:
					bt.SearchAtWithState([]byte("y"), 0, st)
				}
				calls++
			}
			probeNow(fmt.Sprintf("same generation again after overflow %d", wdone+1))
		}
	}
	// History "limit" (C20): the small backtracker (128 K entries) on a fresh state, inputs growing up to the longest it accepts:
	// every (re)allocation is logged with the capacity it produced, which Trace_Backtrack bounds by the cap.
	for _, p := range []string{"ab", "a[bc]+d"} {
		re, _ := syntax.Parse(p, syntax.Perl)
		n, cerr := nfa.NewDefaultCompiler().CompileRegexp(re)
		if cerr != nil {
			continue
		}
		bt := nfa.NewBoundedBacktrackerSmall(n)
		st := nfa.NewBacktrackerState()
		emit(&btEv{Ev: "new"})
		maxLen := bt.MaxVisitedSize()/n.States() - 2
		for _, frac := range []int{30, 55, 70, 85, 100} {
			l := maxLen * frac / 100
			for !bt.CanHandle(l) && l > 0 {
				l--
			}
			hay := make([]byte, l)
			for i := range hay {
				hay[i] = 'z'
			}
			bt.SearchAtWithState(hay, 0, st)
			calls++
		}
	}
	w.Flush()
	rep.Add(*npat, probes, calls, probes, "")
	rep.Extra["events"] = events
	rep.Extra["bumps"] = bumps
	rep.Sample(map[string]any{"history": "search long input; fillers until the uint16 generation overflows; probe at every generation of the stale window", "events": events})
	if err := rep.Close(*report); err != nil {
		fatal(err)
	}
}
