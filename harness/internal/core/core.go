// Package core holds what every replay driver shares: the record format printed by
// the TLA+ generators, the pattern printer (abstract syntax -> Go regexp text), the
// failure/report types and a parallel record pump.
package core

import (
	"bufio"
	"encoding/hex"
	"encoding/json"
	"fmt"
	"io"
	"os"
	"sort"
	"strconv"
	"strings"
	"sync"
)

// Symbol is one entry of spec/Symbols.tla as printed in the header record.
type Symbol struct {
	N  string `json:"n"`
	B  []int  `json:"b"`
	R  int    `json:"r"`
	W  bool   `json:"w"`
	F  int    `json:"f"`
	OK bool   `json:"ok"`
}

// AST mirrors the records of spec/RegexRef.tla.
type AST struct {
	Op   string `json:"op"`
	C    int    `json:"c,omitempty"`
	S    []int  `json:"s,omitempty"`
	Neg  bool   `json:"neg,omitempty"`
	Fold bool   `json:"fold,omitempty"`
	NL   bool   `json:"nl,omitempty"`
	K    string `json:"k,omitempty"`
	A    *AST   `json:"a,omitempty"`
	B    *AST   `json:"b,omitempty"`
	G    bool   `json:"g,omitempty"`
	Min  int    `json:"min,omitempty"`
	Max  int    `json:"max,omitempty"`
	I    int    `json:"i,omitempty"`
	Name []int  `json:"name,omitempty"`
}

// Hay is the reference's verdict on one haystack.
type Hay struct {
	H    []int   `json:"h"`
	AF   [][]int `json:"af"`  // FindAllSubmatchIndex(h,-1), leftmost-first
	AL   [][]int `json:"al"`  // ... leftmost-longest
	AtF  [][]int `json:"atf"` // Find from every symbol position, leftmost-first
	AtL  [][]int `json:"atl"`
	Anc  [][]int `json:"anc"`  // leftmost-first match starting exactly at each symbol position
	Ends [][]int `json:"ends"` // all match ends per start position
	OPS  []int   `json:"ops"`  // MC_OnePass: result of the model's one-pass search (empty = none)
	// MC_ReverseSuffix: the model driver's answers (byte offsets; empty = none)
	RFA  [][]int `json:"rfa"`  // FindAt from every symbol position
	RF   []int   `json:"rf"`   // Find
	RIM  *bool   `json:"rim"`  // IsMatch
	RBad bool    `json:"rbad"` // the model driver differs from the reference on this haystack
	// replace / split records
	Rep   []RepOut  `json:"rep,omitempty"`
	Split []SplitIO `json:"split,omitempty"`
}

// RepOut is the expected output of one replace call.
type RepOut struct {
	Kind string `json:"kind"` // tmpl | lit | fn
	T    []int  `json:"t"`
	Mode bool   `json:"longest"`
	Out  []int  `json:"out"`
}

// SplitIO is the expected result of Split(h, n): "nil" or pieces as byte-offset pairs.
type SplitIO struct {
	N   int             `json:"n"`
	Out json.RawMessage `json:"out"`
}

// Record is one line printed by a generator.
type Record struct {
	Sym   []Symbol `json:"sym,omitempty"`
	Fam   string   `json:"fam"`
	I     int      `json:"i"`
	Re    *AST     `json:"re,omitempty"`
	NC    int      `json:"nc"`
	Names [][]int  `json:"names"`
	Hs    []Hay    `json:"hs"`
	OP    *bool    `json:"op,omitempty"` // MC_OnePass: the model's verdict "one-pass"
	RSS   []int    `json:"rsS,omitempty"` // MC_ReverseSuffix: bytes of the suffix literal
	MSZ   *bool    `json:"msz,omitempty"` // MC_ReverseSuffix: the pattern is exactly `.*L`
	SSL   [][]int  `json:"ssL,omitempty"` // MC_ReverseSuffixSet: bytes of the suffix literals, in order
	MLP   []int    `json:"mlP"`           // MC_ReverseSuffixML: bytes of the prefix literal (may be empty)
	MLS   []int    `json:"mlS,omitempty"` // MC_ReverseSuffixML: bytes of the suffix literal
	RIP   *AST     `json:"riP,omitempty"` // MC_ReverseInner: the part before the inner literal
	RIQ   *AST     `json:"riQ,omitempty"` // MC_ReverseInner: the inner literal and what follows it
	RII   []int    `json:"riI,omitempty"` // MC_ReverseInner: bytes of the inner literal
	Raw   json.RawMessage
	ReRaw json.RawMessage `json:"-"`
}

var Syms []Symbol // 1-based ids: Syms[id-1]

// KeepRaw makes ReadRecords retain the JSON text of the syntax tree in Record.ReRaw (for drivers that hand the
// pattern back to TLC).
var KeepRaw bool

// HayBytes concatenates the bytes of a symbol sequence.
func HayBytes(h []int) []byte {
	b := []byte{}
	for _, s := range h {
		for _, x := range Syms[s-1].B {
			b = append(b, byte(x))
		}
	}
	return b
}

// Offsets returns the byte offset of every symbol position 0..len(h).
func Offsets(h []int) []int {
	o := make([]int, len(h)+1)
	for i, s := range h {
		o[i+1] = o[i] + len(Syms[s-1].B)
	}
	return o
}

func symRune(id int) rune { return rune(Syms[id-1].R) }

func escRune(r rune) string {
	if (r >= 'a' && r <= 'z') || (r >= 'A' && r <= 'Z') || (r >= '0' && r <= '9') || r == '_' {
		return string(r)
	}
	if r == ' ' || r == '@' || r == '-' {
		if r == '-' {
			return `\-`
		}
		return string(r)
	}
	if r < 0x80 {
		return fmt.Sprintf(`\x%02x`, r)
	}
	return string(r)
}

func escClassRune(r rune) string {
	if (r >= 'a' && r <= 'z') || (r >= 'A' && r <= 'Z') || (r >= '0' && r <= '9') || r == '_' {
		return string(r)
	}
	if r < 0x80 {
		return fmt.Sprintf(`\x%02x`, r)
	}
	return string(r)
}

func (a *AST) atomic() bool {
	switch a.Op {
	case "lit", "cls", "any", "cap", "emp", "look":
		return true
	}
	return false
}

// Pattern prints the Perl-syntax text of an AST.
func (a *AST) Pattern() string {
	var sb strings.Builder
	a.print(&sb, 0)
	return sb.String()
}

// prec: 0 = top/alt context, 1 = cat context, 2 = quantifier operand
func (a *AST) print(sb *strings.Builder, prec int) {
	switch a.Op {
	case "lit":
		if a.Fold {
			sb.WriteString("(?i:" + escRune(symRune(a.C)) + ")")
		} else {
			sb.WriteString(escRune(symRune(a.C)))
		}
	case "cls":
		var s strings.Builder
		s.WriteString("[")
		if a.Neg {
			s.WriteString("^")
		}
		ids := append([]int(nil), a.S...)
		sort.Ints(ids)
		for _, id := range ids {
			s.WriteString(escClassRune(symRune(id)))
		}
		s.WriteString("]")
		if a.Fold {
			sb.WriteString("(?i:" + s.String() + ")")
		} else {
			sb.WriteString(s.String())
		}
	case "any":
		if a.NL {
			sb.WriteString("(?s:.)")
		} else {
			sb.WriteString(".")
		}
	case "emp":
		sb.WriteString("(?:)")
	case "look":
		switch a.K {
		case "bot":
			sb.WriteString("^")
		case "eot":
			sb.WriteString("$")
		case "bol":
			sb.WriteString("(?m:^)")
		case "eol":
			sb.WriteString("(?m:$)")
		case "wb":
			sb.WriteString(`\b`)
		case "nwb":
			sb.WriteString(`\B`)
		}
	case "cat":
		if prec >= 2 {
			sb.WriteString("(?:")
		}
		a.A.print(sb, 1)
		a.B.print(sb, 1)
		if prec >= 2 {
			sb.WriteString(")")
		}
	case "alt":
		if prec >= 1 {
			sb.WriteString("(?:")
		}
		a.A.print(sb, 0)
		sb.WriteString("|")
		a.B.print(sb, 0)
		if prec >= 1 {
			sb.WriteString(")")
		}
	case "star", "plus", "quest", "rep":
		if a.A.atomic() && a.A.Op != "look" && a.A.Op != "emp" {
			a.A.print(sb, 2)
		} else {
			sb.WriteString("(?:")
			a.A.print(sb, 0)
			sb.WriteString(")")
		}
		switch a.Op {
		case "star":
			sb.WriteString("*")
		case "plus":
			sb.WriteString("+")
		case "quest":
			sb.WriteString("?")
		case "rep":
			if a.Max == -1 {
				fmt.Fprintf(sb, "{%d,}", a.Min)
			} else if a.Max == a.Min {
				fmt.Fprintf(sb, "{%d}", a.Min)
			} else {
				fmt.Fprintf(sb, "{%d,%d}", a.Min, a.Max)
			}
		}
		if !a.G {
			sb.WriteString("?")
		}
	case "cap":
		if len(a.Name) > 0 {
			nm := make([]byte, len(a.Name))
			for i, x := range a.Name {
				nm[i] = byte(x)
			}
			sb.WriteString("(?P<" + string(nm) + ">")
		} else {
			sb.WriteString("(")
		}
		a.A.print(sb, 0)
		sb.WriteString(")")
	default:
		panic("unknown op " + a.Op)
	}
}

// PatternPOSIX prints the AST in POSIX ERE syntax when that is possible without
// changing its meaning under syntax.POSIX flags (no non-capturing groups, no lazy
// operators, no Perl escapes; ^ and $ are line anchors there, [^x] excludes newline).
func (a *AST) PatternPOSIX() (string, bool) {
	var sb strings.Builder
	if !a.printPOSIX(&sb, 0) {
		return "", false
	}
	return sb.String(), true
}

func (a *AST) printPOSIX(sb *strings.Builder, prec int) bool {
	switch a.Op {
	case "lit":
		if a.Fold {
			return false
		}
		r := symRune(a.C)
		if r >= 0x80 || (r >= 'a' && r <= 'z') || (r >= 'A' && r <= 'Z') || (r >= '0' && r <= '9') || r == ' ' || r == '@' || r == '_' {
			sb.WriteString(string(r))
		} else if r == '.' || r == '-' {
			sb.WriteString(`\` + string(r))
		} else {
			return false
		}
	case "cls":
		if a.Fold || a.Neg {
			return false
		}
		sb.WriteString("[")
		ids := append([]int(nil), a.S...)
		sort.Ints(ids)
		for _, id := range ids {
			r := symRune(id)
			if r == '\n' || r == ']' || r == '\\' || r == '^' || r == '-' {
				return false
			}
			sb.WriteString(string(r))
		}
		sb.WriteString("]")
	case "any":
		if a.NL {
			return false
		}
		sb.WriteString(".")
	case "emp":
		return false
	case "look":
		switch a.K {
		case "bol":
			sb.WriteString("^")
		case "eol":
			sb.WriteString("$")
		default:
			return false
		}
	case "cat":
		if prec >= 2 {
			return false
		}
		return a.A.printPOSIX(sb, 1) && a.B.printPOSIX(sb, 1)
	case "alt":
		if prec >= 1 {
			return false
		}
		if !a.A.printPOSIX(sb, 0) {
			return false
		}
		sb.WriteString("|")
		return a.B.printPOSIX(sb, 0)
	case "star", "plus", "quest", "rep":
		if !a.G || !a.A.atomic() || a.A.Op == "look" {
			return false
		}
		if !a.A.printPOSIX(sb, 2) {
			return false
		}
		switch a.Op {
		case "star":
			sb.WriteString("*")
		case "plus":
			sb.WriteString("+")
		case "quest":
			sb.WriteString("?")
		case "rep":
			if a.Max == -1 {
				fmt.Fprintf(sb, "{%d,}", a.Min)
			} else if a.Max == a.Min {
				fmt.Fprintf(sb, "{%d}", a.Min)
			} else {
				fmt.Fprintf(sb, "{%d,%d}", a.Min, a.Max)
			}
		}
	case "cap":
		if len(a.Name) > 0 {
			return false
		}
		sb.WriteString("(")
		if !a.A.printPOSIX(sb, 0) {
			return false
		}
		sb.WriteString(")")
	default:
		return false
	}
	return true
}

// ReadRecords parses TLC's standard output: every line that starts with a double quote
// is a PrintT'ed TLA+ string holding one JSON record. fn is called from `workers`
// goroutines. The header record (symbol table) is consumed here.
func ReadRecords(r io.Reader, workers int, fn func(*Record)) (int, error) {
	br := bufio.NewReaderSize(r, 1<<20)
	ch := make(chan *Record, 64)
	var wg sync.WaitGroup
	n := 0
	var pending []*Record
	started := false
	start := func() {
		started = true
		for i := 0; i < workers; i++ {
			wg.Add(1)
			go func() {
				defer wg.Done()
				for rec := range ch {
					fn(rec)
				}
			}()
		}
	}
	for {
		line, err := br.ReadString('\n')
		if len(line) > 0 && line[0] == '"' {
			line = strings.TrimRight(line, "\r\n")
			s, uerr := strconv.Unquote(line)
			if uerr != nil {
				return n, fmt.Errorf("unquote: %v: %.80s", uerr, line)
			}
			rec := new(Record)
			if jerr := json.Unmarshal([]byte(s), rec); jerr != nil {
				return n, fmt.Errorf("json: %v: %.120s", jerr, s)
			}
			if KeepRaw && rec.Re != nil {
				var raw struct {
					Re json.RawMessage `json:"re"`
				}
				if json.Unmarshal([]byte(s), &raw) == nil {
					rec.ReRaw = raw.Re
				}
			}
			if rec.Sym != nil {
				Syms = rec.Sym
				start()
				for _, p := range pending {
					ch <- p
				}
				pending = nil
			} else {
				n++
				if started {
					ch <- rec
				} else {
					pending = append(pending, rec)
				}
			}
		}
		if err != nil {
			break
		}
	}
	if !started {
		if len(pending) > 0 {
			return n, fmt.Errorf("no symbol-table header record in generator output")
		}
		return 0, nil
	}
	close(ch)
	wg.Wait()
	return n, nil
}

// Failure is one observed disagreement between the implementation and the reference.
type Failure struct {
	Prop    string `json:"prop"`
	API     string `json:"api"`
	Mode    string `json:"mode"` // first | longest | posix
	Pattern string `json:"pattern"`
	Hay     string `json:"hay"` // hex
	Args    string `json:"args,omitempty"`
	Want    string `json:"want"`
	Got     string `json:"got"`
	Strat   string `json:"strategy,omitempty"`
	Fam     string `json:"fam,omitempty"`
	Cfg     string `json:"cfg,omitempty"`
	Scope   string `json:"scope,omitempty"`
}

// Key is the identity of a failing case for the known-findings file.
func (f *Failure) Key() string {
	k := f.Prop + "|" + f.API + "|" + f.Mode + "|" + f.Pattern + "|" + f.Hay
	if f.Args != "" {
		k += "|" + f.Args
	}
	if f.Cfg != "" {
		k += "|" + f.Cfg
	}
	return k
}

// Report accumulates what a replay run did.
type Report struct {
	mu            sync.Mutex
	Patterns      int            `json:"patterns"`
	Cases         int            `json:"cases"`       // (pattern, haystack) pairs replayed
	Calls         int            `json:"calls"`       // API calls compared
	NonTrivial    int            `json:"nontrivial"`  // distinct (pattern,haystack) pairs with a non-empty reference match
	SpecGaps      int            `json:"spec_gaps"`   // reference != regexp: skipped, never a violation
	GapSamples    []string       `json:"gap_samples"` //
	Failures      int            `json:"failures"`    //
	ByStrategy    map[string]int `json:"by_strategy"` // patterns per strategy
	FailByStrat   map[string]int `json:"fail_by_strategy"`
	ByAPI         map[string]int `json:"by_api"`
	Samples       []any          `json:"samples"`
	Extra         map[string]any `json:"extra,omitempty"`
	failW         *bufio.Writer
	failF         *os.File
	MachineryErrs []string `json:"machinery_errors,omitempty"`
}

func NewReport(failPath string) (*Report, error) {
	f, err := os.Create(failPath)
	if err != nil {
		return nil, err
	}
	return &Report{ByStrategy: map[string]int{}, FailByStrat: map[string]int{}, ByAPI: map[string]int{},
		Extra: map[string]any{}, failF: f, failW: bufio.NewWriterSize(f, 1<<20)}, nil
}

func (r *Report) Fail(f *Failure) {
	b, _ := json.Marshal(f)
	r.mu.Lock()
	r.Failures++
	r.FailByStrat[f.Strat]++
	r.failW.Write(b)
	r.failW.WriteByte('\n')
	r.mu.Unlock()
}

func (r *Report) Gap(desc string) {
	r.mu.Lock()
	r.SpecGaps++
	if len(r.GapSamples) < 20 {
		r.GapSamples = append(r.GapSamples, desc)
	}
	r.mu.Unlock()
}

func (r *Report) Machinery(desc string) {
	r.mu.Lock()
	if len(r.MachineryErrs) < 50 {
		r.MachineryErrs = append(r.MachineryErrs, desc)
	}
	r.mu.Unlock()
}

func (r *Report) Add(patterns, cases, calls, nontrivial int, strat string) {
	r.mu.Lock()
	r.Patterns += patterns
	r.Cases += cases
	r.Calls += calls
	r.NonTrivial += nontrivial
	if strat != "" && patterns > 0 {
		r.ByStrategy[strat] += patterns
	}
	r.mu.Unlock()
}

func (r *Report) API(name string, n int) {
	r.mu.Lock()
	r.ByAPI[name] += n
	r.mu.Unlock()
}

func (r *Report) Sample(s any) {
	r.mu.Lock()
	if len(r.Samples) < 8 {
		r.Samples = append(r.Samples, s)
	}
	r.mu.Unlock()
}

func (r *Report) Close(path string) error {
	r.failW.Flush()
	r.failF.Close()
	b, err := json.MarshalIndent(r, "", " ")
	if err != nil {
		return err
	}
	return os.WriteFile(path, b, 0o644)
}

func Hex(b []byte) string { return hex.EncodeToString(b) }

func IntsStr(v []int) string {
	if v == nil {
		return "nil"
	}
	return fmt.Sprint(v)
}
