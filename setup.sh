#!/bin/sh
# Run once after a fresh restore, offline: check the tools and warm the Go build cache.
set -e
cd "$(dirname "$0")"
command -v java >/dev/null || { echo "java missing" >&2; exit 1; }
test -f /opt/veriftools/tla/tla2tools.jar || { echo "tla2tools.jar missing" >&2; exit 1; }
command -v go >/dev/null || { echo "go missing" >&2; exit 1; }
python3 - <<'PY'
import sys, os
sys.path.insert(0, os.path.join(os.getcwd(), "lib"))
import vlib
vlib.build_harness()
print("setup ok")
PY
