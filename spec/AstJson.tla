------------------------------ MODULE AstJson ------------------------------
(* Rebuilds a RegexRef syntax tree from its JSON form (as printed by ToJson and re-read by ndJsonDeserialize:
   sets arrive as sequences). *)
EXTENDS RegexRef
ArrToSet(q) == {q[j] : j \in DOMAIN q}
RECURSIVE AstFromJson(_)
AstFromJson(j) ==
  CASE j.op = "lit"   -> [op |-> "lit", c |-> j.c, fold |-> j.fold]
    [] j.op = "cls"   -> [op |-> "cls", s |-> ArrToSet(j.s), neg |-> j.neg, fold |-> j.fold]
    [] j.op = "any"   -> [op |-> "any", nl |-> j.nl]
    [] j.op = "emp"   -> [op |-> "emp"]
    [] j.op = "look"  -> [op |-> "look", k |-> j.k]
    [] j.op \in Bin   -> [op |-> j.op, a |-> AstFromJson(j.a), b |-> AstFromJson(j.b)]
    [] j.op \in {"star","plus","quest"} -> [op |-> j.op, a |-> AstFromJson(j.a), g |-> j.g]
    [] j.op = "rep"   -> [op |-> "rep", a |-> AstFromJson(j.a), min |-> j.min, max |-> j.max, g |-> j.g]
    [] j.op = "cap"   -> [op |-> "cap", a |-> AstFromJson(j.a), i |-> j.i, name |-> j.name]
=============================================================================
