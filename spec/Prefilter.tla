------------------------------ MODULE Prefilter ------------------------------
(***************************************************************************)
(* C16: what a prefilter is.                                               *)
(*                                                                         *)
(* A prefilter is built from a SEQUENCE L of non-empty literals (byte      *)
(* strings; the order is the order of the branches of the originating      *)
(* alternation).  Haystacks and literals are sequences of byte values;     *)
(* positions are 0-based byte offsets as in Go, so the byte at offset i is *)
(* h[i+1].                                                                 *)
(*                                                                         *)
(*   PFind(L,h,s)   the smallest offset >= s at which some literal occurs, *)
(*                  or -1: the ONLY value Find may return ("never skip":   *)
(*                  nothing smaller is reported, nothing is stepped over). *)
(*   PMatch(L,h,s)  for a complete prefilter: the span of the first        *)
(*                  literal IN PATTERN ORDER occurring at PFind(L,h,s) =   *)
(*                  leftmost-first match of l1|l2|...|ln from s.           *)
(*   PFindLine      the line-anchor wrapper: occurrences at offset 0 or    *)
(*                  just after a newline only.                             *)
(*   DigitFind      the digit scanner.                                     *)
(*                                                                         *)
(* Then three design-level models of how the library computes these:       *)
(*   Teddy    buckets = literal index mod 8 (16 for the fat variant),      *)
(*            nibble masks per fingerprint position, candidate = AND of    *)
(*            the masks, block scan of width B with a scalar tail (the     *)
(*            "overlap" load scheme of the SSSE3 kernel and the "carry"    *)
(*            scheme of the AVX2 fat kernel), verification of a candidate  *)
(*            in bucket order and pattern order inside a bucket.           *)
(*   Tracker  the effectiveness tracker as a machine over                  *)
(*            (candidates, confirms, lastCheckpoint, active).              *)
(*   candidate loops are in MC_Prefilter (they need variables).            *)
(***************************************************************************)
EXTENDS Integers, Sequences, FiniteSets, TLC

MinOf(S) == CHOOSE x \in S : \A y \in S : x <= y

(* ------------------------------------------------------------------ *)
(* Reference                                                          *)
(* ------------------------------------------------------------------ *)
HasPrefixAt(h, i, l) == i + Len(l) <= Len(h) /\ \A k \in 1..Len(l) : h[i+k] = l[k]

\* index (pattern order) of the first literal occurring at offset i, 0 if none
FirstLitAt(L, h, i) ==
  LET S == {k \in 1..Len(L) : HasPrefixAt(h, i, L[k])} IN IF S = {} THEN 0 ELSE MinOf(S)

Occurs(L, h, i) == \E k \in 1..Len(L) : HasPrefixAt(h, i, L[k])

PFind(L, h, s) ==
  LET S == {i \in s..Len(h) : Occurs(L, h, i)} IN IF S = {} THEN -1 ELSE MinOf(S)

PMatch(L, h, s) ==
  LET p == PFind(L, h, s) IN
  IF p = -1 THEN <<-1, -1>> ELSE <<p, p + Len(L[FirstLitAt(L, h, p)])>>

AtLineStart(h, i) == i = 0 \/ h[i] = 10          \* h[i] is the byte at offset i-1
PFindLine(L, h, s) ==
  LET S == {i \in s..Len(h) : Occurs(L, h, i) /\ AtLineStart(h, i)} IN IF S = {} THEN -1 ELSE MinOf(S)
PMatchLine(L, h, s) ==
  LET p == PFindLine(L, h, s) IN
  IF p = -1 THEN <<-1, -1>> ELSE <<p, p + Len(L[FirstLitAt(L, h, p)])>>

\* The same two functions computed from one pass over the haystack, m[i+1] = FirstLitAt(L, h, i) (the generator uses
\* these for speed and has TLC check on a sample of every literal set that they equal PMatch / PMatchLine)
LitVec(L, h) == [i \in 1..Len(h) |-> FirstLitAt(L, h, i-1)]
PMatchV(L, h, m, s) ==
  LET S == {i \in s..Len(h)-1 : m[i+1] # 0} IN
  IF S = {} THEN <<-1, -1>> ELSE LET p == MinOf(S) IN <<p, p + Len(L[m[p+1]])>>
PMatchLineV(L, h, m, s) ==
  LET S == {i \in s..Len(h)-1 : m[i+1] # 0 /\ AtLineStart(h, i)} IN
  IF S = {} THEN <<-1, -1>> ELSE LET p == MinOf(S) IN <<p, p + Len(L[m[p+1]])>>

IsDigit(b) == b >= 48 /\ b <= 57
DigitFind(h, s) ==
  LET S == {i \in s..Len(h)-1 : IsDigit(h[i+1])} IN IF S = {} THEN -1 ELSE MinOf(S)

MinLen(L) == MinOf({Len(L[k]) : k \in 1..Len(L)})

(* ------------------------------------------------------------------ *)
(* Teddy                                                              *)
(* ------------------------------------------------------------------ *)
TBuckets(kind, n) == IF kind = "fat" THEN 16 ELSE IF n < 8 THEN n ELSE 8

\* kind: "slim" | "fat";  style: "overlap" | "carry" | "scalar";  B: block width (16 in the library, 2 and 4 here);
\* cfgfp: configured fingerprint length (the library caps it by the shortest literal and by 4)
MkTeddy(L, kind, cfgfp, B, style) ==
  LET nb == TBuckets(kind, Len(L))
      fp == MinOf({cfgfp, MinLen(L), 4})
  IN [L |-> L, nb |-> nb, fp |-> fp, B |-> B, style |-> style, minlen |-> MinLen(L),
      lo |-> TLCEval([p \in 1..fp |-> TLCEval([nib \in 0..15 |-> {(k-1) % nb : k \in {j \in 1..Len(L) : L[j][p] % 16 = nib}}])]),
      hi |-> TLCEval([p \in 1..fp |-> TLCEval([nib \in 0..15 |-> {(k-1) % nb : k \in {j \in 1..Len(L) : L[j][p] \div 16 = nib}}])]),
      pats |-> TLCEval([b \in 0..nb-1 |-> {k \in 1..Len(L) : (k-1) % nb = b}])]

\* buckets that survive the two nibble look-ups of fingerprint position p for byte x
ByteMask(c, p, x) == c.lo[p][x % 16] \cap c.hi[p][x \div 16]
\* candidate mask at offset i (requires i + fp <= Len(h)): AND over the fingerprint positions
CandMask(c, h, i) == {b \in 0..c.nb-1 : \A p \in 1..c.fp : b \in ByteMask(c, p, h[i+p])}

\* byte-at-a-time candidate search from offset i: the kernels' tail loop and the pure-Go fallback
RECURSIVE ScalarCand(_, _, _)
ScalarCand(c, h, i) ==
  IF i + c.fp > Len(h) THEN <<-1, {}>>
  ELSE LET m == CandMask(c, h, i) IN IF m # {} THEN <<i, m>> ELSE ScalarCand(c, h, i+1)

\* SSSE3 slim kernel: per block, load h[i..i+B) and (for the 2nd fingerprint byte) h[i+1..i+B+1); a block is
\* processed only while all its loads are inside the haystack; the rest is the tail loop
RECURSIVE OverlapCand(_, _, _)
OverlapCand(c, h, i) ==
  IF i + c.B + c.fp - 1 > Len(h) THEN ScalarCand(c, h, i)
  ELSE LET hits == {j \in 0..c.B-1 : CandMask(c, h, i+j) # {}} IN
       IF hits # {} THEN LET j == MinOf(hits) IN <<i+j, CandMask(c, h, i+j)>>
       ELSE OverlapCand(c, h, i + c.B)

\* AVX2 fat kernel (2-byte fingerprint): the block starts one byte late, the result of fingerprint position 1 is
\* shifted by one lane and the last lane of the previous block is carried in (initially all ones); the tail loop
\* restarts one byte early to cover the carried lane
RECURSIVE CarryCand(_, _, _, _)
CarryCand(c, h, cur, prev) ==
  IF cur + c.B > Len(h) THEN ScalarCand(c, h, cur-1)
  ELSE LET res0(j) == ByteMask(c, 1, h[cur+j+1])
           res1(j) == ByteMask(c, 2, h[cur+j+1])
           lane(j) == (IF j = 0 THEN prev ELSE res0(j-1)) \cap res1(j)
           hits == {j \in 0..c.B-1 : lane(j) # {}}
       IN IF hits # {} THEN LET j == MinOf(hits) IN <<cur-1+j, lane(j)>>
          ELSE CarryCand(c, h, cur + c.B, res0(c.B-1))

Cand(c, h, from) ==
  CASE c.style = "overlap" -> OverlapCand(c, h, from)
    [] c.style = "carry"   -> CarryCand(c, h, from+1, 0..c.nb-1)
    [] OTHER               -> ScalarCand(c, h, from)

\* verification of candidate (pos, mask): buckets in increasing order, literals of a bucket in pattern order
VerifyLit(c, h, pos, mask) ==
  LET ok(b) == {k \in c.pats[b] : HasPrefixAt(h, pos, c.L[k])}
      bs == {b \in mask : b < c.nb /\ ok(b) # {}}
  IN IF bs = {} THEN 0 ELSE MinOf(ok(MinOf(bs)))

RECURSIVE TLoop(_, _, _)
TLoop(c, h, from) ==
  LET cm == Cand(c, h, from) IN
  IF cm[1] = -1 THEN <<-1, 0>>
  ELSE LET k == VerifyLit(c, h, cm[1], cm[2]) IN
       IF k # 0 THEN <<cm[1], k>>
       ELSE IF cm[1] + 1 >= Len(h) THEN <<-1, 0>> ELSE TLoop(c, h, cm[1] + 1)

\* fewer than one block left: every literal at every offset, in pattern order
TScalar(c, h, s) ==
  LET S == {i \in s..Len(h)-c.minlen : FirstLitAt(c.L, h, i) # 0} IN
  IF S = {} THEN <<-1, 0>> ELSE <<MinOf(S), FirstLitAt(c.L, h, MinOf(S))>>

TeddyRun(c, h, s) ==
  IF s >= Len(h) THEN <<-1, 0>>
  ELSE IF Len(h) - s < c.B THEN TScalar(c, h, s)
  ELSE TLoop(c, h, s)

TeddyFind(c, h, s) == TeddyRun(c, h, s)[1]
TeddyMatch(c, h, s) == LET r == TeddyRun(c, h, s) IN IF r[1] = -1 THEN <<-1, -1>> ELSE <<r[1], r[1] + Len(c.L[r[2]])>>

(* ------------------------------------------------------------------ *)
(* Tracker                                                            *)
(* ------------------------------------------------------------------ *)
\* cfg = [warm, interval, num, den]: minimum efficiency num/den
TrInit == [cand |-> 0, conf |-> 0, last |-> 0, active |-> TRUE]
TrCheck(cfg, t) ==
  IF t.cand < cfg.warm THEN t
  ELSE IF t.cand - t.last < cfg.interval THEN t
  ELSE [t EXCEPT !.last = t.cand, !.active = IF t.conf * cfg.den < t.cand * cfg.num THEN FALSE ELSE t.active]
\* found: does the inner prefilter have a candidate at or after the offset asked for?  Result: <<state', answer>>,
\* answer "pos" (the inner prefilter's answer is passed on) or "none" (-1)
TrFind(cfg, t, found) ==
  IF ~t.active THEN <<t, "none">>
  ELSE IF found THEN <<TrCheck(cfg, [t EXCEPT !.cand = @ + 1]), "pos">>
  ELSE <<t, "none">>
TrConfirm(t) == [t EXCEPT !.conf = @ + 1]
\* what C16 demands of every prefilter, the tracker included
TrWant(found) == IF found THEN "pos" ELSE "none"
=============================================================================
