------------------------------ MODULE IterRules ------------------------------
(***************************************************************************)
(* The per-iteration decision rules of the match-iteration loops, as pure  *)
(* operators of the rune-width vector Wv and the haystack length n, so     *)
(* that the design model (MatchIter) and the trace specification           *)
(* (Trace_MatchIter) use the very same definitions.                        *)
(***************************************************************************)
EXTENDS Integers, Sequences

WidthAtR(Wv, n, p) == IF p < n THEN Wv[p+1] ELSE 0

\* where iteration resumes after an empty match at p
NextPosR(adv, Wv, n, p) == IF adv = "byte" THEN p + 1
                           ELSE IF p < n /\ Wv[p+1] > 0 THEN p + Wv[p+1] ELSE p + 1

\* coregex's loop body on a found match m = <<s,e>> searched from p, with the end of the
\* last non-empty match `last`: skip it?  where next?  new `last`?
ImplDecide(adv, Wv, n, m, p, last) ==
  LET skip == m[1] = m[2] /\ m[1] = last IN
  [skip |-> skip,
   np   |-> IF skip THEN NextPosR(adv, Wv, n, p)
            ELSE IF m[1] = m[2] THEN NextPosR(adv, Wv, n, m[2])
            ELSE IF m[2] > p THEN m[2] ELSE p + 1,
   last |-> IF ~skip /\ m[1] # m[2] THEN m[2] ELSE last]

\* regexp.allMatches on a found match m searched from p with previous match end prev
StdDecide(Wv, n, m, p, prev) ==
  LET empty == m[2] = p IN
  [accept |-> ~(empty /\ m[1] = prev),
   np     |-> IF empty THEN (IF WidthAtR(Wv, n, p) > 0 THEN p + WidthAtR(Wv, n, p) ELSE n + 1) ELSE m[2],
   prev   |-> m[2]]
=============================================================================
