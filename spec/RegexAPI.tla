------------------------------ MODULE RegexAPI ------------------------------
(***************************************************************************)
(* Every exported search / enumeration / replace call of package regexp as *)
(* a function of the reference semantics (RegexRef).  Results are in BYTE  *)
(* offsets, -1 for an unset capture, as the Go API reports them.           *)
(*                                                                         *)
(*   FindSub      FindSubmatchIndex (Match, Find*, FindIndex are views)    *)
(*   AllSub       FindAllSubmatchIndex(h, -1): regexp.allMatches           *)
(*   TakeN        FindAll*(h, n) for any n                                 *)
(*   ReplaceWith  regexp.replaceAll (NOT the same loop as allMatches)      *)
(*   Expand       regexp.expand / extract (template syntax)                *)
(*   Split        regexp.Split                                             *)
(***************************************************************************)
EXTENDS RegexRef

ToOff(h, caps) == IF caps = <<>> THEN <<>>
                  ELSE [j \in DOMAIN caps |-> IF caps[j] = 0 THEN -1 ELSE Off(h, caps[j])]

FindSubP(prog, ncap, h, at, longest) == ToOff(h, FindP(prog, ncap, h, at, longest))
FindSub(re, h, at, longest) == FindSubP(Compile(re), NCaps(re), h, at, longest)

(* regexp.allMatches: pos, prevMatchEnd; empty match adjacent to the previous match is
   dropped; after an empty match advance one rune (= one symbol). *)
RECURSIVE AllFrom(_,_,_,_,_,_,_)
AllFrom(prog, ncap, h, longest, pos, prevEnd, acc) ==
  IF pos > Len(h) + 1 THEN acc
  ELSE LET m == FindP(prog, ncap, h, pos, longest) IN
       IF m = <<>> THEN acc
       ELSE IF m[2] = pos
            THEN AllFrom(prog, ncap, h, longest, pos + 1, m[2],
                         IF m[1] = prevEnd THEN acc ELSE Append(acc, m))
            ELSE AllFrom(prog, ncap, h, longest, m[2], m[2], Append(acc, m))

AllP(prog, ncap, h, longest) == AllFrom(prog, ncap, h, longest, 1, 0, <<>>)
AllSubP(prog, ncap, h, longest) ==
  LET a == AllP(prog, ncap, h, longest) IN [i \in DOMAIN a |-> ToOff(h, a[i])]

TakeN(all, n) == IF n < 0 \/ n >= Len(all) THEN all ELSE SubSeq(all, 1, n)

(* regexp.replaceAll.  Returns the sequence of pieces of the output:
   <<"c", from, to>> copy h[from..to)   (symbol positions)
   <<"m", slots>>    a substituted match                                     *)
RECURSIVE RepFrom(_,_,_,_,_,_,_)
RepFrom(prog, ncap, h, longest, sp, lastEnd, acc) ==
  LET fin == Append(acc, <<"c", lastEnd, Len(h) + 1>>) IN
  IF sp > Len(h) + 1 THEN fin
  ELSE LET a == FindP(prog, ncap, h, sp, longest) IN
       IF a = <<>> THEN fin
       ELSE LET acc1 == Append(acc, <<"c", lastEnd, a[1]>>)
                acc2 == IF a[2] > lastEnd \/ a[1] = 1 THEN Append(acc1, <<"m", a>>) ELSE acc1
                w    == IF sp <= Len(h) THEN 1 ELSE 0
                sp2  == IF sp + w > a[2] THEN sp + w
                        ELSE IF sp + 1 > a[2] THEN sp + 1
                        ELSE a[2]
            IN RepFrom(prog, ncap, h, longest, sp2, a[2], acc2)

RepPieces(prog, ncap, h, longest) == RepFrom(prog, ncap, h, longest, 1, 1, <<>>)

SubBytes(h, from, to) == IF to <= from THEN <<>> ELSE Bytes(SubSeq(h, from, to - 1))

(* ----------------------------- templates --------------------------------- *)
\* template and names are byte sequences (ASCII)
IsDigitB(b) == b >= 48 /\ b <= 57
IsNameB(b)  == IsDigitB(b) \/ (b >= 65 /\ b <= 90) \/ (b >= 97 /\ b <= 122) \/ b = 95

RECURSIVE NameLen(_,_)
NameLen(t, i) == IF i <= Len(t) /\ IsNameB(t[i]) THEN 1 + NameLen(t, i+1) ELSE 0

RECURSIVE NumOf(_,_,_)
NumOf(name, i, acc) ==            \* -1 if not a number
  IF i > Len(name) THEN acc
  ELSE IF ~IsDigitB(name[i]) \/ acc >= 100000000 THEN -1
  ELSE NumOf(name, i+1, acc * 10 + (name[i] - 48))

\* regexp.extract on the text after '$': [ok, name, num, rest]
Extract(t) ==
  IF t = <<>> THEN [ok |-> FALSE]
  ELSE LET brace == t[1] = 123
           s     == IF brace THEN Tail(t) ELSE t
           n     == NameLen(s, 1)
       IN IF n = 0 THEN [ok |-> FALSE]
          ELSE IF brace /\ (n >= Len(s) \/ s[n+1] # 125) THEN [ok |-> FALSE]
          ELSE LET name == SubSeq(s, 1, n)
                   num0 == NumOf(name, 1, 0)
                   num  == IF name[1] = 48 /\ n > 1 THEN -1 ELSE num0
                   used == IF brace THEN n + 1 ELSE n
               IN [ok |-> TRUE, name |-> name, num |-> num, rest |-> SubSeq(s, used + 1, Len(s))]

IndexOfDollar(t) == IF \E i \in DOMAIN t : t[i] = 36
                    THEN CHOOSE i \in DOMAIN t : t[i] = 36 /\ \A j \in 1..(i-1) : t[j] # 36
                    ELSE 0

\* value of group g (0-based) in slots m (positions; 0 unset); <<>> when absent
GroupBytes(h, m, g) == IF 2*g + 2 <= Len(m) /\ m[2*g+1] # 0 THEN SubBytes(h, m[2*g+1], m[2*g+2]) ELSE <<>>

\* names: sequence indexed 1..ncap+1 (group 0 first) of byte sequences
FirstNamed(names, name, m) ==
  LET c == {i \in DOMAIN names : names[i] = name /\ 2*i <= Len(m) /\ m[2*i-1] # 0}
  IN IF c = {} THEN 0 ELSE CHOOSE i \in c : \A j \in c : i <= j

RECURSIVE Expand(_,_,_,_)
Expand(t, h, m, names) ==
  LET d == IndexOfDollar(t) IN
  IF d = 0 THEN t
  ELSE LET before == SubSeq(t, 1, d-1)
           after  == SubSeq(t, d+1, Len(t))
       IN IF after # <<>> /\ after[1] = 36
          THEN before \o <<36>> \o Expand(Tail(after), h, m, names)
          ELSE LET x == Extract(after) IN
               IF ~x.ok THEN before \o <<36>> \o Expand(after, h, m, names)
               ELSE IF x.num >= 0 THEN before \o GroupBytes(h, m, x.num) \o Expand(x.rest, h, m, names)
               ELSE LET i == FirstNamed(names, x.name, m) IN
                    before \o (IF i = 0 THEN <<>> ELSE GroupBytes(h, m, i-1)) \o Expand(x.rest, h, m, names)

\* group names of a numbered pattern, group 0 first
RECURSIVE NamesOf(_)
NamesOf(r) == CASE r.op \in Leaf -> <<>>
                [] r.op \in Bin  -> NamesOf(r.a) \o NamesOf(r.b)
                [] r.op = "cap"  -> <<r.name>> \o NamesOf(r.a)
                [] OTHER         -> NamesOf(r.a)
Names(re) == << <<>> >> \o NamesOf(re)

(* ----------------------------- replace ----------------------------------- *)
RECURSIVE Render(_,_,_,_)      \* kind: "tmpl" (Expand), "lit" (verbatim), "fn" (wrap match in < >)
Render(pieces, h, kind, arg) ==
  IF pieces = <<>> THEN <<>>
  ELSE LET p == pieces[1]
           out == IF p[1] = "c" THEN SubBytes(h, p[2], p[3])
                  ELSE IF kind = "lit" THEN arg.t
                  ELSE IF kind = "fn"  THEN <<60>> \o SubBytes(h, p[2][1], p[2][2]) \o <<62>>
                  ELSE Expand(arg.t, h, p[2], arg.names)
       IN out \o Render(Tail(pieces), h, kind, arg)

(* ------------------------------ split ------------------------------------ *)
\* regexp.Split; result: sequence of <<beg,end>> byte-offset pairs, or "nil"
RECURSIVE SplitLoop(_,_,_,_,_,_)
SplitLoop(ms, i, n, beg, end, acc) ==       \* ms: byte-offset spans
  IF i > Len(ms) \/ (n > 0 /\ Len(acc) = n - 1) THEN [beg |-> beg, end |-> end, acc |-> acc]
  ELSE LET m == ms[i]
           acc2 == IF m[2] # 0 THEN Append(acc, <<beg, m[1]>>) ELSE acc
       IN SplitLoop(ms, i+1, n, m[2], m[1], acc2)

Split(allSpans, hlen, exprEmpty, n) ==       \* allSpans = FindAllIndex(h, -1) in bytes; hlen in bytes
  IF n = 0 THEN "nil"
  ELSE IF ~exprEmpty /\ hlen = 0 THEN << <<0,0>> >>
  ELSE LET r == SplitLoop(TakeN(allSpans, n), 1, n, 0, 0, <<>>)
       IN IF r.end # hlen THEN Append(r.acc, <<r.beg, hlen>>) ELSE r.acc
=============================================================================
