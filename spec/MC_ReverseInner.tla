--------------------------- MODULE MC_ReverseInner ---------------------------
(* For every pattern  P.I.Q  of the family and every haystack over its own symbols: the three entry points of the
   reverse-inner driver (ReverseInner.tla) against the reference.  One record per pattern (the halves P and I.Q, the
   inner literal, per haystack the model's answers and the reference); `rbad` marks the haystacks on which the model
   driver itself leaves the reference.  Claim = TRUE asserts exactness (used on the sub-family RIU, `.*I.*`). *)
EXTENDS Universe, ReverseInner, Json

CONSTANTS Family, Shard, NShards, Budget, LCap, Claim

RIPre  == {Star(Dot,TRUE), Plus(Dot,TRUE), Plus(Cls({sa,sb}),TRUE), Plus(Cls({sa,sb,sc}),TRUE), Star(DotS,TRUE),
           Cat(Lit(sc), Star(Dot,TRUE)), Cat(Alt(Cat(Lit(sa), Dot), Lit(sb)), Star(Dot,TRUE)), Rep(Cls({sa,sc}),1,2,TRUE)}
RIInn  == {<<sa,sb>>, <<sa,sa>>, <<sa,sb,sa>>}
RISuf  == {Star(Dot,TRUE), Plus(Dot,TRUE), Plus(Cls({sb,sc}),TRUE), Cat(Star(Dot,TRUE), Lit(sc)), Star(DotS,TRUE),
           Cat(Plus(Cls({sa,sb}),TRUE), Lit(sc)), Quest(Lit(sc),TRUE)}
RIG == {[P |-> p, I |-> i, Q |-> q] : p \in RIPre, i \in RIInn, q \in RISuf}
RIU == {[P |-> Star(Dot,TRUE), I |-> i, Q |-> Star(Dot,TRUE)] : i \in RIInn}

Base == SetToSeq(IF Family = "RIU" THEN RIU ELSE RIG)
Idx == {i \in 1..Len(Base) : i % NShards = Shard} \cup {0}

VARIABLES idx, out, bad
vars == <<idx, out, bad>>

Off2(h, m) == IF m = <<>> THEN <<>> ELSE <<Off(h, m[1]), Off(h, m[2])>>

Eval(i) ==
  LET P    == Base[i].P
      I    == Base[i].I
      Q    == Base[i].Q
      re   == Cat(P, Cat(LitStr(I), Q))
      rn   == Number(re, 1)
      prog == Prog(Simp(rn))
      nc   == NCaps(re)
      pprog == Prog(Simp(Number(P, 1)))
      emptyP == 1 \in EndsP(pprog, <<>>, 1)
      uni  == UniversalPrefix(P) /\ UniversalSuffix(Q)
      dnl  == DotNLBoth(P, Q)
      al   == SymsIn(re) \cup (IF HasOp(re, {"any"}) THEN {NL} ELSE {})
      L    == LenFor(Cardinality(al), Budget, LCap)
      H    == SetToSeq(SeqsUpTo(al, L) \cup Splice(prog, al, Budget \div 3))
      fa(h) == [p \in 1..(Len(h)+1) |-> RIFindAt(prog, nc, pprog, emptyP, I, uni, dnl, h, p)]
      rf(h) == [p \in 1..(Len(h)+1) |-> Two(FindP(prog, nc, h, p, FALSE))]
      fi(h) == RIFind(prog, nc, pprog, emptyP, I, uni, dnl, h)
      im(h) == RIIsMatch(prog, nc, pprog, emptyP, I, h)
      Bad(h) == \/ \E p \in 1..Len(h) : fa(h)[p] # rf(h)[p]
                \/ fi(h) # rf(h)[1]
                \/ im(h) # (rf(h)[1] # <<>>)
  IN [rec |-> [fam |-> Family, i |-> i, re |-> rn, nc |-> nc, names |-> Names(rn),
               riP |-> P, riQ |-> Cat(LitStr(I), Q), riI |-> Bytes(I),
               hs |-> [j \in 1..Len(H) |->
                         [h |-> H[j],
                          rfa |-> [p \in 1..(Len(H[j])+1) |-> Off2(H[j], fa(H[j])[p])],
                          rf  |-> Off2(H[j], fi(H[j])),
                          rim |-> im(H[j]),
                          atf |-> [p \in 1..(Len(H[j])+1) |-> Off2(H[j], rf(H[j])[p])],
                          rbad |-> Bad(H[j])]]],
      bad |-> {j \in 1..Len(H) : Bad(H[j])}]

Init == idx \in Idx /\ out = <<>> /\ bad = {}
Next == /\ out = <<>>
        /\ IF idx = 0 THEN out' = [sym |-> Sym, fam |-> Family] /\ bad' = {}
           ELSE LET e == Eval(idx) IN out' = e.rec /\ bad' = e.bad
        /\ UNCHANGED idx
Spec == Init /\ [][Next]_vars
Emit == out = <<>> \/ PrintT(ToJson(out))
Exact == Claim => bad = {}
=============================================================================
