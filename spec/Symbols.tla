------------------------------ MODULE Symbols ------------------------------
(***************************************************************************)
(* The symbol table of the reference semantics.                            *)
(*                                                                         *)
(* A haystack is a sequence of symbol ids.  A symbol is what Go's          *)
(* utf8.DecodeRune delivers in one step: either a well-formed UTF-8        *)
(* encoding of a code point, or ONE ill-formed byte (delivered as U+FFFD   *)
(* with width 1).  Byte offsets are prefix sums of widths, so every        *)
(* position the reference semantics talks about is a rune boundary by      *)
(* construction, exactly like package regexp.                              *)
(*                                                                         *)
(*   b    : the bytes of the symbol                                        *)
(*   r    : the rune regexp sees (65533 for ill-formed bytes)              *)
(*   w    : is it an ASCII word character  [0-9A-Za-z_]                    *)
(*   f    : representative (smallest rune) of its simple-folding orbit     *)
(*   ok   : well-formed (may appear in a pattern)                          *)
(***************************************************************************)
EXTENDS Integers, Sequences, FiniteSets

MkSym(n, b, r, w, f, ok) == [n |-> n, b |-> b, r |-> r, w |-> w, f |-> f, ok |-> ok]

Sym == <<
  MkSym("a",    <<97>>,              97,     TRUE,  65,    TRUE),   \* 1
  MkSym("b",    <<98>>,              98,     TRUE,  66,    TRUE),   \* 2
  MkSym("c",    <<99>>,              99,     TRUE,  67,    TRUE),   \* 3
  MkSym("x",    <<120>>,             120,    TRUE,  88,    TRUE),   \* 4
  MkSym("0",    <<48>>,              48,     TRUE,  48,    TRUE),   \* 5
  MkSym("1",    <<49>>,              49,     TRUE,  49,    TRUE),   \* 6
  MkSym(".",    <<46>>,              46,     FALSE, 46,    TRUE),   \* 7
  MkSym("@",    <<64>>,              64,     FALSE, 64,    TRUE),   \* 8
  MkSym("sp",   <<32>>,              32,     FALSE, 32,    TRUE),   \* 9
  MkSym("nl",   <<10>>,              10,     FALSE, 10,    TRUE),   \* 10
  MkSym("_",    <<95>>,              95,     TRUE,  95,    TRUE),   \* 11
  MkSym("-",    <<45>>,              45,     FALSE, 45,    TRUE),   \* 12
  MkSym("A",    <<65>>,              65,     TRUE,  65,    TRUE),   \* 13
  MkSym("k",    <<107>>,             107,    TRUE,  75,    TRUE),   \* 14
  MkSym("K",    <<75>>,              75,     TRUE,  75,    TRUE),   \* 15
  MkSym("KEL",  <<226,132,170>>,     8490,   FALSE, 75,    TRUE),   \* 16 U+212A KELVIN SIGN
  MkSym("e'",   <<195,169>>,         233,    FALSE, 201,   TRUE),   \* 17 U+00E9
  MkSym("E'",   <<195,137>>,         201,    FALSE, 201,   TRUE),   \* 18 U+00C9
  MkSym("s",    <<115>>,             115,    TRUE,  83,    TRUE),   \* 19
  MkSym("S",    <<83>>,              83,     TRUE,  83,    TRUE),   \* 20
  MkSym("lngs", <<197,191>>,         383,    FALSE, 83,    TRUE),   \* 21 U+017F LATIN SMALL LETTER LONG S
  MkSym("shi",  <<228,184,150>>,     19990,  FALSE, 19990, TRUE),   \* 22 U+4E16
  MkSym("grin", <<240,159,152,128>>, 128512, FALSE, 128512,TRUE),   \* 23 U+1F600
  MkSym("fffd", <<239,191,189>>,     65533,  FALSE, 65533, TRUE),   \* 24 U+FFFD, well-formed
  MkSym("xFF",  <<255>>,             65533,  FALSE, 65533, FALSE),  \* 25 never valid
  MkSym("xC0",  <<192>>,             65533,  FALSE, 65533, FALSE),  \* 26 overlong lead
  MkSym("x80",  <<128>>,             65533,  FALSE, 65533, FALSE),  \* 27 lone continuation
  MkSym("xE2",  <<226>>,             65533,  FALSE, 65533, FALSE),  \* 28 truncated lead
  MkSym("9",    <<57>>,              57,     TRUE,  57,    TRUE),   \* 29
  MkSym("z",    <<122>>,             122,    TRUE,  90,    TRUE),   \* 30
  MkSym("cr",   <<13>>,              13,     FALSE, 13,    TRUE),   \* 31
  MkSym("del",  <<127>>,             127,    FALSE, 127,   TRUE),   \* 32
  MkSym("nbsp", <<194,128>>,         128,    FALSE, 128,   TRUE),   \* 33 U+0080 first 2-byte
  MkSym("u7ff", <<223,191>>,         2047,   FALSE, 2047,  TRUE),   \* 34 U+07FF last 2-byte
  MkSym("u800", <<224,160,128>>,     2048,   FALSE, 2048,  TRUE),   \* 35 U+0800 first 3-byte
  MkSym("umax", <<244,143,191,191>>, 1114111,FALSE, 1114111,TRUE)   \* 36 U+10FFFF
>>

NSym    == Len(Sym)
AllSyms == 1..NSym
NL      == 10            \* the id of "\n"
Width(s)  == Len(Sym[s].b)
IsWord(s) == Sym[s].w
IllFormed == {s \in AllSyms : ~Sym[s].ok}

\* byte offset (0-based) of symbol position p (1-based, 1..Len(h)+1) in haystack h
RECURSIVE OffAcc(_,_,_)
OffAcc(h, p, acc) == IF p = 1 THEN acc ELSE OffAcc(h, p-1, acc + Width(h[p-1]))
Off(h, p) == OffAcc(h, p, 0)

\* the bytes of a haystack
RECURSIVE BytesAcc(_,_,_)
BytesAcc(h, i, acc) == IF i > Len(h) THEN acc ELSE BytesAcc(h, i+1, acc \o Sym[h[i]].b)
Bytes(h) == BytesAcc(h, 1, <<>>)
=============================================================================
