----------------------------- MODULE ReverseInner -----------------------------
(***************************************************************************)
(* The reverse-inner search (meta/reverse_inner.go) as an algorithm over   *)
(* the reference semantics.  The pattern is  P.I.Q  with an inner literal  *)
(* I (Inner below).  The driver                                            *)
(*   1. asks a prefilter for the next occurrence of I at or after the      *)
(*      search start                                                       *)
(*   2. runs the REVERSE automaton of the PREFIX P from that occurrence    *)
(*      towards the search start (guarded, as in ReverseSuffix) and takes  *)
(*      the smallest start of a prefix match that ends at the occurrence   *)
(*   3. runs the forward automaton of the WHOLE pattern anchored at that   *)
(*      start; the first candidate that passes both steps is returned      *)
(*   4. Find and FindAt hand over to the NFA when the candidates are       *)
(*      exhausted; IsMatch answers "no" there                              *)
(*   5. when P and the end of Q are `.*` / `.+` ("universal") and no       *)
(*      newline is in the way, the answer is taken to be [at, len) if      *)
(*      IsMatch says there is a match at all.                              *)
(* The automata are taken to be exact.  Positions are 1-based symbol       *)
(* positions, ends exclusive; RevLimited/Quadratic are those of            *)
(* ReverseSuffix with the prefix program.                                  *)
(***************************************************************************)
EXTENDS ReverseSuffix

\* shape flags, as NewReverseInnerSearcher derives them from the two halves of the syntax tree
RECURSIVE LastOf(_)
LastOf(r) == IF r.op = "cat" THEN LastOf(r.b) ELSE IF r.op = "cap" THEN LastOf(r.a) ELSE r
IsDotRep(r) == r.op \in {"star","plus"} /\ r.a.op = "any"
UniversalPrefix(P) == IsDotRep(P) \/ P.op = "emp"
UniversalSuffix(Q) == IsDotRep(LastOf(Q))
DotNLBoth(P, Q)    == LET a == LastOf(P)  b == LastOf(Q)
                      IN a.op \in {"star","plus","quest","rep"} /\ a.a.op = "any" /\ a.a.nl
                         /\ b.op \in {"star","plus","quest","rep"} /\ b.a.op = "any" /\ b.a.nl

\* prefixStart: the empty region is decided by "P matches the empty string"
PrefixStart(pprog, emptyP, h, at, pos, minStart) ==
  IF pos = at THEN (IF emptyP THEN at ELSE 0) ELSE RevLimited(pprog, h, at, pos, minStart)

(* ---------------------------------- IsMatch ------------------------------- *)
RECURSIVE RIIsMatchLoop(_,_,_,_,_,_,_,_)
RIIsMatchLoop(prog, nc, pprog, emptyP, I, h, searchStart, minStart) ==
  LET pos == NextOcc(I, h, searchStart) IN
  IF pos = 0 THEN FALSE
  ELSE LET ms == PrefixStart(pprog, emptyP, h, 1, pos, minStart) IN
       IF ms = Quadratic THEN FindP(prog, nc, h, 1, FALSE) # <<>>
       ELSE IF ms > 0 /\ AnchoredP(prog, nc, h, ms) # <<>> THEN TRUE
       ELSE IF pos >= Len(h) THEN FALSE
       ELSE RIIsMatchLoop(prog, nc, pprog, emptyP, I, h, pos + 1,
                          IF pos + Len(I) > minStart THEN pos + Len(I) ELSE minStart)
RIIsMatch(prog, nc, pprog, emptyP, I, h) ==
  IF Len(h) = 0 THEN FALSE ELSE RIIsMatchLoop(prog, nc, pprog, emptyP, I, h, 1, 1)

NoNLFrom(h, at) == \A p \in at..Len(h) : h[p] # NL
Drop(h, at) == SubSeq(h, at, Len(h))

(* ---------------------------------- FindAt -------------------------------- *)
RECURSIVE RIFindAtLoop(_,_,_,_,_,_,_,_)
RIFindAtLoop(prog, nc, pprog, emptyP, I, h, at, searchStart) ==
  LET pos == NextOcc(I, h, searchStart)
      nfa == Two(FindP(prog, nc, h, at, FALSE)) IN
  IF pos = 0 THEN nfa
  ELSE LET ms == PrefixStart(pprog, emptyP, h, at, pos, at)
           a  == IF ms > 0 THEN AnchoredP(prog, nc, h, ms) ELSE <<>>
       IN IF ms = Quadratic THEN nfa
          ELSE IF a # <<>> THEN <<ms, a[2]>>
          ELSE IF pos >= Len(h) THEN nfa
          ELSE RIFindAtLoop(prog, nc, pprog, emptyP, I, h, at, pos + 1)

RIFindAt(prog, nc, pprog, emptyP, I, uni, dotnl, h, at) ==
  IF at > Len(h) THEN <<>>
  ELSE IF uni /\ (dotnl \/ NoNLFrom(h, at))
       THEN (IF RIIsMatch(prog, nc, pprog, emptyP, I, Drop(h, at)) THEN <<at, Len(h) + 1>> ELSE <<>>)
  ELSE RIFindAtLoop(prog, nc, pprog, emptyP, I, h, at, at)

(* ----------------------------------- Find --------------------------------- *)
RECURSIVE RIFindLoop(_,_,_,_,_,_,_,_)
RIFindLoop(prog, nc, pprog, emptyP, I, h, searchStart, minPreStart) ==
  LET pos == NextOcc(I, h, searchStart)
      nfa == Two(FindP(prog, nc, h, 1, FALSE)) IN
  IF pos = 0 THEN nfa
  ELSE IF pos < minPreStart THEN nfa
  ELSE LET ms == PrefixStart(pprog, emptyP, h, 1, pos, 1)
           a  == IF ms > 0 THEN AnchoredP(prog, nc, h, ms) ELSE <<>>
       IN IF ms = Quadratic THEN nfa
          ELSE IF a # <<>> THEN <<ms, a[2]>>
          ELSE IF pos >= Len(h) THEN nfa
          ELSE RIFindLoop(prog, nc, pprog, emptyP, I, h, pos + 1, IF ms > 0 THEN pos + Len(I) ELSE minPreStart)

RIFind(prog, nc, pprog, emptyP, I, uni, dotnl, h) ==
  IF Len(h) = 0 THEN <<>>
  ELSE IF uni /\ (dotnl \/ NoNLFrom(h, 1))
       THEN (IF RIIsMatch(prog, nc, pprog, emptyP, I, h) THEN <<1, Len(h) + 1>> ELSE <<>>)
  ELSE RIFindLoop(prog, nc, pprog, emptyP, I, h, 1, 1)
=============================================================================
