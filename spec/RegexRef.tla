------------------------------ MODULE RegexRef ------------------------------
(***************************************************************************)
(* Reference semantics of Go regular expressions (package regexp), at the  *)
(* rune level.                                                             *)
(*                                                                         *)
(* The semantics is given the way package regexp defines it, not the way   *)
(* coregex implements it:                                                  *)
(*   Prog(re)  : regexp/syntax.Compile written as a pure function over     *)
(*               fragments of known size (Size, Code), including the       *)
(*               "x* with nullable x is (x+)?" rule (golang.org/issue/     *)
(*               46123) and Simplify's expansion of counted repetition;    *)
(*   Try/TryL  : regexp's backtracker (backtrack.go): depth-first search   *)
(*               in priority order with a (pc,pos) visited set carried     *)
(*               across start positions; leftmost-first stops at the first *)
(*               match, leftmost-longest keeps exploring and records a     *)
(*               strictly longer end (stops when the end of text is hit).  *)
(* Positions are 1-based symbol positions 1..Len(h)+1; capture slots use 0 *)
(* for "unset".  RegexAPI converts to byte offsets.                        *)
(***************************************************************************)
EXTENDS Symbols, TLC

(* ---------------------------- abstract syntax --------------------------- *)
Lit(c)          == [op |-> "lit", c |-> c, fold |-> FALSE]
LitF(c)         == [op |-> "lit", c |-> c, fold |-> TRUE]      \* (?i:c)
Cls(cs)         == [op |-> "cls", s |-> cs, neg |-> FALSE, fold |-> FALSE]
NCls(cs)        == [op |-> "cls", s |-> cs, neg |-> TRUE,  fold |-> FALSE]
ClsF(cs)        == [op |-> "cls", s |-> cs, neg |-> FALSE, fold |-> TRUE]
Dot             == [op |-> "any", nl |-> FALSE]                \* .
DotS            == [op |-> "any", nl |-> TRUE]                 \* (?s:.)
Emp             == [op |-> "emp"]                              \* (?:)
Look(k)         == [op |-> "look", k |-> k]                    \* bot eot bol eol wb nwb
Cat(a,b)        == [op |-> "cat", a |-> a, b |-> b]
Alt(a,b)        == [op |-> "alt", a |-> a, b |-> b]
Star(a,g)       == [op |-> "star",  a |-> a, g |-> g]          \* g: greedy
Plus(a,g)       == [op |-> "plus",  a |-> a, g |-> g]
Quest(a,g)      == [op |-> "quest", a |-> a, g |-> g]
Rep(a,mn,mx,g)  == [op |-> "rep", a |-> a, min |-> mn, max |-> mx, g |-> g]   \* max = -1: unbounded
Cap(a)          == [op |-> "cap", a |-> a, i |-> 0, name |-> <<>>]
CapN(a, nm)     == [op |-> "cap", a |-> a, i |-> 0, name |-> nm]

Leaf == {"lit","cls","any","emp","look"}
Un   == {"star","plus","quest","rep","cap"}
Bin  == {"cat","alt"}

RECURSIVE CatSeq(_)
CatSeq(s) == IF Len(s) = 1 THEN s[1] ELSE Cat(s[1], CatSeq(Tail(s)))
RECURSIVE AltSeq(_)
AltSeq(s) == IF Len(s) = 1 THEN s[1] ELSE Alt(s[1], AltSeq(Tail(s)))
LitStr(s) == CatSeq([i \in 1..Len(s) |-> Lit(s[i])])          \* literal string of symbols

RECURSIVE NCaps(_)
NCaps(r) == CASE r.op \in Leaf -> 0
              [] r.op \in Bin  -> NCaps(r.a) + NCaps(r.b)
              [] r.op = "cap"  -> 1 + NCaps(r.a)
              [] OTHER         -> NCaps(r.a)

\* capture groups are numbered by their opening parenthesis, left to right
RECURSIVE Number(_,_)
Number(r,k) == CASE r.op \in Leaf -> r
                 [] r.op \in Bin  -> [r EXCEPT !.a = Number(r.a,k), !.b = Number(r.b, k + NCaps(r.a))]
                 [] r.op = "cap"  -> [r EXCEPT !.i = k, !.a = Number(r.a, k+1)]
                 [] OTHER         -> [r EXCEPT !.a = Number(r.a,k)]

RECURSIVE HasOp(_,_)
HasOp(r, ops) == \/ r.op \in ops
                 \/ (r.op \in Bin /\ (HasOp(r.a, ops) \/ HasOp(r.b, ops)))
                 \/ (r.op \in Un /\ HasOp(r.a, ops))
RECURSIVE HasLook(_,_)
HasLook(r, ks) == \/ (r.op = "look" /\ r.k \in ks)
                  \/ (r.op \in Bin /\ (HasLook(r.a, ks) \/ HasLook(r.b, ks)))
                  \/ (r.op \in Un /\ HasLook(r.a, ks))

\* symbols mentioned by a pattern
RECURSIVE SymsIn(_)
SymsIn(r) == CASE r.op = "lit" -> {r.c}
               [] r.op = "cls" -> r.s
               [] r.op \in {"any","emp","look"} -> {}
               [] r.op \in Bin -> SymsIn(r.a) \cup SymsIn(r.b)
               [] OTHER -> SymsIn(r.a)

(* -------------------- which symbols an atom consumes --------------------- *)
MatchSet(r) ==
  CASE r.op = "lit" -> IF r.fold THEN {s \in AllSyms : Sym[s].f = Sym[r.c].f}
                                 ELSE {s \in AllSyms : Sym[s].r = Sym[r.c].r}
    [] r.op = "cls" -> LET in == IF r.fold THEN {s \in AllSyms : \E c \in r.s : Sym[s].f = Sym[c].f}
                                           ELSE {s \in AllSyms : \E c \in r.s : Sym[s].r = Sym[c].r}
                       IN IF r.neg THEN AllSyms \ in ELSE in
    [] r.op = "any" -> IF r.nl THEN AllSyms ELSE {s \in AllSyms : Sym[s].r # 10}

(* ------------- regexp/syntax.Simplify: counted repetition ---------------- *)
RECURSIVE Copies(_,_)
Copies(x, n) == IF n = 1 THEN x ELSE Cat(x, Copies(x, n-1))          \* n >= 1
RECURSIVE NestQ(_,_,_)
NestQ(x, k, g) == IF k = 1 THEN Quest(x, g) ELSE Quest(Cat(x, NestQ(x, k-1, g)), g)   \* (x(x(x)?)?)?  k >= 1

RECURSIVE Simp(_)
Simp(r) ==
  CASE r.op \in Leaf -> r
    [] r.op \in Bin  -> [r EXCEPT !.a = Simp(r.a), !.b = Simp(r.b)]
    [] r.op = "rep"  ->
         LET x == Simp(r.a) IN
         IF r.min = 0 /\ r.max = 0 THEN Emp
         ELSE IF r.max = -1 THEN
              (IF r.min = 0 THEN Star(x, r.g)
               ELSE IF r.min = 1 THEN Plus(x, r.g)
               ELSE Cat(Copies(x, r.min - 1), Plus(x, r.g)))
         ELSE IF r.min = 1 /\ r.max = 1 THEN x
         ELSE IF r.max > r.min THEN
              (IF r.min = 0 THEN NestQ(x, r.max, r.g)
               ELSE Cat(Copies(x, r.min), NestQ(x, r.max - r.min, r.g)))
         ELSE Copies(x, r.min)                                       \* min = max >= 2
    [] OTHER -> [r EXCEPT !.a = Simp(r.a)]

(* ------------------------ regexp/syntax.Compile -------------------------- *)
RECURSIVE Nullable(_)
Nullable(r) == CASE r.op \in {"lit","cls","any"}           -> FALSE
                 [] r.op \in {"emp","look","star","quest"} -> TRUE
                 [] r.op = "cat"                           -> Nullable(r.a) /\ Nullable(r.b)
                 [] r.op = "alt"                           -> Nullable(r.a) \/ Nullable(r.b)
                 [] r.op \in {"plus","cap"}                -> Nullable(r.a)

RECURSIVE Size(_)
Size(r) == CASE r.op \in Leaf    -> 1
             [] r.op = "cat"     -> Size(r.a) + Size(r.b)
             [] r.op = "alt"     -> 1 + Size(r.a) + Size(r.b)
             [] r.op = "star"    -> IF Nullable(r.a) THEN 2 + Size(r.a) ELSE 1 + Size(r.a)
             [] r.op = "plus"    -> Size(r.a) + 1
             [] r.op = "quest"   -> 1 + Size(r.a)
             [] r.op = "cap"     -> 2 + Size(r.a)

\* greedy: try the body first; lazy: try the exit first
AltI(g, cont, exit) == IF g THEN [op |-> "alt", out |-> cont, arg |-> exit]
                            ELSE [op |-> "alt", out |-> exit, arg |-> cont]

\* instructions of r placed at pc b .. b+Size(r)-1, leaving to pc x
RECURSIVE Code(_,_,_)
Code(r,b,x) ==
  CASE r.op \in {"lit","cls","any"} -> << [op |-> "rune", s |-> MatchSet(r), out |-> x] >>
    [] r.op = "emp"   -> << [op |-> "nop", out |-> x] >>
    [] r.op = "look"  -> << [op |-> "look", k |-> r.k, out |-> x] >>
    [] r.op = "cat"   -> Code(r.a, b, b + Size(r.a)) \o Code(r.b, b + Size(r.a), x)
    [] r.op = "alt"   -> << [op |-> "alt", out |-> b+1, arg |-> b+1+Size(r.a)] >>
                           \o Code(r.a, b+1, x) \o Code(r.b, b+1+Size(r.a), x)
    [] r.op = "star"  -> IF Nullable(r.a)        \* x* with nullable x is compiled as (x+)?
                         THEN << AltI(r.g, b+1, x) >> \o Code(r.a, b+1, b+1+Size(r.a))
                                \o << AltI(r.g, b+1, x) >>
                         ELSE << AltI(r.g, b+1, x) >> \o Code(r.a, b+1, b)
    [] r.op = "plus"  -> Code(r.a, b, b + Size(r.a)) \o << AltI(r.g, b, x) >>
    [] r.op = "quest" -> << AltI(r.g, b+1, x) >> \o Code(r.a, b+1, x)
    [] r.op = "cap"   -> << [op |-> "cap", n |-> 2*r.i+1, out |-> b+1] >>
                           \o Code(r.a, b+1, b+1+Size(r.a))
                           \o << [op |-> "cap", n |-> 2*r.i+2, out |-> x] >>

\* the whole program; r must be numbered and simplified
Prog(r) == Code(r, 1, Size(r)+1) \o << [op |-> "match"] >>
Compile(re) == Prog(Simp(Number(re, 1)))

(* --------------------------- zero-width tests ---------------------------- *)
WordAt(h, p) == IF p >= 1 /\ p <= Len(h) THEN IsWord(h[p]) ELSE FALSE
LookOK(k, h, p) ==
  CASE k = "bot" -> p = 1
    [] k = "eot" -> p = Len(h) + 1
    [] k = "bol" -> p = 1 \/ h[p-1] = NL
    [] k = "eol" -> p = Len(h) + 1 \/ h[p] = NL
    [] k = "wb"  -> WordAt(h, p-1) # WordAt(h, p)
    [] k = "nwb" -> WordAt(h, p-1) = WordAt(h, p)

(* ------------------- regexp's backtracker, leftmost-first ---------------- *)
RECURSIVE Try(_,_,_,_,_,_)
Try(prog, h, pc, p, caps, vis) ==
  IF <<pc,p>> \in vis THEN [ok |-> FALSE, caps |-> caps, vis |-> vis]
  ELSE LET v == vis \cup {<<pc,p>>}
           i == prog[pc]
       IN CASE i.op = "match" -> [ok |-> TRUE, caps |-> [caps EXCEPT ![2] = p], vis |-> v]
            [] i.op = "rune"  -> IF p <= Len(h) /\ h[p] \in i.s
                                 THEN Try(prog, h, i.out, p+1, caps, v)
                                 ELSE [ok |-> FALSE, caps |-> caps, vis |-> v]
            [] i.op = "nop"   -> Try(prog, h, i.out, p, caps, v)
            [] i.op = "look"  -> IF LookOK(i.k, h, p) THEN Try(prog, h, i.out, p, caps, v)
                                 ELSE [ok |-> FALSE, caps |-> caps, vis |-> v]
            [] i.op = "cap"   -> Try(prog, h, i.out, p, [caps EXCEPT ![i.n] = p], v)
            [] i.op = "alt"   -> LET r1 == Try(prog, h, i.out, p, caps, v)
                                 IN IF r1.ok THEN r1 ELSE Try(prog, h, i.arg, p, caps, r1.vis)

RECURSIVE FindFrom(_,_,_,_,_)
FindFrom(prog, h, s, vis, nocaps) ==
  IF s > Len(h) + 1 THEN <<>>
  ELSE LET r == Try(prog, h, 1, s, [nocaps EXCEPT ![1] = s], vis)
       IN IF r.ok THEN r.caps ELSE FindFrom(prog, h, s+1, r.vis, nocaps)

(* ------------------ regexp's backtracker, leftmost-longest --------------- *)
RECURSIVE TryL(_,_,_,_,_,_,_)
TryL(prog, h, pc, p, caps, vis, best) ==
  IF best.done \/ <<pc,p>> \in vis THEN [vis |-> vis, best |-> best]
  ELSE LET v == vis \cup {<<pc,p>>}
           i == prog[pc]
       IN CASE i.op = "match" ->
                 LET c2 == [caps EXCEPT ![2] = p]
                     b2 == IF best.caps = <<>> \/ p > best.caps[2] THEN c2 ELSE best.caps
                 IN [vis |-> v, best |-> [caps |-> b2, done |-> (p = Len(h) + 1)]]
            [] i.op = "rune" -> IF p <= Len(h) /\ h[p] \in i.s
                                THEN TryL(prog, h, i.out, p+1, caps, v, best)
                                ELSE [vis |-> v, best |-> best]
            [] i.op = "nop"  -> TryL(prog, h, i.out, p, caps, v, best)
            [] i.op = "look" -> IF LookOK(i.k, h, p) THEN TryL(prog, h, i.out, p, caps, v, best)
                                ELSE [vis |-> v, best |-> best]
            [] i.op = "cap"  -> TryL(prog, h, i.out, p, [caps EXCEPT ![i.n] = p], v, best)
            [] i.op = "alt"  -> LET r1 == TryL(prog, h, i.out, p, caps, v, best)
                                IN TryL(prog, h, i.arg, p, caps, r1.vis, r1.best)

RECURSIVE FindFromL(_,_,_,_,_)
FindFromL(prog, h, s, vis, nocaps) ==
  IF s > Len(h) + 1 THEN <<>>
  ELSE LET r == TryL(prog, h, 1, s, [nocaps EXCEPT ![1] = s], vis, [caps |-> <<>>, done |-> FALSE])
       IN IF r.best.caps # <<>> THEN r.best.caps ELSE FindFromL(prog, h, s+1, r.vis, nocaps)

(* ------------------------------ the interface ---------------------------- *)
NoCaps(ncap) == [j \in 1..(2*ncap+2) |-> 0]

\* Search from symbol position `at` (look-behind sees h[1..at-1]).
\* Result: <<>> (no match) or the slot vector (positions, 0 = unset); slots 1,2 = overall match.
FindP(prog, ncap, h, at, longest) ==
  IF longest THEN FindFromL(prog, h, at, {}, NoCaps(ncap))
             ELSE FindFrom (prog, h, at, {}, NoCaps(ncap))

Find(re, h, at, longest) == FindP(Compile(re), NCaps(re), h, at, longest)

\* the leftmost-first match that starts EXACTLY at p (anchored search), <<>> if none
AnchoredP(prog, ncap, h, p) ==
  LET r == Try(prog, h, 1, p, [NoCaps(ncap) EXCEPT ![1] = p], {}) IN IF r.ok THEN r.caps ELSE <<>>

\* all e such that re matches h[p..e) exactly from p (anchored at p), any priority
RECURSIVE EndsAcc(_,_,_,_,_)
EndsAcc(prog, h, pc, p, seen) ==        \* returns the set of visited (pc,pos); ends = those at "match"
  IF <<pc,p>> \in seen THEN seen
  ELSE LET v == seen \cup {<<pc,p>>}
           i == prog[pc]
       IN CASE i.op = "match" -> v
            [] i.op = "rune"  -> IF p <= Len(h) /\ h[p] \in i.s THEN EndsAcc(prog, h, i.out, p+1, v) ELSE v
            [] i.op = "nop"   -> EndsAcc(prog, h, i.out, p, v)
            [] i.op = "look"  -> IF LookOK(i.k, h, p) THEN EndsAcc(prog, h, i.out, p, v) ELSE v
            [] i.op = "cap"   -> EndsAcc(prog, h, i.out, p, v)
            [] i.op = "alt"   -> EndsAcc(prog, h, i.arg, p, EndsAcc(prog, h, i.out, p, v))
EndsP(prog, h, p) == {x[2] : x \in {y \in EndsAcc(prog, h, 1, p, {}) : prog[y[1]].op = "match"}}
Ends(re, h, p) == EndsP(Compile(re), h, p)
FullMatch(re, w) == (Len(w) + 1) \in Ends(re, w, 1)
=============================================================================
