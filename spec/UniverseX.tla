----------------------------- MODULE UniverseX -----------------------------
(***************************************************************************)
(* Pattern families added after the known-findings lists of the families   *)
(* of Universe had been completed.  They live in a module of their own so  *)
(* that the records TLC generated from Universe (and the lists built from  *)
(* them) stay valid: extending a family of Universe would renumber its     *)
(* patterns and with them their haystack alphabets.                        *)
(***************************************************************************)
EXTENDS Universe

(* ---- ANC2: anchored patterns whose FIRST element is a class with non-ASCII members or a negated class.  The anchored
        first-byte rejection table (nfa.ExtractFirstBytes) must hold UTF-8 lead bytes, not code points, and every byte an
        ill-formed input can begin with (it is read as U+FFFD, which negated classes contain).  Two seeded changes to that
        table went unnoticed because ANC only begins with a, b, [ab] or a dot. ---- *)
AQ2 == {Plus(NCls({sa}),TRUE), NCls({sa}), Plus(NCls({sa,sb}),TRUE), Plus(Cls({sa,se}),TRUE), Cls({sa,se}), Plus(Cls({se}),TRUE),
        Star(Cls({sa,se}),TRUE), Cap(Plus(NCls({sb}),TRUE)), Cap(Plus(Cls({se,sb}),TRUE)), Plus(Cls({se,sshi}),TRUE)}
AT2 == {Emp, Lit(sb), Lit(sx), Cat(Lit(sb), Star(Dot,TRUE)), Cap(Lit(sb))}
ANC2(z) == {Cat(Look("bot"), Cat(q, t)) : q \in AQ2, t \in AT2}

(* ---- ANC3: the shape of the anchored-literal matcher (meta/anchored_literal.go): ^ literal, a dot wildcard, a class BRIDGE, a
        literal, $.  The bridge classes contain "\n" and a space: the wildcard must not cross a newline while the bridge may, and a
        seeded change that shortened the backward scan over the bridge went unnoticed because ANC has no bridge at all.  Used by
        C19 only (its exhaustive length-5/6 sweep over the pattern's own bytes reaches the inputs that matter). ---- *)
ANC3(z) == {Cat(Look("bot"), Cat(LitStr(p), Cat(w, Cat(Plus(c,TRUE), Cat(LitStr(s), Look("eot")))))) :
               p \in {<<sa>>, <<sa,sb>>}, w \in {Star(Dot,TRUE), Plus(Dot,TRUE)},
               c \in {Cls({ssp,snl}), Cls({sa,snl,ssp}), Cls({sb,s0})}, s \in {<<sb>>, <<sb,sa>>}}

FamilySetX(f) == IF f = "ANC2" THEN ANC2(0) ELSE IF f = "ANC3" THEN ANC3(0) ELSE FamilySet(f)
=============================================================================
