------------------------------ MODULE DFACache ------------------------------
(***************************************************************************)
(* The byte-accounted lazy-DFA cache (dfa/lazy/cache.go: Insert,           *)
(* MemoryUsage, ClearKeepMemory; dfa/lazy/lazy.go: determinize,            *)
(* tryClearCache) as a protocol - C20 (bounded memory), C05 (the           *)
(* clear/resume loop is bounded), C14.                                     *)
(*                                                                         *)
(*   Insert(sz)  allowed only while usage < capacity                       *)
(*   Full        usage >= capacity: if clears < MaxClears the cache is     *)
(*               cleared (everything dropped, one start state re-inserted) *)
(*               and the search resumes; otherwise the search yields to    *)
(*               the NFA                                                   *)
(* The clear counter is never reset (ResetClearCount has no caller): once  *)
(* the budget is used up every later search that fills the cache yields to *)
(* the NFA at once - memory stays bounded either way.                      *)
(***************************************************************************)
EXTENDS Integers, FiniteSets, TLC

CONSTANTS Cap,        \* capacity in bytes
          Sizes,      \* possible sizes of one cached state
          Base,       \* usage of an empty cache with its start state
          MaxClears,
          MaxOps      \* bound on the history

MaxSize == CHOOSE s \in Sizes : \A t \in Sizes : t <= s
VARIABLES usage, clears, mode, ops
vars == <<usage, clears, mode, ops>>

Init == usage = Base /\ clears = 0 /\ mode = "dfa" /\ ops = 0
Insert(sz) == /\ mode = "dfa" /\ usage < Cap /\ ops < MaxOps
              /\ usage' = usage + sz /\ ops' = ops + 1 /\ UNCHANGED <<clears, mode>>
Clear   == /\ mode = "dfa" /\ usage >= Cap /\ clears < MaxClears
           /\ usage' = Base /\ clears' = clears + 1 /\ UNCHANGED <<mode, ops>>
GiveUp  == /\ mode = "dfa" /\ usage >= Cap /\ clears >= MaxClears
           /\ mode' = "nfa" /\ UNCHANGED <<usage, clears, ops>>
NewSearch == /\ mode = "nfa" /\ ops < MaxOps /\ mode' = "dfa" /\ ops' = ops + 1 /\ UNCHANGED <<usage, clears>>
Next == (\E sz \in Sizes : Insert(sz)) \/ Clear \/ GiveUp \/ NewSearch
Spec == Init /\ [][Next]_vars /\ WF_vars(Clear) /\ WF_vars(GiveUp)

\* C20: never more than one state over the capacity
Bounded == usage <= Cap + MaxSize /\ usage <= (IF Base > Cap THEN Base ELSE Cap) + MaxSize
ClearsBounded == clears <= MaxClears
\* a full cache is always resolved (cleared or abandoned), never spun on
FullResolved == [](usage >= Cap /\ mode = "dfa" => <>(usage < Cap \/ mode = "nfa"))
=============================================================================
