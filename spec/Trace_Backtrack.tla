------------------------------ MODULE Trace_Backtrack ------------------------------
(***************************************************************************)
(* Trace validation of the bounded backtracker's visited-table protocol    *)
(* (hook H-bt) against the repaired design of spec/Backtrack.tla           *)
(* (WrapClears = "cap"), at the real generation modulus.                   *)
(*                                                                         *)
(* Events (emitted after the state change):                                *)
(*   new      harness: a fresh BacktrackerState                            *)
(*   reset    need, capBefore, realloc, gen, cleared, numStates, hlen,     *)
(*            capAfter, maxVisited                                         *)
(*   attempt  rel (start position relative to the span), gen               *)
(*   bump     gen, cleared                                                 *)
(* The model recomputes every logged field from its own state; unlogged    *)
(* state (nothing here) would be inferred by TLC.  In particular:          *)
(*   - realloc happens iff the capacity is too small, and resets gen;      *)
(*   - the generation advances by exactly one, modulo G;                   *)
(*   - on overflow the WHOLE capacity is cleared (Backtrack!NoStale needs  *)
(*     exactly this), and nothing is cleared otherwise;                    *)
(*   - C20: need <= maxVisited, live length <= capacity.                   *)
(***************************************************************************)
EXTENDS Integers, Sequences, TLC, Json

CONSTANTS TraceFile, G
Trace == ndJsonDeserialize(TraceFile)

VARIABLES l, cap, len, gen, start, active
vars == <<l, cap, len, gen, start, active>>

Init == l = 1 /\ cap = 0 /\ len = 0 /\ gen = 0 /\ start = 0 /\ active = FALSE
IsEvent(e) == l <= Len(Trace) /\ Trace[l].ev = e /\ l' = l + 1

New == /\ IsEvent("new") /\ cap' = 0 /\ len' = 0 /\ gen' = 0 /\ start' = 0 /\ active' = FALSE

Reset == /\ IsEvent("reset")
         /\ LET e == Trace[l]
                need == e.ns * (e.hlen + 1)
                realloc == cap < need
                g1 == ((IF realloc THEN 0 ELSE gen) + 1) % G
            IN /\ e.need = need /\ e.capb = cap
               /\ e.realloc = (IF realloc THEN 1 ELSE 0)
               /\ (IF realloc THEN e.capa >= need ELSE e.capa = cap)
               /\ need <= e.maxv /\ e.capa <= e.maxv    \* C20: neither the live table nor its capacity exceeds the cap
               /\ IF g1 = 0 THEN e.gen = 1 /\ e.cleared = e.capa ELSE e.gen = g1 /\ e.cleared = 0
               /\ cap' = e.capa /\ len' = need /\ gen' = e.gen
         /\ start' = 0 /\ active' = TRUE

Attempt == /\ IsEvent("attempt") /\ active
           /\ Trace[l].rel = start /\ Trace[l].gen = gen
           /\ UNCHANGED <<cap, len, gen, start, active>>

Bump == /\ IsEvent("bump") /\ active
        /\ LET g1 == (gen + 1) % G IN
           IF g1 = 0 THEN Trace[l].gen = 1 /\ Trace[l].cleared = cap
                     ELSE Trace[l].gen = g1 /\ Trace[l].cleared = 0
        /\ gen' = Trace[l].gen /\ start' = start + 1
        /\ UNCHANGED <<cap, len, active>>

Next == New \/ Reset \/ Attempt \/ Bump
Spec == Init /\ [][Next]_vars
Bounded == len <= cap
Accepted == TLCGet("stats").diameter - 1 = Len(Trace)
=============================================================================
