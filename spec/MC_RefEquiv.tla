------------------------------ MODULE MC_RefEquiv ------------------------------
(***************************************************************************)
(* The two formulations of the reference semantics define the same         *)
(* function: RegexPike!PikeFind (iterative, one step per symbol) equals    *)
(* RegexRef!FindP (regexp's backtracker) - spans AND capture slots - for   *)
(* every pattern of a family shard, every haystack over its alphabet up    *)
(* to the length budget, every start offset, both match modes.             *)
(***************************************************************************)
EXTENDS Universe, RegexPike

CONSTANTS Family, Shard, NShards, Budget, LCap

Base  == IF IsG2(Family) THEN G2Base(Family) ELSE SetToSeq(FamilySet(Family))
USize == IF IsG2(Family) THEN D2Size(Base) ELSE Len(Base)
UAt(i) == IF IsG2(Family) THEN D2At(Base, i) ELSE Base[i]
Idx == {i \in 1..USize : i % NShards = Shard}

VARIABLES idx, bad
Check(i) ==
  LET re   == UAt(i)
      rn   == Number(re, 1)
      prog == Prog(Simp(rn))
      nc   == NCaps(re)
      al   == Alphabet(re, MBFor(i), ILLFor(i))
      L    == LenFor(Cardinality(al), Budget, LCap)
      H    == SeqsUpTo(al, L)
  IN {<<h, at, lg>> \in {<<h, at, lg>> : h \in H, at \in 1..(LCap + 1), lg \in BOOLEAN} :
        at <= Len(h) + 1 /\ PikeFind(prog, nc, h, at, lg) # FindP(prog, nc, h, at, lg)}

Init == idx \in Idx /\ bad = {}
Next == bad = {} /\ idx > 0 /\ bad' = Check(idx) /\ idx' = -idx
Spec == Init /\ [][Next]_<<idx, bad>>
Equivalent == bad = {}
=============================================================================
