------------------------------ MODULE MC_OnePass ------------------------------
(* For every pattern of a family shard: is it one-pass (OnePass!IsOnePass)?  If so, on every haystack the one-pass
   search either reports nothing or exactly the reference's leftmost-first match anchored at 0, with all capture
   slots (Exact).  One record per pattern is printed for the conformance harness (real Build / real Search). *)
EXTENDS Universe, OnePass, Json

CONSTANTS Family, Shard, NShards, Budget, LCap,
          Guards,      \* {"prio","look"} = the construction as repaired; dropping one is a negative control
          Merge        \* "first" (repaired) | "union" (negative control: the defect found with this model)

Base  == IF IsG2(Family) THEN G2Base(Family) ELSE SetToSeq(FamilySet(Family))
USize == IF IsG2(Family) THEN D2Size(Base) ELSE Len(Base)
UAt(i) == IF IsG2(Family) THEN D2At(Base, i) ELSE Base[i]
Idx == {i \in 1..USize : i % NShards = Shard} \cup {0}

VARIABLES idx, out, bad
vars == <<idx, out, bad>>

Eval(i) ==
  LET re   == UAt(i)
      rn   == Number(re, 1)
      prog == Prog(Simp(rn))
      nc   == NCaps(re)
      al   == Alphabet(re, MBFor(i), ILLFor(i))
      L    == LenFor(Cardinality(al), Budget, LCap)
      H    == SetToSeq(SeqsUpTo(al, L))
      op   == IsOnePass(prog, Guards)
      res  == [j \in 1..Len(H) |-> IF op THEN OPSearch(prog, nc, H[j], Guards, Merge) ELSE <<>>]
  IN [rec |-> [fam |-> Family, i |-> i, re |-> rn, nc |-> nc, names |-> Names(rn), op |-> op,
               hs |-> [j \in 1..Len(H) |-> [h |-> H[j], ops |-> ToOff(H[j], res[j])]]],
      bad |-> {j \in 1..Len(H) : res[j] # <<>> /\ res[j] # AnchoredP(prog, nc, H[j], 1)}]

Init == idx \in Idx /\ out = <<>> /\ bad = {}
Next == /\ out = <<>>
        /\ IF idx = 0 THEN out' = [sym |-> Sym, fam |-> Family] /\ bad' = {}
           ELSE LET e == Eval(idx) IN out' = e.rec /\ bad' = e.bad
        /\ UNCHANGED idx
Spec == Init /\ [][Next]_vars
Emit == out = <<>> \/ (Assert(bad = {}, <<"one-pass search differs from the reference", idx, bad>>) /\ PrintT(ToJson(out)))
Exact == bad = {}
=============================================================================
