------------------------------ MODULE MC_Simd ------------------------------
(***************************************************************************)
(* C18 model check + generator.                                            *)
(*                                                                         *)
(* Abstract haystacks: sequences of length n \in 0..3W+1 over the cell     *)
(* classes 0 = filler, 1,2,3 = hit kinds, 4,5 = near-miss fillers, with at *)
(* most MaxHits non-filler cells.  For every abstract haystack TLC         *)
(*  (1) checks, for every alignment a \in 0..W-1 and every tail mode in    *)
(*      TailModes, that the block-scan models of Simd.tla return the       *)
(*      scalar definition and read only inside 1..n (Assert: a failure     *)
(*      stops TLC with the offending case), and that the candidate/verify  *)
(*      substring search equals Memmem for every choice of rare positions; *)
(*  (2) prints one JSON record with the value of the scalar definition of  *)
(*      every primitive on the haystack under every byte palette (class    *)
(*      -> real byte value).  The harness (vh simd) stretches the record   *)
(*      to the real vector widths 16/32/64.                                *)
(* One record stands for the W abstract cases (n, a, h), a \in 0..W-1      *)
(* (field "al"): scalar values do not depend on the alignment.             *)
(***************************************************************************)
EXTENDS Simd, TLC, Json, SequencesExt

CONSTANTS W,           \* abstract vector width (2 or 4)
          MaxHits,     \* at most this many non-filler cells
          TailModes,   \* subset of TailModesOK for checking; a member of TailModesBad must make TLC fail
          Shard, NShards

NMax == 3 * W + 1
D    == 2 * W + 1      \* pair offsets 0..D

(* ------------------------------ universe -------------------------------- *)
HaysN(n) == UNION { { [i \in 1..n |-> IF i \in P THEN k[i] ELSE 0] : k \in [P -> 1..5] }
                    : P \in {Q \in SUBSET (1..n) : Cardinality(Q) <= MaxHits} }
\* SWAR borrow shapes for the pair scan (more non-filler cells than MaxHits allows): hit1 directly followed by its near miss
\* (needle^1: the zero-byte trick marks it falsely), hit2 where the false marker is confirmed, and a real pair later in the same
\* machine word - the scan must examine every marker of a word, not only the lowest
BorrowCell(i, s, d, r) == IF i = s + 1 THEN 1 ELSE IF i = s + 2 THEN 4 ELSE IF i = s + 2 + d THEN 2
                          ELSE IF i = s + r + 1 THEN 1 ELSE IF i = s + r + 1 + d THEN 2 ELSE 0
Borrow == IF W < 4 THEN {}
          ELSE {[i \in 1..n |-> BorrowCell(i, t[1], t[2], t[3])] :
                  t \in {u \in (0..3) \X (1..3) \X (3..6) : u[1] + u[3] + 1 + u[2] <= NMax}, n \in {9, 11, NMax}}
Cases == SetToSeq(UNION {HaysN(n) : n \in 0..NMax} \cup {h \in Borrow : \A t \in DOMAIN h : TRUE})
Idx   == {i \in 1..Len(Cases) : i % NShards = Shard} \cup {0}

(* palettes: byte value of <<filler, hit1, hit2, hit3, nearmiss1, nearmiss2>> *)
Pals == <<
  [name |-> "byteA",    b |-> <<97, 120, 81, 128, 121, 248>>],   \* x Q 0x80 ; y = x^1, 0xF8 = x^0x80
  [name |-> "byteB",    b |-> <<255, 0, 254, 127, 1, 128>>],     \* extreme byte values
  [name |-> "byteC",    b |-> <<0, 1, 2, 255, 3, 129>>],         \* filler 0x00, needle 0x01 (SWAR borrow)
  [name |-> "digitA",   b |-> <<97, 48, 57, 53, 47, 58>>],       \* 0 9 5 ; '/' ':'
  [name |-> "digitB",   b |-> <<176, 57, 48, 49, 185, 58>>],     \* filler '0'|0x80, near miss '9'|0x80
  [name |-> "wordA",    b |-> <<32, 65, 90, 95, 64, 91>>],       \* A Z _ ; '@' '['
  [name |-> "wordB",    b |-> <<128, 97, 122, 48, 96, 123>>],    \* a z 0 ; '`' '{'
  [name |-> "wordC",    b |-> <<255, 57, 95, 109, 47, 58>>],     \* 9 _ m ; '/' ':'
  [name |-> "wordD",    b |-> <<0, 95, 53, 81, 94, 96>>],        \* _ 5 Q ; '^' '`'
  [name |-> "notwordA", b |-> <<109, 64, 91, 128, 65, 90>>],     \* filler m ; hits '@' '[' 0x80 ; near misses A Z
  [name |-> "notwordB", b |-> <<95, 96, 123, 47, 97, 122>>],     \* filler _ ; hits '`' '{' '/' ; a z
  [name |-> "notwordC", b |-> <<48, 58, 255, 0, 57, 95>>],       \* filler 0 ; hits ':' 0xFF 0x00 ; 9 _
  [name |-> "asciiA",   b |-> <<97, 128, 255, 195, 127, 0>>],    \* hits 0x80 0xFF 0xC3 ; 0x7F 0x00
  [name |-> "asciiB",   b |-> <<127, 169, 128, 254, 126, 1>>] >>

\* needles of the pair search and of the substring search, as class sequences
PairK == << <<1, 2>>, <<1, 1>>, <<2, 1>>, <<1, 4>>, <<3, 3>> >>
MemK  == << <<>>, <<1>>, <<1, 2>>, <<1, 1>>, <<2, 1>>, <<1, 4>>, <<1, 0, 2>>, <<1, 0, 1>>, <<1, 2, 3>>, <<1, 1, 1>>,
            <<1, 0, 0, 2>>, <<2, 0, 0, 0, 0, 0, 1>>, <<1, 0, 0, 0, 0, 0, 0, 1>> >>
\* needle classes of Memchr / Memchr2 / Memchr3
M1K == << <<1>>, <<2>>, <<3>> >>
M2K == << <<1, 2>>, <<2, 3>>, <<1, 1>> >>
M3K == << <<1, 2, 3>>, <<1, 1, 2>>, <<3, 3, 3>> >>

(* ------------------------------ theorems -------------------------------- *)
\* hit-class sets of the single-load scans: one needle, two, three / a class, and a negated class
HitSets == { {1}, {1, 2}, {1, 2, 3}, {0, 4, 5} }
Pos(h, S) == {p \in 0..(Len(h) - 1) : h[p+1] \in S}

ScanOK(h) ==
  LET n == Len(h) IN
  \A a \in 0..(W-1) : \A mode \in TailModes :
    /\ \A S \in HitSets :
         LET r == BlockScan(n, a, W, mode, Pos(h, S))
         IN /\ Assert(r.res = MemchrInTable(h, S), <<"BlockScan # scalar", h, a, mode, S, r.res>>)
            /\ Assert(r.reads \subseteq 1..n, <<"BlockScan reads outside the slice", h, a, mode, S, r.reads>>)
    /\ \A S \in {{1}, {1, 2, 3}} :
         LET r == CountScan(n, a, W, mode, Pos(h, S))
         IN /\ Assert(r.res = CountIn(h, S), <<"CountScan # scalar", h, a, mode, S, r.res>>)
            /\ Assert(r.reads \subseteq 1..n, <<"CountScan reads outside the slice", h, a, mode, S, r.reads>>)
    /\ \A k \in 1..2 : \A d \in 1..D :       \* different bytes, equal bytes
         LET r == PairScan(n, a, d, W, mode, Pos(h, {PairK[k][1]}), Pos(h, {PairK[k][2]}))
         IN /\ Assert(r.res = MemchrPair(h, PairK[k][1], PairK[k][2], d), <<"PairScan # scalar", h, a, mode, k, d, r.res>>)
            /\ Assert(r.reads \subseteq 1..n, <<"PairScan reads outside the slice", h, a, mode, k, d, r.reads>>)

CandOK(h) ==
  \A k \in DOMAIN MemK :
    LET nd   == MemK[k]
        want == Memmem(h, nd)
    IN \A i1 \in 0..(Len(nd) - 1) : \A d \in 0..(Len(nd) - 1 - i1) :
         Assert(MemmemViaPair(h, nd, i1, d) = want, <<"candidate/verify # Memmem", h, nd, i1, d>>)

\* facts the stretching of the harness relies on (hb = the haystack under a palette, b1 b2 = two of its hit bytes)
DefsOK(hb, b1, b2) ==
  /\ Assert(MemchrPair(hb, b1, b1, 0) = Memchr(hb, b1), "pair offset 0")
  /\ Assert(b1 # b2 => MemchrPair(hb, b1, b2, 0) = 0 - 1, "pair offset 0, different bytes")
  /\ Assert(MemchrPair(hb, b1, b2, 0 - 1) = 0 - 1, "negative pair offset")
  /\ Assert(Memmem(hb, <<>>) = 0, "empty needle")
  /\ Assert(Memmem(hb, <<b1>>) = Memchr(hb, b1), "one-byte needle")
  /\ Assert(Memmem(hb, <<b1, b2>>) = MemchrPair(hb, b1, b2, 1), "two-byte needle")
  /\ Assert(MemchrDigitAt(hb, 0) = MemchrDigit(hb), "DigitAt 0")
  /\ Assert(IsASCII(hb) <=> FirstNonASCII(hb) = 0 - 1, "IsASCII/FirstNonASCII")
  /\ Assert(IsASCII(hb) <=> CountNonASCII(hb) = 0, "IsASCII/CountNonASCII")
  /\ Assert(MemchrWord(hb) = MemchrInTable(hb, WordSet), "word table")
  /\ Assert(MemchrNotWord(hb) = MemchrNotInTable(hb, WordSet), "not-word table")

(* ------------------------------ records --------------------------------- *)
B(pal, ks) == [j \in DOMAIN ks |-> pal[ks[j] + 1]]      \* class sequence -> byte sequence

PalRec(h, pal) ==
  LET hb == B(pal, h)
      n  == Len(h)
      tb == {pal[2], pal[3], pal[4]}
  IN [ m    |-> [k \in DOMAIN M1K |-> Memchr(hb, pal[M1K[k][1] + 1])],
       m2   |-> [k \in DOMAIN M2K |-> Memchr2(hb, pal[M2K[k][1] + 1], pal[M2K[k][2] + 1])],
       m3   |-> [k \in DOMAIN M3K |-> Memchr3(hb, pal[M3K[k][1] + 1], pal[M3K[k][2] + 1], pal[M3K[k][3] + 1])],
       pair |-> [k \in DOMAIN PairK |-> [d1 \in 1..(D+1) |-> MemchrPair(hb, pal[PairK[k][1] + 1], pal[PairK[k][2] + 1], d1 - 1)]],
       mem  |-> [k \in DOMAIN MemK |-> Memmem(hb, B(pal, MemK[k]))],
       tin  |-> MemchrInTable(hb, tb),
       tnot |-> MemchrNotInTable(hb, (0..255) \ tb),
       tnf  |-> MemchrNotInTable(hb, {pal[1]}),
       dig  |-> MemchrDigit(hb),
       digat |-> [t1 \in 1..(n+3) |-> MemchrDigitAt(hb, t1 - 2)],
       word |-> MemchrWord(hb),
       nword |-> MemchrNotWord(hb),
       asc  |-> IsASCII(hb),
       cnt  |-> CountNonASCII(hb),
       fna  |-> FirstNonASCII(hb) ]

Rec(i) ==
  IF i = 0
  THEN [hdr |-> TRUE, w |-> W, d |-> D, nmax |-> NMax, maxhits |-> MaxHits, ncases |-> Len(Cases),
        modes |-> SetToSeq(TailModes), pals |-> Pals, pairk |-> PairK, memk |-> MemK, m1k |-> M1K, m2k |-> M2K, m3k |-> M3K]
  ELSE LET h == Cases[i]
       IN IF ScanOK(h) /\ CandOK(h) /\ (\A q \in DOMAIN Pals : DefsOK(B(Pals[q].b, h), Pals[q].b[2], Pals[q].b[3]))
          THEN [i |-> i, w |-> W, n |-> Len(h), h |-> h, al |-> [a1 \in 1..W |-> a1 - 1],
                p |-> [q \in DOMAIN Pals |-> PalRec(h, Pals[q].b)]]
          ELSE [i |-> i, w |-> W, n |-> Len(h), h |-> h, al |-> <<>>, p |-> <<>>]

VARIABLES idx, out
vars == <<idx, out>>

Init == idx \in Idx /\ out = <<>>
Next == out = <<>> /\ out' = Rec(idx) /\ UNCHANGED idx
Spec == Init /\ [][Next]_vars
Emit == out = <<>> \/ PrintT(ToJson(out))
=============================================================================
