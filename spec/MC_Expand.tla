------------------------------ MODULE MC_Expand ------------------------------
(***************************************************************************)
(* Generator for Expand / ExpandString (C08): every template of length     *)
(* <= MaxLen over a token alphabet, against a few capture environments on  *)
(* a fixed source text.  Also checks two theorems of the template          *)
(* semantics: "$$" always yields one "$"; a template without "$" is        *)
(* copied verbatim.                                                        *)
(***************************************************************************)
EXTENDS RegexAPI, SequencesExt, Json

CONSTANTS MaxLen, Shard, NShards

\* token alphabet (bytes):  $ { } 0 1 2 n _ x
Tok == <<36, 123, 125, 48, 49, 50, 110, 95, 120>>
RECURSIVE Tmpls(_)
Tmpls(n) == IF n = 0 THEN {<<>>} ELSE Tmpls(n-1) \cup [1..n -> {Tok[i] : i \in DOMAIN Tok}]

\* source text "abcde" as symbols a b c x 0 ; environments: slot vectors in symbol positions (0 = unset)
Src == <<1, 2, 3, 4, 5>>
Envs == << [m |-> <<1,4, 1,2, 2,4>>,        names |-> << <<>>, <<110>>, <<>> >>],          \* (?P<n>a)(bc)
           [m |-> <<2,6, 0,0, 3,3>>,        names |-> << <<>>, <<>>, <<110,95,120>> >>],   \* group 1 unset, group 2 empty, named n_x
           [m |-> <<1,1>>,                  names |-> << <<>> >>],                         \* no groups, empty match
           [m |-> <<1,6, 1,2, 2,3, 3,4, 4,5, 5,6, 1,3, 2,4, 3,5, 4,6, 1,6, 2,6>>,          \* 11 groups: $10, $11 exist
            names |-> << <<>>, <<>>, <<>>, <<>>, <<>>, <<>>, <<>>, <<>>, <<>>, <<>>, <<120>>, <<49,120>> >>],
           \* one name on two groups, as in (?P<n>a)x|(?P<n>b)y: $n is the FIRST group of that name that took part in the match
           [m |-> <<1,4, 0,0, 2,4, 1,2>>,   names |-> << <<>>, <<110>>, <<110>>, <<120>> >>],
           [m |-> <<1,4, 1,2, 2,4, 0,0>>,   names |-> << <<>>, <<110>>, <<110>>, <<110>> >>] >>

T == SetToSeq(Tmpls(MaxLen))
Idx == {i \in 1..Len(T) : i % NShards = Shard} \cup {0}

VARIABLES idx, out
vars == <<idx, out>>

NoDollar(t) == \A i \in DOMAIN t : t[i] # 36
Rec(i) ==
  IF i = 0 THEN [sym |-> Sym, fam |-> "EXPAND", src |-> Src, envs |-> [e \in DOMAIN Envs |-> [m |-> ToOff(Src, Envs[e].m), names |-> Envs[e].names]]]
  ELSE LET t == T[i]
           outs == [e \in DOMAIN Envs |-> Expand(t, Src, Envs[e].m, Envs[e].names)]
       IN IF /\ Assert(NoDollar(t) => \A e \in DOMAIN Envs : outs[e] = t, <<"verbatim", t>>)
             /\ Assert(\A e \in DOMAIN Envs : Expand(<<36,36>> \o t, Src, Envs[e].m, Envs[e].names) = <<36>> \o outs[e], <<"$$", t>>)
          THEN [fam |-> "EXPAND", i |-> i, t |-> t, outs |-> outs]
          ELSE [fam |-> "EXPAND", i |-> i, t |-> t, outs |-> outs]

Init == idx \in Idx /\ out = <<>>
Next == out = <<>> /\ out' = Rec(idx) /\ UNCHANGED idx
Spec == Init /\ [][Next]_vars
Emit == out = <<>> \/ PrintT(ToJson(out))
=============================================================================
