------------------------------ MODULE Trace_Pool ------------------------------
(***************************************************************************)
(* Trace validation of the search-state hand-off and of scratch ownership  *)
(* (C06, C20) for executions recorded through hooks H-pool / H-scr while   *)
(* the harness replays a TLC-chosen interleaving with gates.               *)
(*                                                                         *)
(* Events (in execution order - the gates serialise the goroutines):       *)
(*   begin n          new trace: fresh Regex, n goroutines                 *)
(*   swap g s         localState.Swap(nil) returned state s (0 = nil)      *)
(*   new  g s         sync.Pool's New created state s                      *)
(*   get  g s         statePool.get() returned s                           *)
(*   scr  g obj kind  goroutine g starts using mutable scratch object obj  *)
(*   at   g          g stands before a pool operation (left any scratch entry) *)
(*   cas  g s ok      CompareAndSwap(nil, s) ; ok = 1 iff it succeeded     *)
(*   put  g s         statePool.put(s)                                     *)
(*   gc               the harness forced garbage collections               *)
(*   end  g           a call of g returned (emitted by the goroutine)       *)
(*   ret  g ok        ok = 1 iff that call's result = sequential result    *)
(* The actions are those of spec/Pool.tla with state identities.           *)
(* Scratch exclusivity: the hook emits `scr` at the ENTRY of a search on   *)
(* the object and then parks at a gate; if the goroutine's next event has  *)
(* not happened yet it is still inside that entry.  The replay leaves      *)
(* goroutines parked there while others run, so using[g] = the object g is *)
(* entering right now, and no other goroutine may enter it meanwhile.      *)
(* (An object taken from a sync.Pool inside a search and given back before *)
(* the call returns may legitimately serve another call later: ownership   *)
(* "until the call returns" would be a false alarm - it was one, see       *)
(* DESIGN 7.3.)                                                            *)
(***************************************************************************)
EXTENDS Integers, Sequences, FiniteSets, TLC, Json

CONSTANT TraceFile
Trace == ndJsonDeserialize(TraceFile)
MaxG == 8
Gs == 1..MaxG

VARIABLES l, local, pool, held, using, known, fresh, pat
vars == <<l, local, pool, held, using, known, fresh, pat>>
\* using[g]: the scratch object g is entering right now ({} once g has moved on)
\* known: states ever seen; fresh[g]: state just created by New for g's pending get

\* held[g] is a SET: a call may acquire a second state while it holds one (an API built on another API)
Init == /\ l = 1 /\ local = 0 /\ pool = {} /\ held = [g \in Gs |-> {}] /\ using = [g \in Gs |-> {}]
        /\ known = {} /\ fresh = [g \in Gs |-> 0] /\ pat = ""
IsEvent(e) == l <= Len(Trace) /\ Trace[l].ev = e /\ l' = l + 1
E == Trace[l]

Begin == /\ IsEvent("begin")
         /\ local' = 0 /\ pool' = {} /\ held' = [g \in Gs |-> {}] /\ using' = [g \in Gs |-> {}]
         /\ known' = {} /\ fresh' = [g \in Gs |-> 0] /\ pat' = E.pat

Swap == /\ IsEvent("swap")
        /\ E.s = local                                  \* what Swap returns is what the slot held
        /\ local' = 0 /\ held' = [held EXCEPT ![E.g] = IF E.s = 0 THEN @ ELSE @ \cup {E.s}]
        /\ using' = [using EXCEPT ![E.g] = {}]
        /\ UNCHANGED <<pool, known, fresh, pat>>

New == /\ IsEvent("new") /\ E.s \notin known
       /\ known' = known \cup {E.s} /\ fresh' = [fresh EXCEPT ![E.g] = E.s]
       /\ using' = [using EXCEPT ![E.g] = {}]
       /\ UNCHANGED <<local, pool, held, pat>>

Get == /\ IsEvent("get")
       /\ \/ (E.s = fresh[E.g] /\ pool' = pool)          \* the pool missed and made a new state
          \/ (E.s \in pool /\ fresh[E.g] = 0 /\ pool' = pool \ {E.s})
       /\ held' = [held EXCEPT ![E.g] = @ \cup {E.s}] /\ fresh' = [fresh EXCEPT ![E.g] = 0]
       /\ known' = known \cup {E.s}
       /\ using' = [using EXCEPT ![E.g] = {}]
       /\ UNCHANGED <<local, pat>>

\* exclusive scratch: no other goroutine is inside the entry of this object.  A violation is REPORTED (one JSON
\* line) instead of disabling the action, so that the rest of the recorded executions is still validated.
Scr == /\ IsEvent("scr")
       /\ (\E h \in Gs : h # E.g /\ E.obj \in using[h]) =>
              PrintT(ToJson([viol |-> "scratch-shared", pat |-> pat, line |-> l, g |-> E.g, kind |-> E.kind]))
       /\ using' = [using EXCEPT ![E.g] = {E.obj}]
       /\ UNCHANGED <<local, pool, held, known, fresh, pat>>

Release(g, st) == /\ held' = [held EXCEPT ![g] = @ \ {st}]
                  /\ using' = [using EXCEPT ![g] = {}]
Cas == /\ IsEvent("cas") /\ E.s \in held[E.g]
       /\ E.ok = (IF local = 0 THEN 1 ELSE 0)
       /\ IF E.ok = 1 THEN local' = E.s /\ Release(E.g, E.s)
                      ELSE UNCHANGED <<local, held>> /\ using' = [using EXCEPT ![E.g] = {}]
       /\ UNCHANGED <<pool, known, fresh, pat>>

Put == /\ IsEvent("put") /\ E.s \in held[E.g]
       /\ pool' = pool \cup {E.s} /\ Release(E.g, E.s)
       /\ UNCHANGED <<local, known, fresh, pat>>

\* after a collection sync.Pool may have dropped any of its entries
GC == /\ IsEvent("gc") /\ pool' \in SUBSET pool
      /\ UNCHANGED <<local, held, using, known, fresh, pat>>

\* a call returned: everything it acquired has been handed back, and it no longer uses any scratch
CallEnd == /\ IsEvent("end") /\ held[E.g] = {}
           /\ using' = [using EXCEPT ![E.g] = {}]
           /\ UNCHANGED <<local, pool, held, known, fresh, pat>>

At == /\ IsEvent("at")
      /\ using' = [using EXCEPT ![E.g] = {}]
      /\ UNCHANGED <<local, pool, held, known, fresh, pat>>

Ret == /\ IsEvent("ret") /\ E.ok = 1                    \* the call returned its sequential result
       /\ UNCHANGED <<local, pool, held, using, known, fresh, pat>>

Next == Begin \/ Swap \/ New \/ Get \/ Scr \/ At \/ Cas \/ Put \/ GC \/ CallEnd \/ Ret
Spec == Init /\ [][Next]_vars

Exclusive == \A g, h \in Gs : g # h => held[g] \cap held[h] = {}
NotShared == \A g \in Gs : local \notin held[g] /\ held[g] \cap pool = {}
\* the trace spec branches only at gc; acceptance = some branch consumed every line
Accepted == TLCGet("stats").diameter - 1 = Len(Trace)
=============================================================================
