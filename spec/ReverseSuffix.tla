---------------------------- MODULE ReverseSuffix ----------------------------
(***************************************************************************)
(* The reverse-suffix search (meta/reverse_suffix.go) as an algorithm over *)
(* the reference semantics.  The pattern is  A.L  with a literal suffix L  *)
(* (S below) that every match ends with.  The code never runs the pattern  *)
(* from the left; it                                                       *)
(*   1. asks a prefilter for the next occurrence of S            (NextOcc) *)
(*   2. runs the REVERSE automaton of the whole pattern from the end of    *)
(*      that occurrence towards the search start and takes the smallest    *)
(*      start it reports                         (RevFull / RevLimited)    *)
(*   3. runs the forward automaton anchored at that start to get the end   *)
(*      the pattern prefers                                    (AnchoredP) *)
(*   4. on failure moves to the next occurrence, remembering how far the   *)
(*      reverse scans have already looked (minStart, the anti-quadratic    *)
(*      guard); a guarded scan that reaches the guard without a verdict    *)
(*      yields to the NFA ("Quadratic").                                   *)
(* The automata are taken to be exact (they are checked on their own, C14):*)
(* the reverse scan from e reports exactly the starts s with a match       *)
(* h[s..e).  What is modelled is the driver: candidate order, the guard,   *)
(* the rescan after a guarded hit, the `.*L` shortcut that needs no        *)
(* automaton, the three entry points Find / FindAt / IsMatch with their    *)
(* early exits.  Positions are 1-based symbol positions, ends exclusive.   *)
(*                                                                         *)
(* Variant = "code"      the driver as it is in the repository             *)
(*           "norescan"  a guarded hit is taken as it is (repaired defect: *)
(*                       the start was truncated at the guard)             *)
(*           "rescaneq"  rescan only when the guarded hit lies ON the guard  *)
(*                       (a seeded change: a hit above the guard can still *)
(*                       hide a start below it)                            *)
(*           "lastcand"  Find starts from the LAST occurrence (repaired    *)
(*                       defect: rightmost instead of leftmost match)      *)
(***************************************************************************)
EXTENDS RegexRef

CONSTANT Variant

MinOf(T) == CHOOSE x \in T : \A y \in T : x <= y
MaxOf(T) == CHOOSE x \in T : \A y \in T : x >= y
Two(m) == IF m = <<>> THEN <<>> ELSE <<m[1], m[2]>>

(* ------------------------------ the prefilter ---------------------------- *)
OccursAt(S, h, p) == p >= 1 /\ p + Len(S) - 1 <= Len(h) /\ \A k \in 1..Len(S) : h[p+k-1] = S[k]
NextOcc(S, h, from) ==           \* 0 = none
  LET c == {p \in from..(Len(h) - Len(S) + 1) : OccursAt(S, h, p)} IN IF c = {} THEN 0 ELSE MinOf(c)
LastOccIn(S, h, lo, hi) ==       \* last occurrence that lies inside positions lo..hi-1; 0 = none
  LET c == {p \in lo..(hi - Len(S)) : OccursAt(S, h, p)} IN IF c = {} THEN 0 ELSE MaxOf(c)

(* ----------------------------- reverse automaton ------------------------- *)
Starts(prog, h, lo, e) == {s \in lo..e : e \in EndsP(prog, h, s)}
\* some thread of the reverse automaton is alive after it has read h[a..e): a state of the pattern from which
\* h[a..e) leads to the final state
Alive(prog, h, a, e) ==
  \E pc \in DOMAIN prog : \E y \in EndsAcc(prog, h, pc, a, {}) : prog[y[1]].op = "match" /\ y[2] = e

Quadratic == -1
\* lazy.DFA.SearchReverse(h, lo, e): smallest start, 0 = none (an empty region is refused)
RevFull(prog, h, lo, e) ==
  IF e <= lo THEN 0 ELSE LET T == Starts(prog, h, lo, e) IN IF T = {} THEN 0 ELSE MinOf(T)
\* lazy.DFA.SearchReverseLimited(h, lo, e, minStart): the scan stops at max(lo, minStart)
RevLimited(prog, h, lo, e, minStart) ==
  IF e <= lo THEN 0
  ELSE LET lb == IF minStart > lo THEN minStart ELSE lo
           T  == Starts(prog, h, lb, e)
       IN IF T # {} THEN MinOf(T)
          ELSE IF lb > lo /\ \A a \in lb..(e-1) : Alive(prog, h, a, e) THEN Quadratic
          ELSE 0

(* ------------------------------ forward step ------------------------------ *)
\* forwardDFA.SearchAtAnchored from the start found; the NFA (unanchored from there) if the automaton declines
Forward(prog, nc, h, s) ==
  LET a == AnchoredP(prog, nc, h, s) IN IF a # <<>> THEN <<s, a[2]>> ELSE Two(FindP(prog, nc, h, s, FALSE))

(* --------------------- the `.*L` shortcut (matchStartZero) ---------------- *)
LineStart(h, at, pos) ==
  IF at >= pos THEN at
  ELSE LET c == {p \in at..(pos-1) : h[p] = NL} IN IF c = {} THEN at ELSE MaxOf(c) + 1
LineEnd(h, pos) == LET c == {p \in pos..Len(h) : h[p] = NL} IN IF c = {} THEN Len(h) + 1 ELSE MinOf(c)
DotStar(S, h, at, pos) ==
  LET ls == LineStart(h, at, pos)
      lp == LastOccIn(S, h, ls, LineEnd(h, pos))
  IN IF lp = 0 THEN <<>> ELSE <<ls, lp + Len(S)>>

(* ---------------------------------- FindAt -------------------------------- *)
RECURSIVE FindAtLoop(_,_,_,_,_,_,_,_)
FindAtLoop(prog, nc, S, msz, h, at, searchStart, minStart) ==
  LET pos == NextOcc(S, h, searchStart) IN
  IF pos = 0 THEN <<>>
  ELSE IF msz THEN DotStar(S, h, at, pos)
  ELSE LET sEnd == pos + Len(S)
           r    == RevLimited(prog, h, at, sEnd, minStart)
           ms   == IF r > 0 /\ minStart > at /\ Variant # "norescan" /\ (Variant = "rescaneq" => r = minStart)
                   THEN RevFull(prog, h, at, sEnd) ELSE r
       IN IF ms > 0 THEN Forward(prog, nc, h, ms)
          ELSE IF r = Quadratic THEN Two(FindP(prog, nc, h, at, FALSE))
          ELSE IF pos >= Len(h) THEN <<>>
          ELSE FindAtLoop(prog, nc, S, msz, h, at, pos + 1, sEnd)

RSFindAt(prog, nc, S, msz, h, at) ==
  IF at > Len(h) THEN <<>> ELSE FindAtLoop(prog, nc, S, msz, h, at, at, at)

(* ----------------------------------- Find --------------------------------- *)
RECURSIVE FindLoop(_,_,_,_,_)
FindLoop(prog, nc, S, h, pos) ==
  IF pos = 0 THEN <<>>
  ELSE LET ms == RevFull(prog, h, 1, pos + Len(S))
           nx == IF Variant = "lastcand" THEN LastOccIn(S, h, 1, pos + Len(S) - 1) ELSE NextOcc(S, h, pos + 1)
       IN IF ms > 0 THEN Forward(prog, nc, h, ms) ELSE FindLoop(prog, nc, S, h, nx)

RSFind(prog, nc, S, msz, h) ==
  IF Len(h) = 0 THEN <<>>
  ELSE IF msz THEN RSFindAt(prog, nc, S, msz, h, 1)
  ELSE FindLoop(prog, nc, S, h, IF Variant = "lastcand" THEN LastOccIn(S, h, 1, Len(h) + 1) ELSE NextOcc(S, h, 1))

(* ---------------------------------- IsMatch ------------------------------- *)
RECURSIVE IsMatchLoop(_,_,_,_,_,_)
IsMatchLoop(prog, nc, S, h, start, minStart) ==
  LET pos == NextOcc(S, h, start) IN
  IF pos = 0 THEN FALSE
  ELSE LET e == pos + Len(S)
           r == RevLimited(prog, h, 1, e, minStart)
       IN IF r > 0 THEN TRUE
          ELSE IF r = Quadratic THEN FindP(prog, nc, h, 1, FALSE) # <<>>
          ELSE IF pos >= Len(h) THEN FALSE
          ELSE IsMatchLoop(prog, nc, S, h, pos + 1, e)

RSIsMatch(prog, nc, S, h) == IF Len(h) = 0 THEN FALSE ELSE IsMatchLoop(prog, nc, S, h, 1, 1)

(* ---- what the driver must deliver ---- *)
RefAt(prog, nc, h, at) == Two(FindP(prog, nc, h, at, FALSE))
=============================================================================
