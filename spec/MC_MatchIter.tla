------------------------------ MODULE MC_MatchIter ------------------------------
(* Bounded instance of MatchIter: every rune-width vector of a haystack of N bytes,
   every match landscape on it, every limit in MCLims. *)
EXTENDS MatchIter
MCLims == {-1, 0, 1, 2, 3}
\* history variables do not add behaviour; everything is relevant here, no VIEW needed
=============================================================================
