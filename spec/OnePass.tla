------------------------------ MODULE OnePass ------------------------------
(***************************************************************************)
(* The one-pass DFA as an algorithm over the reference program (C14, C01,  *)
(* C03): dfa/onepass/builder.go (epsilonClosureOnePass, buildTransitions)  *)
(* and search.go (Search).                                                 *)
(*                                                                         *)
(* A DFA state is one instruction of Prog(re) (the root: pc 1 or the       *)
(* target of a rune instruction); its row is derived from the root's       *)
(* epsilon closure, taken IN PRIORITY ORDER, each entry carrying the set   *)
(* of capture slots passed on the way.  The pattern is one-pass when       *)
(*   - no instruction is reached twice in one closure,                     *)
(*   - at most one match instruction is in it,                             *)
(*   - two rune instructions that accept a common symbol have the same     *)
(*     target,                                                             *)
(*   - (guard "prio") no rune instruction comes after the match            *)
(*     instruction: Search runs on to the end of the input and has no      *)
(*     "match wins" handling,                                              *)
(*   - (guard "look") only ^ / \A in the start state and $ / \z with       *)
(*     nothing consumable behind them: a row has no look-around context.   *)
(* Search walks the rows deterministically, applying the slots of the      *)
(* entry taken BEFORE consuming the symbol, and reports a match only when  *)
(* the whole input has been consumed.                                      *)
(*                                                                         *)
(* Merge says what a row does when two entries accept the same symbol      *)
(* into the same target:                                                   *)
(*   "first"  the entry of higher priority keeps its slots (the code       *)
(*            after the repair `fix: one-pass DFA keeps the slots ...`)    *)
(*   "union"  the slot sets are united (the code before it): TLC finds     *)
(*            ^(?:a|()a) on "a" - found here first, then reproduced.       *)
(* Guards is the set of guards in force; dropping "prio" or "look" are the *)
(* negative controls (both were defects repaired earlier).                 *)
(***************************************************************************)
EXTENDS RegexRef, TLC

\* is a rune instruction reachable from pc through empty transitions alone?
RECURSIVE Consumes(_,_,_)
Consumes(prog, pc, seen) ==         \* returns [yes, seen]
  IF pc \in seen THEN [yes |-> FALSE, seen |-> seen]
  ELSE LET s1 == seen \cup {pc}   i == prog[pc] IN
       CASE i.op = "rune"  -> [yes |-> TRUE, seen |-> s1]
         [] i.op = "match" -> [yes |-> FALSE, seen |-> s1]
         [] i.op = "alt"   -> LET l == Consumes(prog, i.out, s1)
                              IN IF l.yes THEN l ELSE Consumes(prog, i.arg, l.seen)
         [] OTHER          -> Consumes(prog, i.out, s1)

\* closure of pc in priority order; acc = [list, on, err]; list entries [pc, slots]
RECURSIVE OPClose(_,_,_,_,_,_)
OPClose(prog, pc, slots, acc, first, Guards) ==
  IF acc.err THEN acc
  ELSE IF pc \in acc.on THEN [acc EXCEPT !.err = TRUE]
  ELSE LET a1 == [acc EXCEPT !.on = @ \cup {pc}]   i == prog[pc] IN
       CASE i.op = "rune"  -> [a1 EXCEPT !.list = Append(@, [pc |-> pc, slots |-> slots])]
         [] i.op = "match" -> IF \E k \in DOMAIN a1.list : prog[a1.list[k].pc].op = "match"
                              THEN [a1 EXCEPT !.err = TRUE]
                              ELSE [a1 EXCEPT !.list = Append(@, [pc |-> pc, slots |-> slots])]
         [] i.op = "nop"   -> OPClose(prog, i.out, slots, a1, first, Guards)
         [] i.op = "cap"   -> OPClose(prog, i.out, slots \cup {i.n}, a1, first, Guards)
         [] i.op = "alt"   -> OPClose(prog, i.arg, slots, OPClose(prog, i.out, slots, a1, first, Guards), first, Guards)
         [] i.op = "look"  ->
              IF "look" \notin Guards THEN OPClose(prog, i.out, slots, a1, first, Guards)
              ELSE IF i.k \in {"bot", "bol"}
                   THEN (IF first THEN OPClose(prog, i.out, slots, a1, first, Guards) ELSE [a1 EXCEPT !.err = TRUE])
              ELSE IF i.k \in {"eot", "eol"}
                   THEN (IF Consumes(prog, i.out, {}).yes THEN [a1 EXCEPT !.err = TRUE]
                         ELSE OPClose(prog, i.out, slots, a1, first, Guards))
              ELSE [a1 EXCEPT !.err = TRUE]

Row(prog, root, Guards) == OPClose(prog, root, {}, [list |-> <<>>, on |-> {}, err |-> FALSE], root = 1, Guards)

\* the roots of the rows that the construction builds, depth first from pc 1
RECURSIVE Roots(_,_,_,_)
Roots(prog, todo, done, Guards) ==
  IF todo = {} THEN done
  ELSE LET r == CHOOSE x \in todo : TRUE
           row == Row(prog, r, Guards)
           outs == IF row.err THEN {} ELSE {prog[row.list[k].pc].out : k \in {j \in DOMAIN row.list : prog[row.list[j].pc].op = "rune"}}
       IN Roots(prog, (todo \cup outs) \ (done \cup {r}), done \cup {r}, Guards)

RowOK(prog, root, Guards) ==
  LET row == Row(prog, root, Guards)  l == row.list IN
  /\ ~row.err
  /\ \A j, k \in DOMAIN l :
        (j < k /\ prog[l[j].pc].op = "rune" /\ prog[l[k].pc].op = "rune" /\ prog[l[j].pc].s \cap prog[l[k].pc].s # {})
          => prog[l[j].pc].out = prog[l[k].pc].out
  /\ ("prio" \in Guards) =>
        \A j, k \in DOMAIN l : (j < k /\ prog[l[j].pc].op = "match") => prog[l[k].pc].op # "rune"

IsOnePass(prog, Guards) == \A r \in Roots(prog, {1}, {}, Guards) : RowOK(prog, r, Guards)

\* the transition of a row on symbol c: <<>> (dead) or [out, slots]
Trans(prog, root, c, Guards, Merge) ==
  LET l == Row(prog, root, Guards).list
      hits == {k \in DOMAIN l : prog[l[k].pc].op = "rune" /\ c \in prog[l[k].pc].s}
  IN IF hits = {} THEN <<>>
     ELSE LET k0 == CHOOSE k \in hits : \A j \in hits : k <= j
          IN [out |-> prog[l[k0].pc].out,
              slots |-> IF Merge = "first" THEN l[k0].slots ELSE UNION {l[k].slots : k \in hits}]

SetSlots(caps, S, p) == [j \in DOMAIN caps |-> IF j \in S THEN p ELSE caps[j]]

\* Search: the slot vector or <<>>
RECURSIVE OPRun(_,_,_,_,_,_,_)
OPRun(prog, h, p, root, caps, Guards, Merge) ==
  IF p > Len(h)
  THEN LET l == Row(prog, root, Guards).list
           ms == {k \in DOMAIN l : prog[l[k].pc].op = "match"}
       IN IF ms = {} THEN <<>>
          ELSE LET k == CHOOSE k \in ms : TRUE
               IN [SetSlots(caps, l[k].slots, p) EXCEPT ![2] = p]
  ELSE LET t == Trans(prog, root, h[p], Guards, Merge)
       IN IF t = <<>> THEN <<>>
          ELSE OPRun(prog, h, p + 1, t.out, SetSlots(caps, t.slots, p), Guards, Merge)

OPSearch(prog, ncap, h, Guards, Merge) == OPRun(prog, h, 1, 1, [NoCaps(ncap) EXCEPT ![1] = 1], Guards, Merge)
=============================================================================
