-------------------------- MODULE MC_ReverseSuffixML --------------------------
(* (?m)^ [P] W L  x haystacks with newlines: the multiline reverse-suffix driver (ReverseSuffixML.tla) against the
   reference; one record per pattern for `revsuffix`.  Family MLW: `.` does not cross lines -> theorem Exact (the negative
   control "prefixonly" must violate it).  Family MLS: (?s:.) wildcards -> no theorem, deviations reported. *)
EXTENDS Universe, ReverseSuffixML, Json

CONSTANTS Family, Shard, NShards, Budget, LCap, Claim

MLP == {<<>>, <<sa>>, <<sa,sb>>}
MLWild == {Star(Dot,TRUE), Plus(Dot,TRUE), Plus(Cls({sa,sb}),TRUE)}
MLWildS == {Star(DotS,TRUE), Plus(DotS,TRUE)}
MLL == {<<sb>>, <<sa,sb>>, <<sb,sb>>, <<sdot,sb>>}
Mk(p, w, l) == [re |-> IF p = <<>> THEN Cat(Look("bol"), Cat(w, LitStr(l))) ELSE Cat(Look("bol"), Cat(LitStr(p), Cat(w, LitStr(l)))),
                P |-> p, S |-> l]
MLW == {Mk(p, w, l) : p \in MLP, w \in MLWild, l \in MLL}
MLS == {Mk(p, w, l) : p \in MLP, w \in MLWildS, l \in MLL}

Base == SetToSeq(IF Family = "MLW" THEN MLW ELSE MLS)
Idx == {i \in 1..Len(Base) : i % NShards = Shard} \cup {0}

VARIABLES idx, out, bad
vars == <<idx, out, bad>>

Off2(h, m) == IF m = <<>> THEN <<>> ELSE <<Off(h, m[1]), Off(h, m[2])>>

Eval(i) ==
  LET re   == Base[i].re
      P    == Base[i].P
      S    == Base[i].S
      rn   == Number(re, 1)
      prog == Prog(Simp(rn))
      nc   == NCaps(re)
      al   == SymsIn(re) \cup {NL}
      L    == LenFor(Cardinality(al), Budget, LCap)
      H    == SetToSeq(SeqsUpTo(al, L) \cup Splice(prog, al, Budget \div 3))
      fa(h) == [p \in 1..(Len(h)+1) |-> MLFindAt(prog, nc, P, S, h, p)]
      rf(h) == [p \in 1..(Len(h)+1) |-> Two(FindP(prog, nc, h, p, FALSE))]
      Bad(h) == \/ \E p \in 1..Len(h) : fa(h)[p] # rf(h)[p]
                \/ MLFind(prog, nc, P, S, h) # rf(h)[1]
  IN [rec |-> [fam |-> Family, i |-> i, re |-> rn, nc |-> nc, names |-> Names(rn),
               mlP |-> Bytes(P), mlS |-> Bytes(S),
               hs |-> [j \in 1..Len(H) |->
                         [h |-> H[j],
                          rfa |-> [p \in 1..(Len(H[j])+1) |-> Off2(H[j], fa(H[j])[p])],
                          rf  |-> Off2(H[j], MLFind(prog, nc, P, S, H[j])),
                          rim |-> MLIsMatch(prog, nc, P, S, H[j]),
                          atf |-> [p \in 1..(Len(H[j])+1) |-> Off2(H[j], rf(H[j])[p])],
                          rbad |-> Bad(H[j])]]],
      bad |-> {j \in 1..Len(H) : Bad(H[j])}]

Init == idx \in Idx /\ out = <<>> /\ bad = {}
Next == /\ out = <<>>
        /\ IF idx = 0 THEN out' = [sym |-> Sym, fam |-> Family] /\ bad' = {}
           ELSE LET e == Eval(idx) IN out' = e.rec /\ bad' = e.bad
        /\ UNCHANGED idx
Spec == Init /\ [][Next]_vars
Emit == out = <<>> \/ PrintT(ToJson(out))
Exact == Claim => bad = {}
=============================================================================
