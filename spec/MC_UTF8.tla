------------------------------ MODULE MC_UTF8 ------------------------------
(***************************************************************************)
(* C15: compiled byte automata recognise exactly the UTF-8 of the intended *)
(* runes (translation validation of nfa/compile.go's output).              *)
(*                                                                         *)
(* Phase "gen":  TLC prints the universe of class / literal / dot          *)
(*   descriptors (ranges chosen at every UTF-8 length boundary).           *)
(* Phase "check": the harness has compiled every descriptor with the real  *)
(*   compiler in each mode (default, sparse dot, ASCII-only) and exported  *)
(*   the automaton (nfa.NFA inspection API) as one JSON line; TLC runs the *)
(*   byte-level semantics of the exported automaton (anchored, whole       *)
(*   input) on                                                             *)
(*     - the encoding of every boundary code point of the descriptor, and  *)
(*     - every byte string of length <= 3 over a 15-byte alphabet of       *)
(*       leads / continuations / ASCII (ill-formed input),                 *)
(*   and compares with Member(descriptor, decoded rune): a string matches  *)
(*   ^(?:c)$ iff it is exactly one decoding step and the rune is a member. *)
(*   Every disagreement is printed (and confirmed against regexp by the    *)
(*   harness before it counts).                                            *)
(***************************************************************************)
EXTENDS UTF8, FiniteSets, TLC, Json, SequencesExt

CONSTANTS Phase,        \* "gen" | "check"
          NFAFile, Shard, NShards,
          MaxIll        \* longest ill-formed byte string tried (3 in the thorough tier)

(* ------------------------------ descriptors ------------------------------ *)
R(lo, hi) == <<lo, hi>>
Cls(rs)   == [kind |-> "cls", rs |-> rs, neg |-> FALSE, fold |-> FALSE]
NCls(rs)  == [kind |-> "cls", rs |-> rs, neg |-> TRUE,  fold |-> FALSE]
FCls(rs)  == [kind |-> "cls", rs |-> rs, neg |-> FALSE, fold |-> TRUE]
Descs == <<
  Cls(<<R(97,122)>>), NCls(<<R(97,97)>>), Cls(<<R(0,127)>>), NCls(<<R(0,127)>>),
  Cls(<<R(128,2047)>>), Cls(<<R(127,128)>>), Cls(<<R(2047,2048)>>), Cls(<<R(2048,65535)>>),
  Cls(<<R(65535,65536)>>), Cls(<<R(65536,1114111)>>), Cls(<<R(1114111,1114111)>>),
  Cls(<<R(55295,57344)>>), Cls(<<R(55295,55295), R(57344,57344)>>), NCls(<<R(55295,57344)>>),
  Cls(<<R(233,233)>>), Cls(<<R(97,97), R(233,233)>>), Cls(<<R(97,97), R(19990,19990), R(128512,128512)>>),
  NCls(<<R(233,233)>>), NCls(<<R(97,97), R(128512,128512)>>), NCls(<<R(10,10)>>),
  Cls(<<R(65533,65533)>>), Cls(<<R(97,97), R(65533,65533)>>), NCls(<<R(65533,65533)>>),
  Cls(<<R(192,255)>>), Cls(<<R(256,383)>>), Cls(<<R(913,1023), R(1024,1279)>>), Cls(<<R(4096,8191)>>),
  Cls(<<R(57344,63743)>>), Cls(<<R(0,1114111)>>), NCls(<<R(0,1114110)>>), Cls(<<R(48,57), R(65,90), R(95,95), R(97,122)>>),
  NCls(<<R(48,57), R(65,90), R(95,95), R(97,122)>>), Cls(<<R(128,128)>>), Cls(<<R(191,192)>>), Cls(<<R(4095,4096)>>),
  Cls(<<R(53248,55295)>>), Cls(<<R(65536,131071)>>), Cls(<<R(262143,262144)>>), Cls(<<R(1048576,1114111)>>),
  FCls(<<R(107,107)>>), FCls(<<R(115,115)>>), FCls(<<R(233,233)>>), FCls(<<R(97,98)>>), FCls(<<R(8490,8490)>>),
  [kind |-> "lit", rs |-> <<R(107,107)>>, neg |-> FALSE, fold |-> TRUE],
  [kind |-> "lit", rs |-> <<R(233,233)>>, neg |-> FALSE, fold |-> TRUE],
  [kind |-> "lit", rs |-> <<R(233,233)>>, neg |-> FALSE, fold |-> FALSE],
  [kind |-> "lit", rs |-> <<R(128512,128512)>>, neg |-> FALSE, fold |-> FALSE],
  [kind |-> "lit", rs |-> <<R(65533,65533)>>, neg |-> FALSE, fold |-> FALSE],
  [kind |-> "lit", rs |-> <<R(383,383)>>, neg |-> FALSE, fold |-> TRUE],
  \* ranges whose ends are NOT aligned to a continuation-byte boundary (lo does not end in 80.., hi not in BF..) and that span
  \* several lead bytes: the range-splitting code treats the first, the middle and the last lead byte differently
  Cls(<<R(8208,65533)>>), NCls(<<R(0,8231)>>), Cls(<<R(2053,65528)>>), Cls(<<R(133,2032)>>), Cls(<<R(65541,1044000)>>),
  Cls(<<R(12353,40959)>>), Cls(<<R(70000,200000)>>), NCls(<<R(300,70000)>>),
  \* fold orbits whose smallest member is not a letter (U+0345 < iota), and non-letter orbits (circled A, Roman numeral eight)
  [kind |-> "lit", rs |-> <<R(953,953)>>, neg |-> FALSE, fold |-> TRUE],
  [kind |-> "lit", rs |-> <<R(9424,9424)>>, neg |-> FALSE, fold |-> TRUE],
  FCls(<<R(8567,8567)>>), FCls(<<R(921,921)>>),
  [kind |-> "dot",  rs |-> <<>>, neg |-> FALSE, fold |-> FALSE],
  [kind |-> "dots", rs |-> <<>>, neg |-> FALSE, fold |-> FALSE] >>

\* simple case folding orbits that the descriptors above can touch
Orbit(r) == IF r \in {107, 75, 8490} THEN {107, 75, 8490}
            ELSE IF r \in {115, 83, 383} THEN {115, 83, 383}
            ELSE IF r \in {233, 201} THEN {233, 201}
            ELSE IF r \in {837, 921, 953, 8126} THEN {837, 921, 953, 8126}
            ELSE IF r \in {9398, 9424} THEN {9398, 9424}
            ELSE IF r \in {8551, 8567} THEN {8551, 8567}
            ELSE IF r >= 97 /\ r <= 122 THEN {r, r - 32}
            ELSE IF r >= 65 /\ r <= 90 THEN {r, r + 32}
            ELSE {r}
InRanges(rs, r) == \E i \in DOMAIN rs : r >= rs[i][1] /\ r <= rs[i][2]
Member(d, r) ==
  CASE d.kind = "dot"  -> r # 10
    [] d.kind = "dots" -> TRUE
    [] OTHER -> LET in == IF d.fold THEN \E x \in Orbit(r) : InRanges(d.rs, x) ELSE InRanges(d.rs, r)
                IN IF d.neg THEN ~in ELSE in

Globals == {0, 10, 65, 97, 127, 128, 191, 192, 2047, 2048, 4095, 4096, 55295, 57344, 65533, 65535, 65536,
            262143, 262144, 1048575, 1048576, 1114111, 75, 107, 8490, 83, 115, 383, 201, 233,
            837, 921, 953, 8126, 9398, 9424, 8551, 8567}
\* around every range endpoint: the neighbours at distance 1 and at the distances that change exactly one
\* continuation byte (64, 4096, 262144) or sit just across such a step
Deltas == {0, 1, 2, 8, 63, 64, 65, 4095, 4096, 4097, 262143, 262144}
Near(e) == {e + x : x \in Deltas} \cup {e - x : x \in Deltas}
\* byte neighbours: the code points whose UTF-8 differs from e's in one or more positions by "same / one less / one more /
\* lowest / highest continuation value" - every way a byte automaton can get one byte of a range end wrong
CV(c) == {x \in {0, c - 1, c, c + 1, 63} : x >= 0 /\ x <= 63}
NearBytes(e) == {((e \div 4096) + a) * 4096 + x * 64 + y : a \in {-64, -1, 0, 1, 64}, x \in CV((e \div 64) % 64), y \in CV(e % 64)}
Boundary(d) == {r \in Globals \cup UNION {Near(d.rs[i][1]) \cup Near(d.rs[i][2]) \cup NearBytes(d.rs[i][1]) \cup NearBytes(d.rs[i][2]) : i \in DOMAIN d.rs} : ValidRune(r)}

IllBytes == <<0, 65, 127, 128, 191, 192, 194, 223, 224, 237, 239, 240, 244, 245, 255>>
\* always tried, whatever MaxIll: encoded surrogates, overlong forms, beyond U+10FFFF, truncated sequences
IllSpecial == { <<237,160,128>>, <<237,191,191>>, <<237,159,191>>, <<238,128,128>>, <<224,128,128>>, <<224,159,191>>, <<224,160,128>>,
                <<240,128,128,128>>, <<240,143,191,191>>, <<240,144,128,128>>, <<244,143,191,191>>, <<244,144,128,128>>,
                <<192,128>>, <<193,191>>, <<194,128>>, <<226,130>>, <<240,159,152>>, <<226,130,172,128>>, <<128,128>>, <<237,160>> }
IllStrings == SetToSeq(IllSpecial \cup UNION {[1..n -> {IllBytes[i] : i \in DOMAIN IllBytes}] : n \in 1..MaxIll})

\* what regexp decides for ^(?:d)$ on byte string s
Expected(d, s) == SingleStep(s) /\ Member(d, DecodeAt(s, 1)[1])

(* ----------------- byte-level semantics of an exported NFA --------------- *)
\* states: sequence (index = id + 1) of records [k, lo, hi, next, l, r, tr]
RECURSIVE Acc(_,_,_,_,_)
Acc(st, s, id, i, fuel) ==          \* does state id accept the suffix of s starting at i ?
  IF fuel = 0 THEN FALSE
  ELSE LET q == st[id + 1] IN
  CASE q.k = "match"   -> i = Len(s) + 1
    [] q.k = "range"   -> i <= Len(s) /\ s[i] >= q.lo /\ s[i] <= q.hi /\ Acc(st, s, q.next, i + 1, fuel - 1)
    [] q.k = "sparse"  -> i <= Len(s) /\ \E t \in DOMAIN q.tr :
                             s[i] >= q.tr[t].lo /\ s[i] <= q.tr[t].hi /\ Acc(st, s, q.tr[t].next, i + 1, fuel - 1)
    [] q.k = "split"   -> Acc(st, s, q.l, i, fuel - 1) \/ Acc(st, s, q.r, i, fuel - 1)
    [] q.k \in {"eps", "cap", "look"} -> Acc(st, s, q.next, i, fuel - 1)
    [] q.k = "runeany" -> i <= Len(s) /\ Acc(st, s, q.next, i + DecodeAt(s, i)[2], fuel - 1)
    [] q.k = "runeanynotnl" -> i <= Len(s) /\ s[i] # 10 /\ Acc(st, s, q.next, i + DecodeAt(s, i)[2], fuel - 1)
    [] OTHER -> FALSE
Accepts(n, s) == Acc(n.states, s, n.start, 1, Len(n.states) + 8)   \* fuel: fragments are acyclic

(* -------------------------------- driver --------------------------------- *)
Lines == IF Phase = "check" THEN ndJsonDeserialize(NFAFile) ELSE <<>>
VARIABLES idx, out
Tests(d, ascii) == LET enc == {Encode(r) : r \in Boundary(d)}
                       ill == {IllStrings[i] : i \in DOMAIN IllStrings}
                       all == enc \cup ill
                   IN IF ascii THEN {s \in all : \A i \in DOMAIN s : s[i] < 128} ELSE all
Check(n) ==
  LET d == Descs[n.desc]
      T == Tests(d, n.mode = "ascii")
      bad == {s \in T : Accepts(n, s) # Expected(d, s)}
  IN [desc |-> n.desc, mode |-> n.mode, pat |-> n.pat, tests |-> Cardinality(T),
      bad |-> SetToSeq({[s |-> s, want |-> Expected(d, s)] : s \in bad})]
Rec(i) == IF Phase = "gen" THEN [desc |-> i, d |-> Descs[i]] ELSE Check(Lines[i])
N == IF Phase = "gen" THEN Len(Descs) ELSE Len(Lines)
\* shards are by descriptor, so that a shard always holds all compilation modes of its descriptors
ShardOf(i) == IF Phase = "gen" THEN i ELSE Lines[i].desc
Init == idx \in {i \in 1..N : ShardOf(i) % NShards = Shard} /\ out = <<>>
Next == out = <<>> /\ out' = Rec(idx) /\ UNCHANGED idx
Spec == Init /\ [][Next]_<<idx, out>>
Emit == out = <<>> \/ PrintT(ToJson(out))
\* sanity of the UTF-8 definitions themselves: decoding an encoding gives the rune back
ASSUME \A r \in Globals : ValidRune(r) => DecodeAt(Encode(r), 1) = <<r, Len(Encode(r))>>
=============================================================================
