------------------------------ MODULE MC_Replace ------------------------------
(***************************************************************************)
(* Generator for C08: ReplaceAll / ReplaceAllLiteral / ReplaceAllFunc and  *)
(* Split as functions of the reference (regexp.replaceAll, regexp.expand,  *)
(* regexp.Split), for every haystack of every pattern of a family shard.   *)
(***************************************************************************)
EXTENDS Universe, Json

CONSTANTS Family, Shard, NShards, Budget, LCap

Base  == IF IsG2(Family) THEN G2Base(Family) ELSE SetToSeq(FamilySet(Family))
USize == IF IsG2(Family) THEN D2Size(Base) ELSE Len(Base)
UAt(i) == IF IsG2(Family) THEN D2At(Base, i) ELSE Base[i]
Idx == {i \in 1..USize : i % NShards = Shard} \cup {0}

\* templates (bytes): <$1>  $2$1  ${1}x  $1x  $$  $n  ${n}  $10  $  a${  $01  [$0]  $m2-$n  ${1  $1$
Templates == << <<60,36,49,62>>, <<36,50,36,49>>, <<36,123,49,125,120>>, <<36,49,120>>, <<36,36>>,
                <<36,110>>, <<36,123,110,125>>, <<36,49,48>>, <<36>>, <<97,36,123>>, <<36,48,49>>,
                <<91,36,48,93>>, <<36,109,50,45,36,110>>, <<36,123,49>>, <<36,49,36>> >>
Literal == <<36,49,45>>       \* "$1-" taken verbatim by ReplaceAllLiteral
SplitNs == <<-1, 0, 1, 2, 3>>

VARIABLES idx, out
vars == <<idx, out>>

\* a content hash of a haystack, so that the same haystack gets the same templates in every tier
RECURSIVE HSumAcc(_,_,_)
HSumAcc(h, k, acc) == IF k > Len(h) THEN acc ELSE HSumAcc(h, k + 1, acc * 3 + h[k])
HSum(h) == HSumAcc(h, 1, Len(h))

HRec(prog, nc, names, h, i) ==
  LET pf == RepPieces(prog, nc, h, FALSE)
      pl == RepPieces(prog, nc, h, TRUE)
      af == AllSubP(prog, nc, h, FALSE)
      sp == [k \in DOMAIN af |-> <<af[k][1], af[k][2]>>]
      hlen == Off(h, Len(h) + 1)
      \* each haystack gets three of the templates (rotating), so all templates are covered many times
      tsel == {((i + j) % Len(Templates)) + 1 : j \in 0..2}      \* i is a function of pattern index and haystack CONTENT (not position)
      tseq == SetToSeq(tsel)
  IN [h |-> h,
      rep |-> [k \in 1..Len(tseq) |-> [kind |-> "tmpl", t |-> Templates[tseq[k]], longest |-> FALSE,
                                         out |-> Render(pf, h, "tmpl", [t |-> Templates[tseq[k]], names |-> names])]]
              \o << [kind |-> "lit", t |-> Literal, longest |-> FALSE, out |-> Render(pf, h, "lit", [t |-> Literal])],
                    [kind |-> "fn",  t |-> <<>>,    longest |-> FALSE, out |-> Render(pf, h, "fn", [t |-> <<>>])],
                    [kind |-> "tmpl", t |-> Templates[1], longest |-> TRUE,
                                         out |-> Render(pl, h, "tmpl", [t |-> Templates[1], names |-> names])] >>,
      split |-> [k \in 1..Len(SplitNs) |-> [n |-> SplitNs[k], out |-> Split(sp, hlen, FALSE, SplitNs[k])]]]

Rec(i) ==
  IF i = 0 THEN [sym |-> Sym, fam |-> Family]
  ELSE LET re   == UAt(i)
           rn   == Number(re, 1)
           prog == Prog(Simp(rn))
           nc   == NCaps(re)
           al   == Alphabet(re, MBFor(i), ILLFor(i))
           L    == LenFor(Cardinality(al), Budget, LCap)
           H    == SetToSeq(SeqsUpTo(al, L))
       IN [fam |-> Family, i |-> i, re |-> rn, nc |-> nc, names |-> Names(rn),
           hs |-> [j \in 1..Len(H) |-> HRec(prog, nc, Names(rn), H[j], i + HSum(H[j]))]]

Init == idx \in Idx /\ out = <<>>
Next == out = <<>> /\ out' = Rec(idx) /\ UNCHANGED idx
Spec == Init /\ [][Next]_vars
Emit == out = <<>> \/ PrintT(ToJson(out))
=============================================================================
