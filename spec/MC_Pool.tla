------------------------------ MODULE MC_Pool ------------------------------
(* Bounded instances of Pool; also the schedule generator: every complete behaviour's history is printed. *)
EXTENDS Pool, Json
CONSTANT EmitSchedules
\* print the schedule of every complete behaviour exactly once (a terminal state with its history)
EmitDone == (Done /\ EmitSchedules) => PrintT(ToJson([sched |-> hist, created |-> created]))
\* without the history variable and counters the state graph is small: used for the pure model-checking run
View == <<local, pool, held, pc, ncall, created, gcs>>
=============================================================================
