------------------------------ MODULE LazyDFA ------------------------------
(***************************************************************************)
(* The lazy DFA as an algorithm over the reference program (C14, C13,      *)
(* C05): on-demand determinisation with leftmost-first priorities, the     *)
(* one-step match delay, break-at-match, and the cache protocol            *)
(* (insert until full -> clear -> resume, bounded clears -> yield to the   *)
(* NFA).  dfa/lazy/lazy.go: searchAt, determinize, tryClearCache.          *)
(*                                                                         *)
(* The automaton is RegexRef!Prog(re) (one instruction per rune test), so  *)
(* a DFA state is what the code calls the NFA-state list: the sequence of  *)
(* rune/match instructions reachable, IN PRIORITY ORDER (the order is part *)
(* of the state: everything after a match instruction is dropped by        *)
(* break-at-match).  Patterns with look-around are outside this model.     *)
(*                                                                         *)
(* Resume selects what happens to the search in progress when the cache    *)
(* is cleared under it:                                                    *)
(*   "keep"     the current state is re-inserted and the scan continues    *)
(*              (what regex-automata does)                                 *)
(*   "restart"  the scan continues from the START state at the current     *)
(*              position (what dfa/lazy/lazy.go does): threads of a match  *)
(*              in progress are lost - TLC finds the counter-example, and  *)
(*              the engines driver reproduces it on the real DFA with      *)
(*              caches too small for the automaton (known finding, C14).   *)
(***************************************************************************)
EXTENDS RegexRef, TLC

\* epsilon closure of pc in priority order, appended to list (no look-around, captures ignored)
RECURSIVE Closure(_,_,_)
Closure(prog, pc, acc) ==          \* acc = [list, on]
  IF pc \in acc.on THEN acc
  ELSE LET a1 == [acc EXCEPT !.on = @ \cup {pc}]   i == prog[pc] IN
       CASE i.op \in {"rune", "match"} -> [a1 EXCEPT !.list = Append(@, pc)]
         [] i.op \in {"nop", "cap"}    -> Closure(prog, i.out, a1)
         [] i.op = "alt"               -> Closure(prog, i.arg, Closure(prog, i.out, a1))
         [] OTHER                      -> a1

Empty == [list |-> <<>>, on |-> {}]
Declined == -1
StartList(prog) == Closure(prog, 1, Empty).list

\* determinize: the successor of state S (a list of pcs) on symbol c.
\* Returns [list, matched]: matched = a match instruction was reached in S (reported one step late: match delay).
RECURSIVE StepList(_,_,_,_,_)
StepList(prog, S, k, c, acc) ==
  IF k > Len(S) THEN [list |-> acc.list, matched |-> FALSE]
  ELSE LET i == prog[S[k]] IN
       IF i.op = "match" THEN [list |-> acc.list, matched |-> TRUE]      \* break at match: lower priorities dropped
       ELSE IF c \in i.s THEN StepList(prog, S, k + 1, c, Closure(prog, i.out, acc))
       ELSE StepList(prog, S, k + 1, c, acc)

\* unanchored search: the start closure is appended at the lowest priority while no match has been seen
Next1(prog, S, c, unanch) ==
  LET r == StepList(prog, S, 1, c, Empty)
      l2 == IF unanch /\ ~r.matched
            THEN Closure(prog, 1, [list |-> r.list, on |-> {r.list[j] : j \in DOMAIN r.list}]).list
            ELSE r.list
  IN [list |-> l2, matched |-> r.matched]

HasMatch(prog, S) == \E k \in DOMAIN S : prog[S[k]].op = "match"

(* the search loop with a cache of at most Capa states *)
RECURSIVE Scan(_,_,_,_,_,_,_,_,_,_)
Scan(prog, h, p, S, last, cache, clears, Capa, MaxClears, Resume) ==
  \* S: current state; last: end of the last match seen (0 = none); cache: set of states built so far
  IF p > Len(h)
  THEN (IF HasMatch(prog, S) THEN p ELSE last)                        \* end of input: the delayed match
  ELSE IF S = <<>> THEN last                                           \* dead state
  ELSE LET n == Next1(prog, S, h[p], last = 0)
           last2 == IF n.matched THEN p ELSE last                      \* match delay: S held a match ending at p
       IN IF n.list \in cache \/ Cardinality(cache) < Capa
          THEN Scan(prog, h, p + 1, n.list, last2, cache \cup {n.list}, clears, Capa, MaxClears, Resume)
          ELSE IF clears >= MaxClears
          THEN Declined                                                \* give up: the caller falls back to the NFA simulation
          ELSE IF Resume = "keep"
          THEN Scan(prog, h, p + 1, n.list, last2, {n.list}, clears + 1, Capa, MaxClears, Resume)
          ELSE \* "restart": the cache is cleared and the scan continues from the start state at p
               Scan(prog, h, p, StartList(prog), last, {StartList(prog)}, clears + 1, Capa, MaxClears, Resume)

\* end of the leftmost-first match searching from position at (0 = no match, Declined = yielded to the NFA)
DFAEnd(prog, h, at, Capa, MaxClears, Resume) ==
  Scan(prog, h, at, StartList(prog), 0, {StartList(prog)}, 0, Capa, MaxClears, Resume)

RefEnd(prog, ncap, h, at) == LET m == FindP(prog, ncap, h, at, FALSE) IN IF m = <<>> THEN 0 ELSE m[2]
=============================================================================
