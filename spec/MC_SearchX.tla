------------------------------ MODULE MC_SearchX-----------------------------
(***************************************************************************)
(* Generator + self-check: TLC enumerates one shard of one pattern family, *)
(* evaluates the reference API on every haystack over the pattern's        *)
(* alphabet, checks the well-formedness theorems of the reference itself,  *)
(* and prints one JSON record per pattern for the conformance harness.     *)
(***************************************************************************)
EXTENDS UniverseX, Json

CONSTANTS Family,      \* family name, see Universe!FamilySet
          Shard, NShards,
          Budget,      \* max haystacks per pattern
          LCap,        \* max haystack length
          WithAt       \* also emit Find from every start offset

\* the family as an indexed collection: small families are built as sets, depth-2 closures are decoded by index
Base  == IF IsG2(Family) THEN G2Base(Family) ELSE SetToSeq(FamilySetX(Family))
USize == IF IsG2(Family) THEN D2Size(Base) ELSE Len(Base)
UAt(i) == IF IsG2(Family) THEN D2At(Base, i) ELSE Base[i]
Idx == {i \in 1..USize : i % NShards = Shard} \cup {0}

VARIABLES idx, out
vars == <<idx, out>>

\* theorems of the reference (C07's predicates hold of the specification itself)
WFSlots(m, n) ==            \* m in symbol positions, n = Len(h)
  \/ m = <<>>
  \/ /\ 1 <= m[1] /\ m[1] <= m[2] /\ m[2] <= n + 1
     /\ \A g \in 1..((Len(m) \div 2) - 1) :
          \/ (m[2*g+1] = 0 /\ m[2*g+2] = 0)
          \/ (m[1] <= m[2*g+1] /\ m[2*g+1] <= m[2*g+2] /\ m[2*g+2] <= m[2])
WFAll(a, n) == /\ \A i \in DOMAIN a : WFSlots(a[i], n)
               /\ \A i \in 1..(Len(a)-1) : a[i][2] <= a[i+1][1]
                                          /\ (a[i+1][1] = a[i+1][2] => a[i][2] < a[i+1][1] \/ a[i][1] = a[i][2])

HRec(prog, nc, h) ==
  LET af == AllP(prog, nc, h, FALSE)
      al == AllP(prog, nc, h, TRUE)
      f  == FindP(prog, nc, h, 1, FALSE)
      l  == FindP(prog, nc, h, 1, TRUE)
      base == [h  |-> h,
               af |-> [i \in DOMAIN af |-> ToOff(h, af[i])],
               al |-> [i \in DOMAIN al |-> ToOff(h, al[i])]]
  IN IF  /\ Assert(WFAll(af, Len(h)) /\ WFAll(al, Len(h)), <<"ill-formed reference result", h>>)
         /\ Assert((f = <<>>) = (af = <<>>) /\ (f # <<>> => f = af[1]), <<"FindAll[0] # Find", h>>)
         /\ Assert((l = <<>>) = (f = <<>>) /\ (l # <<>> => l[1] = f[1] /\ l[2] >= f[2] /\ l = al[1]), <<"longest vs first", h>>)
     THEN IF WithAt
          THEN base @@ [atf |-> [p \in 1..(Len(h)+1) |-> ToOff(h, FindP(prog, nc, h, p, FALSE))],
                        atl |-> [p \in 1..(Len(h)+1) |-> ToOff(h, FindP(prog, nc, h, p, TRUE))],
                        anc |-> [p \in 1..(Len(h)+1) |-> ToOff(h, AnchoredP(prog, nc, h, p))],
                        ends |-> [p \in 1..(Len(h)+1) |-> SetToSortSeq({Off(h, e) : e \in EndsP(prog, h, p)}, <)]]
          ELSE base
     ELSE base

Rec(i) ==
  IF i = 0 THEN [sym |-> Sym, fam |-> Family]
  ELSE LET re   == UAt(i)
           rn   == Number(re, 1)
           prog == Prog(Simp(rn))
           nc   == NCaps(re)
           al   == Alphabet(re, MBFor(i), ILLFor(i))
           L    == LenFor(Cardinality(al), Budget, LCap)
           H    == SetToSeq(SeqsUpTo(al, L) \cup Splice(prog, al, Budget \div 3)
                             \cup Sampled(al, i, Budget \div 8, 6) \cup Sampled(al, i + 3, Budget \div 12, 8))
       IN [fam |-> Family, i |-> i, re |-> rn, nc |-> nc, names |-> Names(rn),
           hs |-> [j \in 1..Len(H) |-> HRec(prog, nc, H[j])]]

Init == idx \in Idx /\ out = <<>>
Next == out = <<>> /\ out' = Rec(idx) /\ UNCHANGED idx
Spec == Init /\ [][Next]_vars
Emit == out = <<>> \/ PrintT(ToJson(out))
=============================================================================
