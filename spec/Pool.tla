------------------------------ MODULE Pool ------------------------------
(***************************************************************************)
(* Hand-off of per-search mutable state (C06, C20):                        *)
(*   meta/engine.go: getSearchState / putSearchState                       *)
(*   - localState: one atomic slot (a strong reference, survives GC)       *)
(*   - statePool : sync.Pool (may drop entries at GC; Get may miss even    *)
(*                 when an entry exists, and then makes a new state)       *)
(* One action per atomic operation of the code; a goroutine's call is      *)
(*   Swap ; [PoolGet] ; <search, uses the held state> ; Cas ; [PoolPut]    *)
(* The search itself is one step of the holder ("Search"), during which    *)
(* the state it holds must not be reachable by anybody else.               *)
(*                                                                         *)
(* PoolGet is deliberately permissive (any pooled state OR a new one):     *)
(* a specification stricter than sync.Pool would reject correct traces.    *)
(***************************************************************************)
EXTENDS Integers, Sequences, FiniteSets, TLC

CONSTANTS Gs,        \* goroutines, e.g. {1,2}
          Calls,     \* calls per goroutine
          MaxNew,    \* bound on states ever created (keeps the model finite)
          MaxGC      \* bound on garbage collections

VARIABLES local,     \* the slot: 0 or a state id
          pool,      \* set of state ids in sync.Pool
          held,      \* held[g]: state id owned by goroutine g, 0 if none
          pc,        \* pc[g] \in {"start","get","search","cas","put","done","fin"}
          ncall,     \* calls completed per goroutine
          created,   \* number of states ever created
          gcs, hist
vars == <<local, pool, held, pc, ncall, created, gcs, hist>>

Init == /\ local = 0 /\ pool = {} /\ held = [g \in Gs |-> 0] /\ pc = [g \in Gs |-> "start"]
        /\ ncall = [g \in Gs |-> 0] /\ created = 0 /\ gcs = 0 /\ hist = <<>>

Log(g, a) == hist' = Append(hist, <<g, a>>)

Swap(g) == /\ pc[g] = "start"
           /\ held' = [held EXCEPT ![g] = local] /\ local' = 0
           /\ pc' = [pc EXCEPT ![g] = IF local # 0 THEN "search" ELSE "get"]
           /\ Log(g, "swap") /\ UNCHANGED <<pool, ncall, created, gcs>>

PoolGet(g) == /\ pc[g] = "get"
              /\ \/ \E s \in pool : /\ held' = [held EXCEPT ![g] = s] /\ pool' = pool \ {s}
                                    /\ UNCHANGED created /\ Log(g, "get")
                 \/ /\ created < MaxNew
                    /\ created' = created + 1
                    /\ held' = [held EXCEPT ![g] = created + 1] /\ UNCHANGED pool /\ Log(g, "new")
              /\ pc' = [pc EXCEPT ![g] = "search"] /\ UNCHANGED <<local, ncall, gcs>>

Search(g) == /\ pc[g] = "search" /\ pc' = [pc EXCEPT ![g] = "cas"]
             /\ Log(g, "search") /\ UNCHANGED <<local, pool, held, ncall, created, gcs>>

Cas(g) == /\ pc[g] = "cas"
          /\ IF local = 0
             THEN /\ local' = held[g] /\ held' = [held EXCEPT ![g] = 0] /\ pc' = [pc EXCEPT ![g] = "done"] /\ Log(g, "cas-ok")
             ELSE /\ UNCHANGED <<local, held>> /\ pc' = [pc EXCEPT ![g] = "put"] /\ Log(g, "cas-fail")
          /\ UNCHANGED <<pool, ncall, created, gcs>>

PoolPut(g) == /\ pc[g] = "put"
              /\ pool' = pool \cup {held[g]} /\ held' = [held EXCEPT ![g] = 0]
              /\ pc' = [pc EXCEPT ![g] = "done"] /\ Log(g, "put")
              /\ UNCHANGED <<local, ncall, created, gcs>>

Return(g) == /\ pc[g] = "done"
             /\ ncall' = [ncall EXCEPT ![g] = ncall[g] + 1]
             /\ pc' = [pc EXCEPT ![g] = IF ncall[g] + 1 < Calls THEN "start" ELSE "fin"]
             /\ UNCHANGED <<local, pool, held, created, gcs, hist>>

\* the runtime may empty the pool at any time (the slot is a strong reference and survives)
GC == /\ gcs < MaxGC /\ pool # {} /\ gcs' = gcs + 1 /\ pool' = {}
      /\ hist' = Append(hist, <<0, "gc">>) /\ UNCHANGED <<local, held, pc, ncall, created>>

Step(g) == Swap(g) \/ PoolGet(g) \/ Search(g) \/ Cas(g) \/ PoolPut(g) \/ Return(g)
Next == (\E g \in Gs : Step(g)) \/ GC
Spec == Init /\ [][Next]_vars /\ \A g \in Gs : WF_vars(Step(g))

(* ------------------------------ properties ------------------------------- *)
Holding(g) == held[g] # 0
\* a state is owned by at most one goroutine
Exclusive == \A g, h \in Gs : (g # h /\ Holding(g)) => held[g] # held[h]
\* a held state is reachable neither through the slot nor through the pool
NotShared == \A g \in Gs : Holding(g) => (held[g] # local /\ held[g] \notin pool)
SlotNotPooled == local = 0 \/ local \notin pool
\* a search always runs on a state the goroutine owns
SearchOwns == \A g \in Gs : pc[g] \in {"search", "cas", "put"} => Holding(g)
\* C20: with one goroutine the slot always catches the state: exactly one state is ever created
OneStateWhenSequential == Cardinality(Gs) = 1 => created <= 1
\* C20: states in existence never exceed the number of goroutines that ever ran concurrently plus pool misses
Termination == <>(\A g \in Gs : pc[g] = "fin")
Done == \A g \in Gs : pc[g] = "fin"
=============================================================================
