---------------------------- MODULE MC_Prefilter ----------------------------
(***************************************************************************)
(* C16: generator and design-level checks for spec/Prefilter.tla.          *)
(*                                                                         *)
(* Phase "gen"     TLC enumerates the universe of literal sets and prints, *)
(*                 per literal set, PMatch(L,h,s) (hence PFind) and        *)
(*                 PMatchLine(L,h,s) for EVERY haystack of the haystack    *)
(*                 universe and EVERY start offset; the digit scanner's    *)
(*                 table; and behaviours of the Tracker machine.  The      *)
(*                 harness (vh prefilter) replays them on the real code.   *)
(* Phase "teddy"   TLC evaluates the Teddy model (all block widths, load   *)
(*                 schemes, fingerprint lengths) on the same universe:     *)
(*                 invariant TeddyFindOK (position = PFind) must hold;     *)
(*                 TeddyMatchOK (span = PMatch) is the design-level        *)
(*                 question "is bucket order = pattern order?".            *)
(* Phase "tracker" the Tracker as a state machine; TrackerSafe /           *)
(*                 TrackerDocOK must hold, TrackerNeverSkips is what C16   *)
(*                 literally demands.                                      *)
(* Phase "loop"    the candidate loops of the meta engine over abstract    *)
(*                 haystacks (candidate set CS, match-start set MS):       *)
(*                 NoSkip, ResultOK.                                       *)
(*                                                                         *)
(* Universe (all of it fixed by the constants; Shard only selects a part): *)
(*   literal letters  a(0x61) q(0x71) b(0x62) [A(0x41) when NAlpha = 4]:   *)
(*     a,q(,A) share the low nibble, a,b the high nibble, and the mixed    *)
(*     bytes 0x61 = hi(b)|lo(q) and 0x72 'r' = hi(q)|lo(b) pass the        *)
(*     nibble masks of a bucket holding q.. and b.. literals.              *)
(*   haystack letters  the literal letters + "\n" (small sets),            *)
(*                     + 'r' + "\n" (structured large sets).               *)
(*   S1  every single literal of length 1..4                               *)
(*   F2  every 2-subset of the literals of length 1..3 (+ reversed order   *)
(*       when one is a prefix of the other)                                *)
(*   F3  every 3-subset of the literals of length 1..2 (+ reversed ...)    *)
(*   T3  every 3-subset of the literals of length 3                        *)
(*   X5  length-3 literal with a length-4 extension, in both orders, alone *)
(*       and with a third literal in three orders                          *)
(*   LONG single literals of length 5..33, pairs of them, and a long       *)
(*       literal with its one-byte extension in both orders                *)
(*   T4  every 4-subset of the literals of length 3 (when Quads = 1;       *)
(*       enumerated by index, after the families above)                    *)
(*   BIG structured sets of 8, 9, 32, 33, 64, 65, 100 literals (length-3   *)
(*       literals and length-4 extensions of them) in four orders, plus    *)
(*       variants holding a length-5 literal with another literal inside   *)
(*   The small families are sharded (index % NShards = Shard); LONG and    *)
(*   BIG, the digit table and the default-configuration tracker runs are   *)
(*   in every shard.                                                       *)
(*                                                                         *)
(* Configurations (SPECIFICATION Spec, CHECK_DEADLOCK FALSE):              *)
(*   gen      INVARIANT Emit                                               *)
(*   teddy    INVARIANTS Emit TeddyFindOK          (must hold)             *)
(*            INVARIANT TeddyMatchOK               (violated by the sets   *)
(*              of >= 9 literals: bucket order is not pattern order)       *)
(*   tracker  INVARIANTS TrackerSafe TrackerDocOK  (must hold)             *)
(*            INVARIANT TrackerNeverSkips          (violated: a retired    *)
(*              tracker answers -1)                                        *)
(*   loop     INVARIANTS NoSkip ResultOK with LoopShapes = {"unanch",      *)
(*            "anch","digitrun","trk"} (must hold); with {"trk_blind"} or  *)
(*            {"digitrun_unsafe"} they are violated (negative controls)    *)
(* Constants: NAlpha 3|4, MaxHay / MaxHayBig haystack length bounds,       *)
(* Quads 0|1, TrLen length of the tracker behaviours (4^TrLen of them),    *)
(* LoopN abstract haystack length, LoopShapes a set of shape names.        *)
(***************************************************************************)
EXTENDS Prefilter, TLC, Json, SequencesExt

CONSTANTS Phase, Shard, NShards, NAlpha, MaxHay, MaxHayBig, Quads, TrLen, LoopN, LoopShapes

Letters == <<97, 113, 98, 65>>
Lit == SubSeq(Letters, 1, NAlpha)
HayAlpha == Lit \o <<10>>
HayAlphaBig == Lit \o <<114, 10>>
DigAlpha == <<48, 57, 47, 58, 97>>

RECURSIVE Pow(_, _)
Pow(b, e) == IF e = 0 THEN 1 ELSE b * Pow(b, e-1)
\* all strings of length n over the alphabet A in lexicographic order of letter indices; Str(A, n, k) is the k-th (0-based)
RECURSIVE Strs(_, _)
Strs(A, n) == IF n = 0 THEN << <<>> >>
              ELSE LET prev == Strs(A, n-1) IN
                   TLCEval([k \in 1..Len(prev) * Len(A) |-> Append(prev[((k-1) \div Len(A)) + 1], A[((k-1) % Len(A)) + 1])])
Str(A, n, k) == TLCEval([p \in 1..n |-> A[((k \div Pow(Len(A), n-p)) % Len(A)) + 1]])
RECURSIVE StrsUpTo(_, _, _)
StrsUpTo(A, a, b) == IF a > b THEN <<>> ELSE Strs(A, a) \o StrsUpTo(A, a+1, b)

\* This TLC does not memoise zero-arity definitions: every reference re-evaluates the body.  The large constants are
\* therefore computed once, in an ASSUME, into TLC registers (TLCSet in an ASSUME is inherited by all workers).
HaysDef == StrsUpTo(HayAlpha, 0, MaxHay)
HaysBigDef == StrsUpTo(HayAlphaBig, 0, MaxHayBig)
HaysDigDef == StrsUpTo(DigAlpha, 0, MaxHay)
Hays == TLCGet(1)
HaysBig == TLCGet(2)
HaysDig == TLCGet(3)

IsPre(a, b) == Len(a) <= Len(b) /\ \A k \in 1..Len(a) : a[k] = b[k]
PrefRel(S) == \E i, j \in 1..Len(S) : i # j /\ IsPre(S[i], S[j])
WithRev(S) == IF PrefRel(S) THEN <<S, Reverse(S)>> ELSE <<S>>

C2(n) == SetToSeq(UNION {{<<i, j>> : j \in i+1..n} : i \in 1..n})
C3(n) == SetToSeq(UNION {UNION {{<<i, j, k>> : k \in j+1..n} : j \in i+1..n} : i \in 1..n})
Pick(P, t) == TLCEval([m \in 1..Len(t) |-> P[t[m]]])

LP14 == StrsUpTo(Lit, 1, 4)
LP13 == StrsUpTo(Lit, 1, 3)
LP12 == StrsUpTo(Lit, 1, 2)
L3 == Strs(Lit, 3)
N3 == Len(L3)

S1 == TLCEval([k \in 1..Len(LP14) |-> <<LP14[k]>>])
F2 == LET c == C2(Len(LP13)) IN FlattenSeq([k \in 1..Len(c) |-> WithRev(Pick(LP13, c[k]))])
F3 == LET c == C3(Len(LP12)) IN FlattenSeq([k \in 1..Len(c) |-> WithRev(Pick(LP12, c[k]))])
T3 == LET c == C3(N3) IN TLCEval([k \in 1..Len(c) |-> Pick(L3, c[k])])
\* T4 is enumerated by index (combinatorial number system), not built: Unrank(k, lo, n, r) = the k-th (0-based, lexicographic)
\* r-subset of lo..n as an increasing sequence
Choose(n, r) == CASE r = 0 -> 1 [] r = 1 -> n [] r = 2 -> (n * (n-1)) \div 2 [] r = 3 -> (n * (n-1) * (n-2)) \div 6
                  [] r = 4 -> (n * (n-1) * (n-2) * (n-3)) \div 24
RECURSIVE Unrank(_, _, _, _)
Unrank(k, lo, n, r) ==
  IF r = 0 THEN <<>>
  ELSE LET c == Choose(n - lo, r - 1) IN
       IF k < c THEN <<lo>> \o Unrank(k, lo + 1, n, r - 1) ELSE Unrank(k - c, lo + 1, n, r)
NT4 == IF Quads = 1 THEN Choose(N3, 4) ELSE 0
T4At(k) == Pick(L3, Unrank(k - 1, 1, N3, 4))
X5 == FlattenSeq([k \in 1..N3 * NAlpha |->
        LET l == L3[((k-1) % N3) + 1]
            lx == l \o <<Lit[((k-1) \div N3) + 1]>>
            m1 == L3[((k-1 + 5) % N3) + 1]
            m2 == L3[((k-1 + 14) % N3) + 1]
        IN << <<l, lx>>, <<lx, l>>, <<lx, l, m1>>, <<l, m1, lx>>, <<m1, lx, l>>, <<lx, l, m2>>, <<l, m2, lx>>, <<m2, lx, l>> >>])

\* long literals (substring search with long needles, Teddy verification far beyond the fingerprint): they cannot occur in
\* the short haystacks; the harness embeds every literal itself in filler, so what they exercise is the embedded part
LongLens == <<5, 8, 15, 16, 17, 31, 32, 33>>
LongLit(n, v) == TLCEval([p \in 1..n |-> Lit[((p * p + v * p) % NAlpha) + 1]])
LONG == FlattenSeq([k \in 1..Len(LongLens) |-> LET n == LongLens[k] IN
          << <<LongLit(n, 0)>>, <<LongLit(n, 0), LongLit(n + 1, 1)>>, <<LongLit(n, 0), LongLit(n, 0) \o <<Lit[1]>> >>,
             <<LongLit(n, 0) \o <<Lit[1]>>, LongLit(n, 0)>> >>])

\* structured large sets
NS(N) == IF (N+1) \div 2 > N3 THEN N3 ELSE (N+1) \div 2
Short(k) == Str(Lit, 3, k)
Long(N, j) == Short(j % NS(N)) \o <<Lit[(j \div NS(N)) + 1]>>
SF(N) == TLCEval([i \in 1..N |-> IF i <= NS(N) THEN Short(i-1) ELSE Long(N, i-1-NS(N))])
LF(N) == TLCEval([i \in 1..N |-> IF i <= N - NS(N) THEN Long(N, i-1) ELSE Short(i-1-(N-NS(N)))])
Mul(N, m) == LET b == SF(N) IN TLCEval([i \in 1..N |-> b[(((i-1) * m) % N) + 1]])
Five == <<Lit[3]>> \o Short(1) \o <<Lit[3]>>           \* b aaq b: holds the literal aaq strictly inside
X5Last(N) == TLCEval([SF(N) EXCEPT ![N] = Five])
X5First(N) == <<Five>> \o SubSeq(SF(N), 1, N-1)
BigSizes == <<8, 9, 32, 33, 64, 65, 100>>
BIG == FlattenSeq([k \in 1..Len(BigSizes) |-> LET N == BigSizes[k] IN
         <<SF(N), LF(N), Mul(N, 7), Mul(N, 17)>> \o (IF N \in {9, 33, 65, 100} THEN <<X5Last(N), X5First(N)>> ELSE <<>>)])

Tag(name, S, big) == TLCEval([k \in 1..Len(S) |-> [fam |-> name, L |-> S[k], big |-> big]])
\* numbering of the literal sets: 1..NBase the small families, then T4 (by index), then BIG
BaseDef == Tag("S1", S1, FALSE) \o Tag("F2", F2, FALSE) \o Tag("F3", F3, FALSE) \o Tag("T3", T3, FALSE) \o Tag("X5", X5, FALSE)
           \o Tag("LONG", LONG, FALSE)
BigSetsDef == Tag("BIG", BIG, TRUE)
ASSUME TLCSet(1, HaysDef) /\ TLCSet(2, HaysBigDef) /\ TLCSet(3, HaysDigDef) /\ TLCSet(4, BaseDef) /\ TLCSet(5, BigSetsDef)
Base == TLCGet(4)
BigSets == TLCGet(5)
NBase == Len(Base)
NSmall == NBase + NT4
NSets == NSmall + Len(BigSets)
SetAt(i) == IF i <= NBase THEN Base[i]
            ELSE IF i <= NSmall THEN [fam |-> "T4", L |-> T4At(i - NBase), big |-> FALSE]
            ELSE BigSets[i - NSmall]

ASSUME \A i \in (1..NBase) \cup (NSmall+1..NSets) : \A k \in 1..Len(SetAt(i).L) : Len(SetAt(i).L[k]) >= 1
ASSUME \A i \in NSmall+1..NSets : LET L == SetAt(i).L IN \A a, b \in 1..Len(L) : a # b => L[a] # L[b]

(* ------------------------------------------------------------------ *)
(* gen: records                                                       *)
(* ------------------------------------------------------------------ *)
\* one number per (haystack, start): 0 = no occurrence, else (start of span + 1) * 64 + length of span
Code(sp) == IF sp[1] = -1 THEN 0 ELSE (sp[1] + 1) * 64 + (sp[2] - sp[1])
ASSUME \A i \in (1..NBase) \cup (NSmall+1..NSets) : \A k \in 1..Len(SetAt(i).L) : Len(SetAt(i).L[k]) < 64

SetRec(i) ==
  LET e == SetAt(i)
      L == e.L
      H == IF e.big THEN HaysBig ELSE Hays
      ms == TLCEval([x \in 1..Len(H) |-> TLCEval(LitVec(L, H[x]))])
      hit == {x \in 1..Len(H) : \E p \in 1..Len(H[x]) : ms[x][p] # 0}
      hitl == {x \in hit : \E p \in 1..Len(H[x]) : ms[x][p] # 0 /\ AtLineStart(H[x], p-1)}
      row(x) == <<x>> \o [s \in 1..Len(H[x])+1 |-> Code(PMatchV(L, H[x], ms[x], s-1))]
      rowl(x) == <<x>> \o [s \in 1..Len(H[x])+1 |-> Code(PMatchLineV(L, H[x], ms[x], s-1))]
      hs == SetToSeq(hit)
      ls == SetToSeq(hitl)
      \* sample check of the one-pass formulation against the definitions (every 64th haystack, rotating with i)
      lemma == \A x \in {y \in 1..Len(H) : y % 64 = i % 64} : \A s \in 0..Len(H[x]) :
                 /\ PMatchV(L, H[x], ms[x], s) = PMatch(L, H[x], s)
                 /\ PMatchLineV(L, H[x], ms[x], s) = PMatchLine(L, H[x], s)
                 /\ PMatch(L, H[x], s)[1] = PFind(L, H[x], s)
  IN IF Assert(lemma, <<"one-pass formulation differs from PMatch", i>>) THEN
     [k |-> "set", i |-> i, fam |-> e.fam, big |-> e.big, lits |-> L, nhay |-> Len(H),
      hs |-> [n \in 1..Len(hs) |-> row(hs[n])], ls |-> [n \in 1..Len(ls) |-> rowl(ls[n])]]
     ELSE <<>>

DigitRec == [k |-> "digit", rows |-> [x \in 1..Len(HaysDig) |-> [s \in 1..Len(HaysDig[x])+1 |-> DigitFind(HaysDig[x], s-1) + 1]]]

\* Tracker behaviours: every sequence of TrLen operations (1 = Find with a candidate, 2 = Find without, 3 = ConfirmMatch,
\* 4 = Reset) under two small configurations; per operation <<answer, demanded answer, candidates, confirms, active>>
TrCfgs == << [warm |-> 3, interval |-> 2, num |-> 1, den |-> 2], [warm |-> 2, interval |-> 3, num |-> 1, den |-> 4] >>
B2I(b) == IF b THEN 1 ELSE 0
RECURSIVE TrRun(_, _, _, _)
TrRun(cfg, t, ops, n) ==
  IF n > Len(ops) THEN <<>>
  ELSE LET op == ops[n]
           r == CASE op = 1 -> TrFind(cfg, t, TRUE) [] op = 2 -> TrFind(cfg, t, FALSE)
                  [] op = 3 -> <<TrConfirm(t), "-">> [] OTHER -> <<TrInit, "-">>
           ans == IF r[2] = "pos" THEN 1 ELSE 0
           want == IF op = 1 THEN 1 ELSE 0
       IN << <<ans, want, r[1].cand, r[1].conf, B2I(r[1].active)>> >> \o TrRun(cfg, r[1], ops, n+1)
NTrSeq == Pow(4, TrLen)
TrRec(j) == LET ops == Str(<<1, 2, 3, 4>>, TrLen, j-1) IN
  [k |-> "trk", i |-> j, ops |-> ops,
   cfgs |-> [c \in 1..Len(TrCfgs) |-> <<TrCfgs[c].warm, TrCfgs[c].interval, TrCfgs[c].num, TrCfgs[c].den>>],
   steps |-> [c \in 1..Len(TrCfgs) |-> TrRun(TrCfgs[c], TrInit, ops, 1)]]

\* the default configuration (128, 64, 1/10): c confirmations, then n Finds with a candidate; "deact" = number of Finds
\* after which the tracker is inactive (0 = stays active), i.e. the Find number deact+1 is the first answered -1
TrDefault == [warm |-> 128, interval |-> 64, num |-> 1, den |-> 10]
RECURSIVE TrHits(_, _, _, _)
TrHits(cfg, t, n, k) ==    \* k Finds done so far
  IF ~t.active THEN <<k, t>> ELSE IF k = n THEN <<0, t>> ELSE TrHits(cfg, TrFind(cfg, t, TRUE)[1], n, k+1)
TrLongC == <<0, 12, 13, 19, 20, 25, 26, 32>>
TrLongN == 330
TrLongRec == [k |-> "trklong", cfg |-> <<TrDefault.warm, TrDefault.interval, TrDefault.num, TrDefault.den>>, n |-> TrLongN,
  runs |-> [x \in 1..Len(TrLongC) |->
     LET r == TrHits(TrDefault, [TrInit EXCEPT !.conf = TrLongC[x]], TrLongN, 0)
     IN <<TrLongC[x], r[1], r[2].cand, r[2].conf, B2I(r[2].active)>>]]

HdrRec == [k |-> "hdr", nalpha |-> NAlpha, hays |-> Hays, bighays |-> HaysBig, dighays |-> HaysDig,
           nsets |-> NSets, nsmall |-> NSmall, shard |-> Shard, nshards |-> NShards]

(* ------------------------------------------------------------------ *)
(* teddy: the model against the reference                             *)
(* ------------------------------------------------------------------ *)
TeddyCfgs(L) ==
  LET ml == MinLen(L) IN
  {<<"slim", "overlap", fp, B>> : fp \in {f \in {1, 2} : f <= ml}, B \in {2, 4}}
    \cup {<<"slim", "scalar", fp, 4>> : fp \in {f \in {3, 4} : f <= ml}}
    \cup (IF ml >= 2 THEN {<<"fat", "carry", 2, B>> : B \in {2, 4}} ELSE {})
    \cup {<<"fat", "scalar", 1, 2>>}
TeddyRec(i) ==
  LET e == SetAt(i)
      L == e.L
      H == IF e.big THEN HaysBig ELSE Hays
      cs == TeddyCfgs(L)
      HS == {<<x, s>> \in (1..Len(H)) \X (0..(IF e.big THEN MaxHayBig ELSE MaxHay)) : s <= Len(H[x])}
      \* the reference, once per (haystack, start), through the one-pass formulation (checked against PMatch in phase gen)
      ref == TLCEval([x \in 1..Len(H) |-> LET m == TLCEval(LitVec(L, H[x])) IN TLCEval([s \in 0..Len(H[x]) |-> PMatchV(L, H[x], m, s)])])
      mb == UNION {LET c == MkTeddy(L, cf[1], cf[3], cf[4], cf[2])
                   IN {<<cf, t[1], t[2]>> : t \in {t \in HS : TeddyMatch(c, H[t[1]], t[2]) # ref[t[1]][t[2]]}} : cf \in cs}
      fb == {t \in mb : TeddyFind(MkTeddy(L, t[1][1], t[1][3], t[1][4], t[1][2]), H[t[2]], t[3]) # PFind(L, H[t[2]], t[3])}
  IN [k |-> "teddy", i |-> i, fam |-> e.fam, n |-> Len(L), cfgs |-> Cardinality(cs), cases |-> Cardinality(cs) * Cardinality(HS),
      findbad |-> Cardinality(fb), matchbad |-> Cardinality(mb),
      \* one witness: configuration, literals, haystack, start, model span, reference span
      witness |-> IF mb = {} THEN <<>> ELSE
        LET t == CHOOSE t \in mb : \A u \in mb : Len(H[t[2]]) <= Len(H[u[2]])
            c == MkTeddy(L, t[1][1], t[1][3], t[1][4], t[1][2])
        IN [cfg |-> t[1], lits |-> L, h |-> H[t[2]], s |-> t[3], model |-> TeddyMatch(c, H[t[2]], t[3]), ref |-> PMatch(L, H[t[2]], t[3])]]

(* ------------------------------------------------------------------ *)
(* state                                                              *)
(* ------------------------------------------------------------------ *)
VARIABLES idx, out, st
vars == <<idx, out, st>>

\* item numbering of phase gen: 0 header, 1..NSets literal sets, then the digit table, the long tracker runs, the short ones
NItems == NSets + 2 + NTrSeq
\* the sharded part is the small families; LONG (the last Len(LONG) sets of Base) and BIG are in every shard
GenIdx == {0} \cup {i \in 1..NSmall : i % NShards = Shard} \cup (NBase-Len(LONG)+1..NBase) \cup (NSmall+1..NSets) \cup {NSets+1, NSets+2}
          \cup {i \in NSets+3..NItems : i % NShards = Shard}
GenRec(i) == IF i = 0 THEN HdrRec
             ELSE IF i <= NSets THEN SetRec(i)
             ELSE IF i = NSets+1 THEN DigitRec
             ELSE IF i = NSets+2 THEN TrLongRec
             ELSE TrRec(i - NSets - 2)
TeddyIdx == {i \in 1..NSmall : i % NShards = Shard} \cup (NSmall+1..NSets)

(* ---- tracker machine ---- *)
TrM == [warm |-> 3, interval |-> 2, num |-> 1, den |-> 2]
TrMax == TrLen
TrackerInit == st = [t |-> TrInit, ans |-> "-", want |-> "-", n |-> 0]
TrackerNext ==
  /\ st.n < TrMax
  /\ \/ \E f \in BOOLEAN : LET r == TrFind(TrM, st.t, f) IN st' = [t |-> r[1], ans |-> r[2], want |-> TrWant(f), n |-> st.n + 1]
     \/ st' = [t |-> TrConfirm(st.t), ans |-> "-", want |-> "-", n |-> st.n + 1]
     \/ st' = [t |-> TrInit, ans |-> "-", want |-> "-", n |-> st.n + 1]

(* ---- candidate loops ---- *)
\* An abstract haystack of length n: CS = offsets where the prefilter's literals occur, MS = offsets where the regex
\* matches (MS \subseteq CS: the literals are necessary prefixes).  The prefilter is ASSUMED to satisfy C16:
\* Find(at) = the smallest candidate >= at.  Shapes:
\*   unanch    verify with an unanchored search from the candidate (isMatchNFA, findIndicesNFA*)
\*   anch      verify with an anchored search at the candidate (findIndicesDFA*, digit prefilter)
\*   digitrun  anch + skip the rest of the candidate run after a failure; the engine enables this only when
\*             a failure at the first offset of a run excludes a match at every other offset of the run (RunSafe)
\*   digitrun_unsafe   the same without that side condition (negative control)
\*   trk       a loop that obeys the Tracker protocol: IsActive() is consulted, an inactive tracker means full scan
\*   trk_blind a loop that treats the tracker like any other prefilter (negative control)
MinOrNone(S) == IF S = {} THEN -1 ELSE MinOf(S)
PF(l, at) == MinOrNone({c \in l.CS : c >= at})
RunEnd(l, p) == MinOf({e \in p+1..l.n : e \notin l.CS})       \* first offset after the run of candidates holding p
RunSafe(n, CS, MS) == \A m \in MS : m = 0 \/ (m-1) \notin CS  \* matches start only at the first offset of a run
LoopTr == [warm |-> 2, interval |-> 1, num |-> 1, den |-> 2]
LoopInit ==
  \E n \in 0..LoopN : \E CS \in SUBSET (0..n-1) : \E MS \in SUBSET CS : \E sh \in LoopShapes :
    /\ sh = "digitrun" => RunSafe(n, CS, MS)
    /\ st = [n |-> n, CS |-> CS, MS |-> MS, shape |-> sh, at |-> 0, t |-> TrInit, done |-> FALSE, res |-> -1]
Finish(l, r) == [l EXCEPT !.done = TRUE, !.res = r]
LoopStep(l) ==
  IF l.at >= l.n THEN Finish(l, -1)
  ELSE IF l.shape = "trk" /\ ~l.t.active THEN Finish(l, MinOrNone({m \in l.MS : m >= l.at}))     \* fall back to a full scan
  ELSE LET found == PF(l, l.at) # -1
           r == IF l.shape \in {"trk", "trk_blind"} THEN TrFind(LoopTr, l.t, found) ELSE <<l.t, TrWant(found)>>
           pos == IF r[2] = "pos" THEN PF(l, l.at) ELSE -1
           l1 == [l EXCEPT !.t = r[1]]
       IN IF pos = -1 THEN Finish(l1, -1)
          ELSE IF l.shape = "unanch"
               THEN LET m == MinOrNone({x \in l.MS : x >= pos}) IN IF m # -1 THEN Finish(l1, m) ELSE [l1 EXCEPT !.at = pos + 1]
               ELSE IF pos \in l.MS THEN Finish(l1, pos)
                    ELSE IF l.shape \in {"digitrun", "digitrun_unsafe"} THEN [l1 EXCEPT !.at = RunEnd(l, pos)]
                    ELSE [l1 EXCEPT !.at = pos + 1]
LoopNext == ~st.done /\ st' = LoopStep(st)

Init ==
  CASE Phase = "gen"     -> idx \in GenIdx /\ out = <<>> /\ st = 0
    [] Phase = "teddy"   -> idx \in TeddyIdx /\ out = <<>> /\ st = 0
    [] Phase = "tracker" -> idx = 0 /\ out = <<>> /\ TrackerInit
    [] Phase = "loop"    -> idx = 0 /\ out = <<>> /\ LoopInit
Next ==
  CASE Phase = "gen"     -> out = <<>> /\ out' = GenRec(idx) /\ UNCHANGED <<idx, st>>
    [] Phase = "teddy"   -> out = <<>> /\ out' = TeddyRec(idx) /\ UNCHANGED <<idx, st>>
    [] Phase = "tracker" -> TrackerNext /\ UNCHANGED <<idx, out>>
    [] Phase = "loop"    -> LoopNext /\ UNCHANGED <<idx, out>>
Spec == Init /\ [][Next]_vars

Emit == out = <<>> \/ PrintT(ToJson(out))

\* phase teddy
TeddyFindOK == (Phase = "teddy" /\ out # <<>>) => out.findbad = 0
TeddyMatchOK == (Phase = "teddy" /\ out # <<>>) => out.matchbad = 0

\* phase tracker
TrackerSafe ==
  Phase = "tracker" =>
    /\ st.t.cand < TrM.warm => st.t.active                                     \* never retired during warm-up
    /\ ~st.t.active => st.t.last >= TrM.warm /\ st.t.last = st.t.cand          \* retired at a checkpoint, then frozen
    /\ st.t.last <= st.t.cand
TrackerDocOK == Phase = "tracker" => (st.ans # st.want => (~st.t.active /\ st.ans = "none"))   \* the only deviation: -1 once retired
TrackerNeverSkips == Phase = "tracker" => st.ans = st.want                                    \* C16, literally

\* phase loop
NoSkip == Phase = "loop" => (~st.done => \A m \in st.MS : m >= st.at)
ResultOK == Phase = "loop" => (st.done => st.res = MinOrNone(st.MS))
=============================================================================
