------------------------------ MODULE UTF8 ------------------------------
(***************************************************************************)
(* UTF-8 as package regexp sees it: Encode a code point, Decode one step   *)
(* of a byte string (utf8.DecodeRune: an ill-formed byte is delivered as   *)
(* U+FFFD with width 1; overlong forms, surrogates and values above        *)
(* U+10FFFF are ill-formed).                                               *)
(***************************************************************************)
EXTENDS Integers, Sequences

RuneError == 65533
MaxRune   == 1114111
IsSurrogate(r) == r >= 55296 /\ r <= 57343
ValidRune(r) == r >= 0 /\ r <= MaxRune /\ ~IsSurrogate(r)

Encode(r) ==
  IF r < 128 THEN <<r>>
  ELSE IF r < 2048 THEN <<192 + (r \div 64), 128 + (r % 64)>>
  ELSE IF r < 65536 THEN <<224 + (r \div 4096), 128 + ((r \div 64) % 64), 128 + (r % 64)>>
  ELSE <<240 + (r \div 262144), 128 + ((r \div 4096) % 64), 128 + ((r \div 64) % 64), 128 + (r % 64)>>

IsCont(b) == b >= 128 /\ b <= 191
\* one decoding step at position i (1-based) of byte sequence s: <<rune, width>>
DecodeAt(s, i) ==
  LET b0 == s[i]
      has(k) == i + k <= Len(s) /\ IsCont(s[i + k])
      c(k) == s[i + k] % 64
      bad == <<RuneError, 1>>
  IN IF b0 < 128 THEN <<b0, 1>>
     ELSE IF b0 < 194 THEN bad                                  \* continuation byte or overlong lead C0, C1
     ELSE IF b0 < 224 THEN (IF has(1) THEN <<(b0 % 32) * 64 + c(1), 2>> ELSE bad)
     ELSE IF b0 < 240 THEN
          (IF has(1) /\ has(2)
           THEN LET r == (b0 % 16) * 4096 + c(1) * 64 + c(2) IN
                IF r < 2048 \/ IsSurrogate(r) THEN bad ELSE <<r, 3>>
           ELSE bad)
     ELSE IF b0 < 245 THEN
          (IF has(1) /\ has(2) /\ has(3)
           THEN LET r == (b0 % 8) * 262144 + c(1) * 4096 + c(2) * 64 + c(3) IN
                IF r < 65536 \/ r > MaxRune THEN bad ELSE <<r, 4>>
           ELSE bad)
     ELSE bad

\* a byte string is exactly one decoding step long
SingleStep(s) == s # <<>> /\ DecodeAt(s, 1)[2] = Len(s)
=============================================================================
