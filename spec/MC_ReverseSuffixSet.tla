------------------------- MODULE MC_ReverseSuffixSet -------------------------
(* For every pattern  A.(L1|L2)  of the family and every haystack over its own symbols: the entry points of the
   reverse-suffix-set driver (ReverseSuffixSet.tla) against the reference; one record per pattern for `revsuffix`. *)
EXTENDS Universe, ReverseSuffixSet, Json

CONSTANTS Family, Shard, NShards, Budget, LCap, Claim

SSWild == {Star(Dot,TRUE), Plus(Dot,TRUE), Plus(Cls({sa,sb}),TRUE), Plus(Cls({sa,sb,sc}),TRUE), Rep(Cls({sa,sc}),1,2,TRUE),
           Cat(Lit(sc), Star(Dot,TRUE)), Rep(Cat(Plus(Lit(sa),TRUE), Lit(sb)),1,2,TRUE)}
\* the multi-literal prefilter needs literals of at least 3 bytes
SSPairs == {<<<<sa,sb,sc>>, <<sb,sc,sa>>>>, <<<<sa,sb,sa>>, <<sb,sa,sb>>>>, <<<<sa,sa,sb>>, <<sa,sb,sa>>>>,
            <<<<sa,sb,sa,sb>>, <<sb,sa,sb>>>>, <<<<sb,sa,sb>>, <<sa,sb,sa,sb>>>>, <<<<sc,sc,sa>>, <<sc,sa,sc>>>>}
SSG == {[A |-> w, LS |-> p] : w \in SSWild, p \in SSPairs}

Base == SetToSeq(SSG)
Idx == {i \in 1..Len(Base) : i % NShards = Shard} \cup {0}

VARIABLES idx, out, bad
vars == <<idx, out, bad>>

Off2(h, m) == IF m = <<>> THEN <<>> ELSE <<Off(h, m[1]), Off(h, m[2])>>

Eval(i) ==
  LET A    == Base[i].A
      LS   == Base[i].LS
      re   == Cat(A, Alt(LitStr(LS[1]), LitStr(LS[2])))
      rn   == Number(re, 1)
      prog == Prog(Simp(rn))
      nc   == NCaps(re)
      msz  == A.op = "star" /\ A.a.op = "any"           \* meta.hasDotStarPrefix
      al   == SymsIn(re) \cup (IF HasOp(re, {"any"}) THEN {NL} ELSE {})
      L    == LenFor(Cardinality(al), Budget, LCap)
      H    == SetToSeq(SeqsUpTo(al, L) \cup Splice(prog, al, Budget \div 3))
      fa(h) == [p \in 1..(Len(h)+1) |-> SSFindAt(prog, nc, LS, msz, h, p)]
      rf(h) == [p \in 1..(Len(h)+1) |-> Two(FindP(prog, nc, h, p, FALSE))]
      Bad(h) == \/ \E p \in 1..Len(h) : fa(h)[p] # rf(h)[p]
                \/ SSIsMatch(prog, nc, LS, h) # (rf(h)[1] # <<>>)
  IN [rec |-> [fam |-> Family, i |-> i, re |-> rn, nc |-> nc, names |-> Names(rn),
               ssL |-> <<Bytes(LS[1]), Bytes(LS[2])>>, msz |-> msz,
               hs |-> [j \in 1..Len(H) |->
                         [h |-> H[j],
                          rfa |-> [p \in 1..(Len(H[j])+1) |-> Off2(H[j], fa(H[j])[p])],
                          rf  |-> Off2(H[j], SSFind(prog, nc, LS, msz, H[j])),
                          rim |-> SSIsMatch(prog, nc, LS, H[j]),
                          atf |-> [p \in 1..(Len(H[j])+1) |-> Off2(H[j], rf(H[j])[p])],
                          rbad |-> Bad(H[j])]]],
      bad |-> {j \in 1..Len(H) : Bad(H[j])}]

Init == idx \in Idx /\ out = <<>> /\ bad = {}
Next == /\ out = <<>>
        /\ IF idx = 0 THEN out' = [sym |-> Sym, fam |-> Family] /\ bad' = {}
           ELSE LET e == Eval(idx) IN out' = e.rec /\ bad' = e.bad
        /\ UNCHANGED idx
Spec == Init /\ [][Next]_vars
Emit == out = <<>> \/ PrintT(ToJson(out))
Exact == Claim => bad = {}
=============================================================================
