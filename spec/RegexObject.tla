------------------------------ MODULE RegexObject ------------------------------
(***************************************************************************)
(* The life cycle of Regex values (C09 Copy/Marshal, C10 mode isolation,   *)
(* C13 history independence).                                              *)
(*                                                                         *)
(* A value is (pattern, match mode); nothing else.  Actions:               *)
(*   Compile(v,p) CompilePOSIX(v,p) Copy(v,w) Longest(v) Marshal(v,w)      *)
(*   Use(v)       any number of search calls on v -- changes NOTHING       *)
(* What a call on v returns is RegexAPI of (pattern(v), mode(v), args):    *)
(* it depends neither on other values nor on what happened before.         *)
(*                                                                         *)
(* TLC explores the whole state graph (it is small) and prints every       *)
(* transition <<pre, action, post>>.  The harness turns each one into a    *)
(* test of the real objects: build pre, perform the action, then probe     *)
(* EVERY live value on EVERY haystack and compare with Expected(post).     *)
(***************************************************************************)
EXTENDS RegexAPI, Json

CONSTANTS Vals            \* value slots, e.g. {1,2,3}

sa == 1  sb == 2  sc == 3  sx == 4  snl == 10
Pats == << Alt(Lit(sa), LitStr(<<sa,sb>>)),                                        \* a|ab
           Cat(Cap(Star(Lit(sa),TRUE)), Cap(Alt(Lit(sa),Lit(sb)))),                \* (a*)(a|b)
           Star(Lit(sa), FALSE),                                                   \* a*?
           Cat(Cap(Alt(Lit(sa), LitStr(<<sa,sb>>))), Cap(Alt(Lit(sc), LitStr(<<sb,sc,sx>>)))),   \* (a|ab)(c|bcx)
           Plus(Cls({sa,sb}), TRUE),                                               \* [ab]+
           Cat(Cap(Quest(Lit(sa),FALSE)), Star(Cls({sa,sb}),TRUE)),                \* (a??)[ab]*
           Cat(Look("bol"), Cat(Plus(Lit(sa),TRUE), Look("eol"))),                 \* (?m)^a+$ - in POSIX syntax plain ^a+$: the
                                                                                   \* two syntaxes read the same text differently
           Cat(Look("bot"), Cat(Plus(Lit(sa),TRUE), Look("eot"))) >>                \* ^a+$ as Perl syntax reads it
PosixOK == {1, 4, 5, 7}   \* expressible in POSIX ERE with the same meaning
\* MarshalText yields the pattern TEXT and UnmarshalText reads it with Perl syntax: the text of POSIX value 7 is "^a+$"
PerlReadingOfPosixText(p) == IF p = 7 THEN 8 ELSE p
Hays == << <<>>, <<sa,sb>>, <<sa,sb,sc,sx>>, <<sb,sa,sa>>, <<sx,sa,sb,sa,sb>>, <<sb,snl,sa,sa,snl,sa>> >>

Nil == [pat |-> 0, longest |-> FALSE, posix |-> FALSE]
VARIABLE obj
TypeOK == obj \in [Vals -> [pat : 0..Len(Pats), longest : BOOLEAN, posix : BOOLEAN]]

\* what every search of value o must report on haystack h: FindAllSubmatchIndex(h, -1)
Expected(o, h) == AllSubP(Compile(Pats[o.pat]), NCaps(Pats[o.pat]), h, o.longest)

Live(o) == o.pat # 0
Apply(a) ==
  CASE a.op = "Compile"      -> [obj EXCEPT ![a.v] = [pat |-> a.p, longest |-> FALSE, posix |-> FALSE]]
    [] a.op = "CompilePOSIX" -> [obj EXCEPT ![a.v] = [pat |-> a.p, longest |-> TRUE,  posix |-> TRUE]]
    [] a.op = "Copy"         -> [obj EXCEPT ![a.w] = obj[a.v]]
    [] a.op = "Longest"      -> [obj EXCEPT ![a.v].longest = TRUE]
    [] a.op = "Marshal"      -> [obj EXCEPT ![a.w] = [pat |-> IF obj[a.v].posix THEN PerlReadingOfPosixText(obj[a.v].pat) ELSE obj[a.v].pat,
                                                      longest |-> FALSE, posix |-> FALSE]]
    [] a.op = "Use"          -> obj

Actions ==
  [op : {"Compile"}, v : Vals, p : 1..Len(Pats)]
  \cup [op : {"CompilePOSIX"}, v : Vals, p : PosixOK]
  \cup {a \in [op : {"Copy", "Marshal"}, v : Vals, w : Vals] : a.v # a.w /\ Live(obj[a.v])}
  \cup {a \in [op : {"Longest", "Use"}, v : Vals] : Live(obj[a.v])}

Probe(o) == IF Live(o) THEN [h \in DOMAIN Hays |-> Expected(o, Hays[h])] ELSE <<>>

Init == obj = [v \in Vals |-> Nil]
Next == \E a \in Actions :
          /\ obj' = Apply(a)
          /\ PrintT(ToJson([pre |-> obj, act |-> a, post |-> obj', probes |-> [v \in Vals |-> Probe(Apply(a)[v])]]))
Spec == Init /\ [][Next]_obj

\* per-value mode: Longest on one value never changes another value (C10); stated as an action property
ModeIsolation == [][\A a \in Actions : obj' = Apply(a) => \A u \in Vals : (u \notin {IF "v" \in DOMAIN a THEN a.v ELSE 0, IF "w" \in DOMAIN a THEN a.w ELSE 0} => obj'[u] = obj[u])]_obj
Header == [sym |-> Sym, pats |-> [i \in DOMAIN Pats |-> Number(Pats[i], 1)], hays |-> Hays, posix |-> PosixOK]
ASSUME PrintT(ToJson(Header))
=============================================================================
