------------------------------ MODULE Backtrack ------------------------------
(***************************************************************************)
(* The generation-stamped visited table of the bounded backtracker         *)
(* (nfa/backtrack.go: reset, shouldVisit, SearchAtWithState) - C13, C14,   *)
(* C20.                                                                    *)
(*                                                                         *)
(* One BacktrackerState is reused for all searches of a value.  The table  *)
(* has a capacity (entries ever allocated) and a length (entries of the    *)
(* current search); a cell counts as "visited" iff its stamp equals the    *)
(* current generation.  The generation is bumped at every search entry and *)
(* once per start position, modulo G (65536 in the code); on overflow the  *)
(* table is cleared and the generation restarts at 1.                      *)
(*                                                                         *)
(* The table is abstracted to one cell per haystack position (one NFA      *)
(* state).  An attempt from start position s may stamp any cell c >= s of  *)
(* the live span, so may[c] is the set of stamps cell c can carry.         *)
(*                                                                         *)
(* WrapClears:  "len"  clear Visited[:len]  (the code as found)            *)
(*              "cap"  clear Visited[:cap]  (the repair)                   *)
(* TLC finds NoStale violated for "len" and true for "cap".                *)
(***************************************************************************)
EXTENDS Integers, Sequences, FiniteSets, TLC

CONSTANTS G,            \* generation modulus (real: 65536)
          MaxN,         \* longest haystack span
          MaxSearches,  \* bound on the history
          WrapClears    \* "len" | "cap"

Cells == 0..MaxN
VARIABLES may,      \* may[c]: stamps cell c can carry
          cap, len, \* capacity and live length, in cells
          gen,      \* current generation, 0..G-1
          pc,       \* "idle" | "attempt"
          n, start, \* span of the current search, current start position
          nsearch
vars == <<may, cap, len, gen, pc, n, start, nsearch>>

Init == /\ may = [c \in Cells |-> {}] /\ cap = 0 /\ len = 0 /\ gen = 0
        /\ pc = "idle" /\ n = 0 /\ start = 0 /\ nsearch = 0

Cleared(m, upto) == [c \in Cells |-> IF c < upto THEN {} ELSE m[c]]
ClearOnWrap(m, l, cp) == Cleared(m, IF WrapClears = "cap" THEN cp ELSE l)

\* reset(): search entry for a span of m bytes (m+1 cells)
Begin(m) ==
  /\ pc = "idle" /\ nsearch < MaxSearches
  /\ LET need    == m + 1
         realloc == cap < need
         may1    == IF realloc THEN [c \in Cells |-> {}] ELSE may
         cap1    == IF realloc THEN need ELSE cap
         g1      == ((IF realloc THEN 0 ELSE gen) + 1) % G
     IN /\ cap' = cap1 /\ len' = need
        /\ IF g1 = 0 THEN may' = ClearOnWrap(may1, need, cap1) /\ gen' = 1
                     ELSE may' = may1 /\ gen' = g1
  /\ n' = m /\ start' = 0 /\ pc' = "attempt" /\ nsearch' = nsearch + 1

\* one attempt from `start`: stamps cells at or after start; then a match ends the search,
\* a failure bumps the generation and moves to the next start position
Attempt(matched) ==
  /\ pc = "attempt"
  /\ LET may1 == [c \in Cells |-> IF c >= start /\ c < len THEN may[c] \cup {gen} ELSE may[c]] IN
     IF matched
     THEN /\ may' = may1 /\ pc' = "idle" /\ UNCHANGED <<gen, start>>
     ELSE LET g1 == (gen + 1) % G IN
          /\ IF g1 = 0 THEN may' = ClearOnWrap(may1, len, cap) /\ gen' = 1
                       ELSE may' = may1 /\ gen' = g1
          /\ start' = start + 1
          /\ pc' = IF start + 1 > n THEN "idle" ELSE "attempt"
  /\ UNCHANGED <<cap, len, n, nsearch>>

Next == (\E m \in 0..MaxN : Begin(m)) \/ (\E b \in BOOLEAN : Attempt(b))
Spec == Init /\ [][Next]_vars /\ WF_vars(Next)

TypeOK == /\ gen \in 0..(G-1) /\ cap \in 0..(MaxN+1) /\ len \in 0..(MaxN+1) /\ pc \in {"idle","attempt"}
\* at the start of an attempt no cell it may need carries the current stamp (nothing looks visited)
NoStale == pc = "attempt" => \A c \in Cells : (c >= start /\ c < len) => gen \notin may[c]
\* C20: the live table never exceeds the capacity, the capacity never exceeds what the longest span needs
Bounded == len <= cap /\ cap <= MaxN + 1
\* every search terminates
Termination == []<>(pc = "idle")
=============================================================================
