------------------------------ MODULE Universe ------------------------------
(***************************************************************************)
(* The enumerated pattern universe: a union of families, each a TLA+ set   *)
(* comprehension over the abstract syntax of RegexRef, so that TLC         *)
(* enumerates them.  Families are designed after the strategy selector of  *)
(* coregex (meta/strategy.go): each family sits on a fast path or on the   *)
(* boundary of one.  The universe is FIXED: VERIF_SEED only selects which  *)
(* shard of it a quick run explores.                                       *)
(***************************************************************************)
EXTENDS RegexAPI, SequencesExt

\* symbol ids (see Symbols.tla)
sa == 1  sb == 2  sc == 3  sx == 4  s0 == 5  s1 == 6  sdot == 7  sat == 8  ssp == 9  snl == 10
sus == 11  sdash == 12  sA == 13  sk == 14  sK == 15  sKEL == 16  se == 17  sE == 18  ss == 19
sS == 20  slngs == 21  sshi == 22  sgrin == 23  sfffd == 24  s9 == 29  sz == 30

(* one and two levels of closure over a set of atoms *)
Close(S, lazy) ==
  S \cup {Cat(a,b) : a \in S, b \in S}
    \cup {Alt(a,b) : a \in S, b \in S}
    \cup {Star(a,g)  : a \in S, g \in (IF lazy THEN BOOLEAN ELSE {TRUE})}
    \cup {Plus(a,g)  : a \in S, g \in (IF lazy THEN BOOLEAN ELSE {TRUE})}
    \cup {Quest(a,g) : a \in S, g \in (IF lazy THEN BOOLEAN ELSE {TRUE})}
    \cup {Cap(a) : a \in S}
Depth2(A, lazy) == Close(Close(A, lazy), lazy)

(* ---- G2: everything of depth <= 2 over small atom sets ---- *)
\* Depth-2 families are too large to build as sets (75 k nested records take TLC 25 s to
\* normalise); they are enumerated by index instead: D2At(C, n) decodes n \in 1..D2Size(C)
\* into a pattern whose children come from the sequence C of depth-<=1 patterns.
G2aAtoms == {Lit(sa), Lit(sb), Cls({sa,sb}), Dot, Emp, Look("wb")}
G2xAtoms == {Lit(sa), Look("bot"), Look("eot"), Emp}
G2mAtoms == {Lit(sa), Lit(snl), Look("bol"), Look("eol"), Look("nwb"), DotS}
G2uAtoms == {Lit(se), Cls({sa,se}), NCls({sa}), LitF(sk), Dot, Lit(sa)}
D2Size(C) == LET n == Len(C) IN n + 2*n*n + 7*n
D2At(C, k) ==
  LET n == Len(C) IN
  IF k <= n THEN C[k]
  ELSE IF k <= n + n*n THEN LET j == k - n - 1 IN Cat(C[(j \div n) + 1], C[(j % n) + 1])
  ELSE IF k <= n + 2*n*n THEN LET j == k - n - n*n - 1 IN Alt(C[(j \div n) + 1], C[(j % n) + 1])
  ELSE LET j == k - n - 2*n*n - 1   u == j \div n   a == C[(j % n) + 1] IN
       CASE u = 0 -> Star(a, TRUE)  [] u = 1 -> Star(a, FALSE) [] u = 2 -> Plus(a, TRUE) [] u = 3 -> Plus(a, FALSE)
         [] u = 4 -> Quest(a, TRUE) [] u = 5 -> Quest(a, FALSE) [] u = 6 -> Cap(a)

(* ---- G1: EVERYTHING of depth <= 1 over the union of the atom sets (the simple shapes every strategy is selected by):
        the depth-2 families are sampled (4 shards of 16..64), this one is in the universe as a whole ---- *)
G1Atoms == G2aAtoms \cup G2xAtoms \cup G2mAtoms \cup G2uAtoms
           \cup {Lit(s0), Cls({s0,s1}), NCls({sa,sb}), Lit(sdot), Cls({sa,sb,sc,sx,s0,s1,sus}), Look("nwb"), LitF(sa), LitStr(<<sa,sb>>)}
G1(z) == Close(G1Atoms, TRUE)

(* ---- LIT: literals and alternations of literals ---- *)
Words(S, n) == UNION {[1..k -> S] : k \in 1..n}
W3 == Words({sa,sb,sc}, 3)
LIT(z) == {LitStr(w) : w \in Words({sa,sb,sc}, 4)}
       \cup {Alt(LitStr(u), LitStr(v)) : u \in W3, v \in W3}
       \cup {AltSeq(<<LitStr(u), LitStr(v), LitStr(w)>>) : u \in Words({sa,sb},2), v \in Words({sa,sb},2), w \in Words({sa,sc},2)}
       \cup {Cap(Alt(LitStr(u), LitStr(v))) : u \in Words({sa,sb},2), v \in Words({sa,sb},3)}
FoldStr(w) == CatSeq([i \in 1..Len(w) |-> LitF(w[i])])
LITF(z) == {FoldStr(w) : w \in Words({sa,sk,ss}, 3)}
        \cup {Alt(FoldStr(u), FoldStr(v)) : u \in Words({sa,sk},2), v \in Words({sk,ss},2)}

(* ---- wild-card prefixes / infixes around literals: reverse-suffix, reverse-inner ---- *)
Wild == {Star(Dot,TRUE), Plus(Dot,TRUE), Star(DotS,TRUE), Plus(Cls({sa,sb}),TRUE), Plus(NCls({sx}),TRUE),
         Star(Dot,FALSE), Plus(Cls({sa,sb,s0,sus}),TRUE), Rep(Lit(sx),1,3,TRUE), Star(Cls({sa,sb}),TRUE)}
L2 == {LitStr(w) : w \in UNION {[1..k -> {sa,sb,sdot}] : k \in 1..3}}
L2s == {LitStr(w) : w \in UNION {[1..k -> {sa,sb}] : k \in 2..3}}
SUF(z) == {Cat(w, l) : w \in Wild, l \in L2}
INN(z) == {Cat(w, Cat(l, v)) : w \in Wild, l \in L2s, v \in Wild}
SET(z) == {Cat(w, Alt(l, m)) : w \in Wild, l \in L2s, m \in L2s}
ML(z) == {Cat(Look("bol"), Cat(w, l)) : w \in Wild, l \in L2}
       \cup {Cat(Look("bol"), l) : l \in L2} \cup {Cat(l, Look("eol")) : l \in L2}

\* class / bounded prefix + a suffix literal that overlaps itself: a rejected occurrence is overlapped by the valid one
OVL(z) == {Cat(w, LitStr(l)) : w \in {Plus(Cls({sa,sb}),TRUE), Plus(Dot,TRUE), Rep(Cls({sa,sb}),2,2,TRUE), Plus(Cls({sa,sb,s0}),TRUE), Rep(Cls({s0,s1}),1,2,TRUE)},
                              l \in {<<sa,sa>>, <<sa,sb,sa>>, <<sa,sb,sa,sb>>, <<sdot,sa,sdot,sa>>, <<s0,s0>>, <<sdash,s1,sdash,s1>>}}

(* ---- anchored ---- *)
Body == Close({Lit(sa), Lit(sb), Cls({sa,sb}), Dot}, FALSE) \cup L2
ANC(z) == {Cat(Look("bot"), b) : b \in Body} \cup {Cat(b, Look("eot")) : b \in Body}
       \cup {Cat(Look("bot"), Cat(b, Look("eot"))) : b \in Body}
       \cup {Cat(Look("bot"), Cat(Alt(l, m), b)) : l \in {Lit(sa), Plus(Lit(sa),TRUE), LitStr(<<sb,sc>>), Cls({s0,s1})},
                                                   m \in {Lit(sb), LitStr(<<sb,sa>>), Look("eot"), Cls({sa,sb,sus})},
                                                   b \in {Emp, Lit(sc), LitStr(<<sa,sb>>), Star(Dot,TRUE)}}
       \cup {Cat(Look("bot"), Cat(p, Cat(Star(Dot,TRUE), Cat(s, Look("eot"))))) : p \in L2, s \in L2}

(* ---- sequences of class repetitions: CharClassSearcher / Composite ---- *)
Classes == {Cls({sa,sb}), Cls({sb,sc}), Cls({s0,s1}), Cls({sa,s0}), Cls({sa,se}), NCls({sa}), Cls({sa})}
Quants(c) == {Plus(c,TRUE), Star(c,TRUE), Quest(c,TRUE), Plus(c,FALSE), Rep(c,1,2,TRUE), Rep(c,2,-1,TRUE), c}
CQ == UNION {Quants(c) : c \in Classes}
CC(z) == CQ \cup {Cat(p, q) : p \in CQ, q \in CQ}
CC3(z) == {Cat(Plus(c1,TRUE), Cat(q, Plus(c3,TRUE))) : c1 \in Classes, q \in CQ, c3 \in Classes}

\* all-plus ASCII sequences of three and four classes (the composite sequence DFA): a family of its own, so that every run sees them
AClasses == {Cls({sa,sb}), Cls({sb,sc}), Cls({s0,s1}), Cls({sa,s0}), Cls({sa})}
TRI(z) == {Cat(Plus(c1,TRUE), Cat(Plus(c2,TRUE), Plus(c3,TRUE))) : c1 \in AClasses, c2 \in AClasses, c3 \in AClasses}
          \cup {Cat(Plus(c1,TRUE), Cat(Plus(c2,TRUE), Cat(Plus(c1,TRUE), Plus(c3,TRUE)))) : c1 \in {Cls({sa,sb}), Cls({sa,s0})}, c2 \in {Cls({sb,sc}), Cls({sa,sb})}, c3 \in {Cls({s0,s1}), Cls({sb,sc})}}

(* ---- digit-lead patterns ---- *)
Dg == Cls({s0,s1,s9})
DIG(z) == {Cat(Plus(Dg,TRUE), Cat(Lit(sdot), Plus(Dg,TRUE))),
        Alt(Cat(Lit(s1), Plus(Dg,TRUE)), Cat(Lit(s0), Dg)),
        Cat(Quest(Cls({s0,s1}),TRUE), Cat(Dg, Lit(sx))),
        Cat(Dg, Cat(Dg, Lit(sa))),
        Alt(Cat(Lit(s1),Cat(Dg,Dg)), Alt(Cat(Lit(s9), Dg), Dg)),
        Cat(Rep(Dg,1,3,TRUE), Cat(Lit(sdot), Rep(Dg,1,3,TRUE)))}
       \cup {Cat(Plus(Dg,g), t) : g \in BOOLEAN, t \in {Lit(sa), Lit(sdot), Cls({sa,sb}), Look("wb"), Look("eot"), Plus(Cls({sa,s0}),TRUE)}}
       \cup {Cat(Dg, Cat(w, l)) : w \in {Star(Dot,TRUE), Plus(Dg,TRUE), Star(Cls({sa,s0}),TRUE)}, l \in {Lit(sa), LitStr(<<s0,sa>>), Dg}}

(* ---- captures ---- *)
CAP(z) == {Cap(a) : a \in Close({Lit(sa), Lit(sb), Emp}, TRUE)}
       \cup {q : q \in UNION {{Star(Cap(a),g), Plus(Cap(a),g), Quest(Cap(a),g)} :
                   a \in Close({Lit(sa), Lit(sb)}, TRUE), g \in BOOLEAN}}
       \cup {Cat(Cap(a), Cap(b)) : a \in Close({Lit(sa)}, TRUE), b \in Close({Lit(sa), Lit(sb)}, FALSE)}
       \cup {Cap(Alt(Cap(a), Cap(b))) : a \in {Lit(sa), Plus(Lit(sa),TRUE), Emp, LitStr(<<sa,sb>>)},
                                        b \in {Lit(sb), Star(Lit(sa),TRUE), LitStr(<<sa,sb>>), Emp}}
       \cup {Cat(Look("bot"), Cat(Cap(a), Cat(Cap(b), Look("eot")))) :
                   a \in {Plus(Cls({sa,sb}),TRUE), Star(Lit(sa),TRUE), Quest(Lit(sa),TRUE), Plus(Lit(sa),FALSE)},
                   b \in {Lit(sb), Star(Lit(sb),TRUE), Plus(Cls({sb,sc}),TRUE), Emp}}
       \cup {Cat(CapN(a, <<110>>), Cat(Lit(sdash), CapN(b, <<109,50>>))) :
                   a \in {Plus(Cls({sa,sb}),TRUE), Star(Lit(sa),TRUE)}, b \in {Plus(Cls({s0,s1}),TRUE), Quest(Lit(s0),TRUE)}}

(* ---- a group that takes part in a failed attempt (or an earlier alternative) and not in the match ---- *)
CAPX(z) == {Cat(x, t) : x \in {Quest(Cap(Lit(sa)), TRUE), Star(Cap(Lit(sa)), TRUE), Alt(Cat(Cap(Lit(sa)), Lit(sx)), Lit(sb)),
                                Alt(Cap(Lit(sa)), Lit(sb)), Quest(Cap(Alt(Lit(sa), Lit(sb))), TRUE), Cat(Cap(Lit(sa)), Quest(Lit(sx), TRUE)),
                                Quest(Cat(Cap(Plus(Cls({s0,s1}), TRUE)), Lit(sdot)), TRUE)},
                         t \in {Lit(sb), Lit(sc), Cat(Plus(Lit(sb), TRUE), Lit(sc)), Cap(Lit(sc)), Cap(Plus(Cls({s0,s1}), TRUE))}}

(* ---- counted repetition ---- *)
RepOK(mn, mx) == mx = -1 \/ (mx >= mn /\ mx >= 1) \/ (mn = 0 /\ mx = 0)
REP(z) == {Rep(t[1], t[2], t[3], t[4]) :
          t \in {u \in {Lit(sa), Cls({sa,sb}), Cap(Lit(sa)), Alt(Lit(sa),Emp), Quest(Lit(sa),TRUE), Cap(Star(Lit(sa),TRUE))}
                        \X (0..2) \X {-1,0,1,2,3} \X BOOLEAN : RepOK(u[2], u[3])}}
       \cup {Rep(CapN(Lit(sa), <<110>>), mn, mx, TRUE) : mn \in {0, 2}, mx \in {-1, 2, 3}}              \* named group under a counted repetition
       \cup {Cat(Rep(Cat(CapN(Cls({sa,sb}), <<110>>), Lit(sdash)), 1, 2, TRUE), CapN(Lit(sb), <<109,50>>))}
       \cup {Cat(Rep(t[1], t[2], t[3], TRUE), t[4]) :
          t \in {u \in {Lit(sa), Cls({sa,sb})} \X (0..2) \X {-1,2,3} \X {Lit(sa), Lit(sb)} : RepOK(u[2], u[3])}}

(* ---- UTF-8 flavoured ---- *)
U8(z) == Close({Lit(se), Lit(sshi), Lit(sgrin), Cls({se,sshi}), NCls({se}), NCls({sa,sgrin}), LitF(se), LitF(sk), LitF(ss),
             ClsF({sk}), Dot, DotS, Lit(sfffd), Cls({sa,sfffd})}, FALSE)

\* A family is a sequence (so that it can be sharded by index).
(* ---- large literal alternations: Teddy (2..32 literals), Fat Teddy (33..64), Aho-Corasick (> 64) ---- *)
\* the k-th word over {a,b,c}: base-3 digits of k, length 3 (k < 27) or 4
Digit3(d) == IF d = 0 THEN sa ELSE IF d = 1 THEN sb ELSE sc
Word3(k) == IF k < 27 THEN <<Digit3(k \div 9), Digit3((k \div 3) % 3), Digit3(k % 3)>>
            ELSE LET j == k - 27 IN <<Digit3((j \div 27) % 3), Digit3((j \div 9) % 3), Digit3((j \div 3) % 3), Digit3(j % 3)>>
\* n distinct words starting at offset o, stride st (st coprime to 108 visits all words)
BigAlt(n, o, st) == AltSeq([i \in 1..n |-> LitStr(Word3((o + i * st) % 108))])
\* the same over an alphabet whose bytes differ in their HIGH nibble (A = 0x41, 0 = 0x30, x = 0x78): the nibble tables of the
\* Teddy variants have one row per nibble value, an alphabet inside one row (a b c = 0x6.) cannot tell the rows apart
Digit3M(d) == IF d = 0 THEN sA ELSE IF d = 1 THEN s0 ELSE sx
Word3M(k) == IF k < 27 THEN <<Digit3M(k \div 9), Digit3M((k \div 3) % 3), Digit3M(k % 3)>>
             ELSE LET j == k - 27 IN <<Digit3M((j \div 27) % 3), Digit3M((j \div 9) % 3), Digit3M((j \div 3) % 3), Digit3M(j % 3)>>
BigAltM(n, o, st) == AltSeq([i \in 1..n |-> LitStr(IF i % 2 = 0 THEN Word3M((o + i * st) % 108) ELSE Word3((o + i * st) % 108))])
BIGL(z) == {BigAlt(n, o, st) : n \in {9, 17, 33, 65, 70}, o \in {0, 40}, st \in {1, 5}}
           \cup {BigAltM(n, o, 5) : n \in {9, 17, 33, 40, 65}, o \in {0, 40}}
           \cup {Cap(BigAlt(n, 3, 7)) : n \in {9, 33, 65}}
           \cup {Cat(BigAlt(n, 11, 1), Plus(Cls({sa,sb}), TRUE)) : n \in {9, 33}}

(* ---- one-pass shapes: anchored, captures, alternatives that share their first symbol or their continuation ---- *)
OPAtoms == {Lit(sa), Cls({sa,sb}), Cat(Cap(Emp), Lit(sa)), Cap(Lit(sa)), Cat(Cap(Emp), Cls({sa,sb})), Quest(Cap(Lit(sa)), TRUE)}
OPTails == {Emp, Lit(sc), Cap(Lit(sc)), Quest(Cap(Lit(sc)), TRUE), Alt(Cap(Lit(sb)), Lit(sc)), Star(Cap(Lit(sc)), FALSE)}
OP(z) == {Cat(Look("bot"), Cat(Alt(p, q), t)) : p \in OPAtoms, q \in OPAtoms, t \in OPTails}
         \cup {Cat(Look("bot"), Cat(Alt(p, q), Cat(t, Look("eot")))) : p \in OPAtoms, q \in OPAtoms, t \in OPTails}

FamilySet(f) ==
  CASE f = "BIG" -> BIGL(0)
    [] f = "OP"  -> OP(0)
    [] f = "G1"  -> G1(0)
    [] f = "TRI" -> TRI(0)
    [] f = "LIT" -> LIT(0) \cup LITF(0)
    [] f = "REV" -> SUF(0) \cup INN(0) \cup SET(0) \cup ML(0) \cup OVL(0)
    [] f = "ANC" -> ANC(0)
    [] f = "CC"  -> CC(0) \cup CC3(0)
    [] f = "DIG" -> DIG(0)
    [] f = "CAP" -> CAP(0) \cup REP(0) \cup CAPX(0)
    [] f = "U8"  -> U8(0)

G2Base(f) == SetToSeq(Close(CASE f = "G2a" -> G2aAtoms [] f = "G2m" -> G2mAtoms [] f = "G2u" -> G2uAtoms [] f = "G2x" -> G2xAtoms, f # "G2u"))
IsG2(f) == f \in {"G2a","G2m","G2u","G2x"}
FamilyNames == <<"G2a","G2m","G2u","G2x","LIT","REV","ANC","CC","DIG","CAP","U8","BIG","OP","G1","TRI">>

(* --------------------------- haystack alphabets -------------------------- *)
\* fold partners present in the table
FoldMates(S) == {s \in AllSyms : Sym[s].ok /\ \E c \in S : Sym[s].f = Sym[c].f}
RECURSIVE HasFold(_)
HasFold(r) == CASE r.op \in {"lit","cls"} -> r.fold
                [] r.op \in {"any","emp","look"} -> FALSE
                [] r.op \in Bin -> HasFold(r.a) \/ HasFold(r.b)
                [] OTHER -> HasFold(r.a)

\* the symbols haystacks of a pattern are drawn from: its own symbols (and fold mates),
\* one ASCII symbol it does not mention, newline when it can tell, one multi-byte and
\* one ill-formed symbol (mb, ill: chosen per run from fixed lists; 0 = none)
\* which multi-byte / ill-formed symbol a pattern's alphabet gets is a function of its index
\* in the family only, so a pattern has the same haystacks in every shard layout and tier
MBList  == <<se, sshi, sgrin, sKEL>>
ILLList == <<25, 26, 27, 28>>
MBFor(i)  == MBList[(i % 4) + 1]
ILLFor(i) == ILLList[((i \div 4) % 4) + 1]

Alphabet(re, mb, ill) ==
  LET own  == IF HasFold(re) THEN FoldMates(SymsIn(re)) ELSE SymsIn(re)
      miss == IF sx \notin own THEN {sx} ELSE IF sa \notin own THEN {sa} ELSE {sz}
      nl   == IF HasOp(re, {"any"}) \/ HasLook(re, {"bol","eol"}) THEN {snl} ELSE {}
      sp   == IF HasLook(re, {"wb","nwb"}) THEN {ssp} ELSE {}
      m    == IF mb = 0 THEN {} ELSE {mb}
      i    == IF ill = 0 THEN {} ELSE {ill}
  IN own \cup miss \cup nl \cup sp \cup m \cup i

\* all sequences over S of length <= n
RECURSIVE SeqsUpTo(_,_)
SeqsUpTo(S, n) == IF n = 0 THEN {<<>>} ELSE SeqsUpTo(S, n-1) \cup [1..n -> S]

\* the longest length whose haystack count stays within the budget
RECURSIVE GeoSum(_,_)
GeoSum(k, l) == IF l = 0 THEN 1 ELSE k * GeoSum(k, l-1) + 1
(* Language-guided haystacks.  All sequences up to a length exhaust short inputs only (5 symbols: length 2-3); the
   behaviours that need more - an attempt that gets somewhere and dies, followed by a match that takes another path -
   are built from the pattern's own language: Lang = the words of length <= 3 the pattern matches exactly, and
   Splice = every proper non-empty prefix of a word (an attempt that is cut short) or a whole word, followed by a word. *)
LangUpTo(prog, al, n) == {w \in SeqsUpTo(al, n) : w # <<>> /\ (Len(w) + 1) \in EndsP(prog, w, 1)}
RECURSIVE SpliceSumAcc(_,_,_)
SpliceSumAcc(h, k, acc) == IF k > Len(h) THEN acc ELSE SpliceSumAcc(h, k + 1, (acc * 7 + h[k]) % 1000003)
\* about `cap` of the spliced haystacks, chosen by a hash threshold that grows with cap: a smaller cap selects a SUBSET
\* (the quick tier's inputs are among the thorough tier's)
Splice(prog, al, cap) ==
  LET Lg0 == LangUpTo(prog, al, 3)
      \* at most about 40 first parts and 60 second parts (a pattern like `.` has hundreds of words: the product must stay small)
      c0  == Cardinality(Lg0)
      Pick(n) == IF c0 <= n THEN Lg0 ELSE {w \in Lg0 : SpliceSumAcc(w, 1, 7) % 1000 < (1000 * n) \div c0}
      all == {SubSeq(t[1], 1, t[3]) \o t[2] : t \in {u \in Pick(40) \X Pick(60) \X (1..3) : u[3] <= Len(u[1])}}
      c   == Cardinality(all)
      thr == IF c <= cap THEN 1000 ELSE IF (1000 * cap) \div c < 1 THEN 1 ELSE (1000 * cap) \div c
  IN {x \in all : SpliceSumAcc(x, 1, Len(x)) % 1000 < thr}

(* A fixed pseudo-random sample of longer haystacks (length 6 and 8) over the pattern's alphabet, chosen by the pattern's
   index: attempts that run for a while before they die, restarts inside what a failed attempt consumed. *)
Sampled(al, seedv, n, len) ==
  LET A == SetToSeq(al)  c == Len(A)
  IN IF c = 0 THEN {} ELSE {[k \in 1..len |-> A[((seedv * 7 + j * 31 + k * k * 17 + j * k * 5 + (j * j) \div (k + 1)) % c) + 1]] : j \in 1..n}

RECURSIVE LenFor(_,_,_)
LenFor(k, budget, lcap) == IF lcap <= 1 \/ GeoSum(k, lcap) <= budget THEN lcap ELSE LenFor(k, budget, lcap - 1)
=============================================================================
