------------------------------ MODULE Trace_Pike ------------------------------
(***************************************************************************)
(* The specification as oracle on inputs of ANY length (C01, C02, C03,     *)
(* C10): the harness records one search of the real library as             *)
(*   begin  re (syntax tree), nc, longest, at, pat                         *)
(*   sym c  one event per haystack symbol (Symbols.tla id)                 *)
(*   end    res = the slots the library returned, in symbol positions      *)
(*          (0 = unset, <<>> = no match; <<-1>> = an offset that is not a  *)
(*          symbol boundary)                                               *)
(* and TLC runs RegexPike (one Step per symbol, the same operators that    *)
(* MC_RefEquiv proves equivalent to regexp's backtracker) over the symbols *)
(* and compares its result with the logged one.  A mismatch is REPORTED    *)
(* (one JSON line with the specification's result) instead of disabling    *)
(* the action, so the remaining searches of the file are still validated;  *)
(* the harness confirms each reported mismatch against package regexp      *)
(* before it counts (three-way rule).                                      *)
(***************************************************************************)
EXTENDS RegexPike, AstJson, Json

CONSTANT TraceFile
Trace == ndJsonDeserialize(TraceFile)

VARIABLES l, prog, ncap, longest, at, p, prev, clist, best, dead, tr
vars == <<l, prog, ncap, longest, at, p, prev, clist, best, dead, tr>>

Init == /\ l = 1 /\ prog = <<>> /\ ncap = 0 /\ longest = FALSE /\ at = 1 /\ p = 1 /\ prev = 0
        /\ clist = <<>> /\ best = <<>> /\ dead = FALSE /\ tr = 0
IsEvent(e) == l <= Len(Trace) /\ Trace[l].ev = e /\ l' = l + 1
E == Trace[l]
NextSym == IF l + 1 <= Len(Trace) /\ Trace[l+1].ev = "sym" THEN Trace[l+1].c ELSE 0

Begin == /\ IsEvent("begin")
         /\ LET re == Number(AstFromJson(E.re), 1) IN prog' = Prog(Simp(re))
         /\ ncap' = E.nc /\ longest' = E.longest /\ at' = E.at
         /\ p' = 1 /\ prev' = 0 /\ clist' = <<>> /\ best' = <<>> /\ dead' = FALSE /\ tr' = tr + 1

\* consume one symbol: RegexPike's step (Seed, RunThreads, Prune); before `at` only the context moves
SymStep ==
       /\ IsEvent("sym")
       /\ IF p < at \/ dead
          THEN UNCHANGED <<clist, best, dead>>
          ELSE LET cl1 == Seed(prog, ncap, clist, best, p, prev, E.c, TRUE)
                   r   == RunThreads(prog, cl1, 1, E.c, p, NextSym, longest, EmptyAcc, best)
               IN /\ clist' = Prune(r.clist, r.best, longest) /\ best' = r.best
                  /\ dead' = (r.clist = <<>> /\ r.best # <<>>)       \* leftmost match decided: nothing can change it
       /\ p' = p + 1 /\ prev' = E.c
       /\ UNCHANGED <<prog, ncap, longest, at, tr>>

Final == IF dead THEN best
         ELSE LET cl1 == Seed(prog, ncap, clist, best, p, prev, 0, p >= at)
              IN RunThreads(prog, cl1, 1, 0, p, 0, longest, EmptyAcc, best).best

End == /\ IsEvent("end")
       /\ (E.res # Final) => PrintT(ToJson([viol |-> "search", tr |-> tr, line |-> l, want |-> Final]))
       /\ UNCHANGED <<prog, ncap, longest, at, p, prev, clist, best, dead, tr>>

Next == Begin \/ SymStep \/ End
Spec == Init /\ [][Next]_vars
Accepted == TLCGet("stats").diameter - 1 = Len(Trace)
=============================================================================
