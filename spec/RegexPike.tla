------------------------------ MODULE RegexPike ------------------------------
(***************************************************************************)
(* The reference semantics as a STATE MACHINE: Pike's simulation of        *)
(* Prog(re) (regexp's nfa.go), one Step per haystack symbol.               *)
(*                                                                         *)
(* RegexRef defines matching by depth-first search over the whole          *)
(* haystack, which TLC can only evaluate on short inputs.  This module     *)
(* consumes the haystack one symbol at a time with state                   *)
(*     clist   the runnable threads <<pc, caps>> in priority order         *)
(*     best    the best match found so far (slot vector) or <<>>           *)
(* so a trace specification can validate searches over haystacks of any    *)
(* length at linear cost (Trace_Pike), and MC_RefEquiv checks on the small *)
(* universe that the two formulations define the same function.            *)
(*                                                                         *)
(* Zero-width tests need the symbol before and after the position:         *)
(* `prev` and `cur` (0 at the text boundaries).                            *)
(***************************************************************************)
EXTENDS RegexRef

LookAt(k, prev, cur) ==          \* prev / cur: symbol ids around the position, 0 = none
  CASE k = "bot" -> prev = 0
    [] k = "eot" -> cur = 0
    [] k = "bol" -> prev = 0 \/ prev = NL
    [] k = "eol" -> cur = 0 \/ cur = NL
    [] k = "wb"  -> (prev # 0 /\ IsWord(prev)) # (cur # 0 /\ IsWord(cur))
    [] k = "nwb" -> (prev # 0 /\ IsWord(prev)) = (cur # 0 /\ IsWord(cur))

\* follow empty transitions from pc at position p in priority order; threads already on the list win
\* acc = [list |-> sequence of <<pc, caps>>, on |-> set of pcs on the list]
RECURSIVE AddThread(_,_,_,_,_,_,_)
AddThread(prog, acc, pc, p, caps, prev, cur) ==
  IF pc \in acc.on THEN acc
  ELSE LET a1 == [acc EXCEPT !.on = @ \cup {pc}]
           i  == prog[pc]
       IN CASE i.op \in {"rune", "match"} -> [a1 EXCEPT !.list = Append(@, <<pc, caps>>)]
            [] i.op = "nop"  -> AddThread(prog, a1, i.out, p, caps, prev, cur)
            [] i.op = "look" -> IF LookAt(i.k, prev, cur) THEN AddThread(prog, a1, i.out, p, caps, prev, cur) ELSE a1
            [] i.op = "cap"  -> AddThread(prog, a1, i.out, p, [caps EXCEPT ![i.n] = p], prev, cur)
            [] i.op = "alt"  -> AddThread(prog, AddThread(prog, a1, i.out, p, caps, prev, cur), i.arg, p, caps, prev, cur)

EmptyAcc == [list |-> <<>>, on |-> {}]

\* Before consuming the symbol at position p: seed a new thread at the lowest priority unless a match
\* is already known (leftmost) or the search is anchored past its start.
Seed(prog, ncap, clist, best, p, prev, cur, canStart) ==
  LET acc0 == [list |-> clist, on |-> {clist[i][1] : i \in DOMAIN clist}] IN
  IF best = <<>> /\ canStart
  THEN AddThread(prog, acc0, 1, p, [NoCaps(ncap) EXCEPT ![1] = p], prev, cur).list
  ELSE clist

\* One step: run the threads of clist (already seeded) on symbol c at position p; nxt/nprev describe the
\* position p+1 (the symbol after c, 0 at the end).  Returns [clist, best].
RECURSIVE RunThreads(_,_,_,_,_,_,_,_,_)
RunThreads(prog, clist, k, c, p, nxt, longest, acc, best) ==
  IF k > Len(clist) THEN [clist |-> acc.list, best |-> best]
  ELSE LET t == clist[k]   i == prog[t[1]] IN
       IF i.op = "match"
       THEN LET m == [t[2] EXCEPT ![2] = p] IN
            IF longest
            THEN \* leftmost-longest: keep running the remaining threads; prefer an earlier start, then a longer end
                 LET b2 == IF best = <<>> \/ m[1] < best[1] \/ (m[1] = best[1] /\ m[2] > best[2]) THEN m ELSE best
                 IN RunThreads(prog, clist, k + 1, c, p, nxt, longest, acc, b2)
            ELSE \* leftmost-first: this thread has priority over everything after it - cut them off
                 [clist |-> acc.list, best |-> m]
       ELSE \* rune instruction
            IF c # 0 /\ c \in i.s
            THEN RunThreads(prog, clist, k + 1, c, p, nxt, longest,
                            AddThread(prog, acc, i.out, p + 1, t[2], c, nxt), best)
            ELSE RunThreads(prog, clist, k + 1, c, p, nxt, longest, acc, best)

\* in longest mode threads that start later than the best match's start can never win: drop them
Prune(clist, best, longest) ==
  IF longest /\ best # <<>> THEN SelectSeq(clist, LAMBDA t : t[2][1] <= best[1]) ELSE clist

\* The whole search as a fold, for the equivalence check on short haystacks.
RECURSIVE PikeFrom(_,_,_,_,_,_,_,_)
PikeFrom(prog, ncap, h, p, clist, best, longest, at) ==
  LET prev == IF p > 1 THEN h[p-1] ELSE 0
      cur  == IF p <= Len(h) THEN h[p] ELSE 0
      nxt  == IF p + 1 <= Len(h) THEN h[p+1] ELSE 0
      cl1  == Seed(prog, ncap, clist, best, p, prev, cur, TRUE)
  IN IF p > Len(h)
     THEN \* end of text: only match instructions can fire
          RunThreads(prog, cl1, 1, 0, p, 0, longest, EmptyAcc, best).best
     ELSE IF cl1 = <<>> /\ best # <<>> THEN best
     ELSE LET r == RunThreads(prog, cl1, 1, cur, p, nxt, longest, EmptyAcc, best)
          IN PikeFrom(prog, ncap, h, p + 1, Prune(r.clist, r.best, longest), r.best, longest, at)

PikeFind(prog, ncap, h, at, longest) == PikeFrom(prog, ncap, h, at, <<>>, <<>>, longest, at)
=============================================================================
