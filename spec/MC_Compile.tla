------------------------------ MODULE MC_Compile ------------------------------
(***************************************************************************)
(* Generator for C09 (and the pattern-string half of C07).                 *)
(*                                                                         *)
(* Which strings package regexp accepts, and with which error text, is     *)
(* defined by Go's parser; the specification does not re-derive it.  What  *)
(* the specification contributes here:                                     *)
(*  - the input space: every string of at most MaxLen tokens over a token  *)
(*    alphabet of all syntax characters, and limit families (nesting       *)
(*    depth, counted repetition, nested repetition, class ranges) at their *)
(*    boundary values;                                                     *)
(*  - QuoteMeta as a function (escape exactly the bytes \.+*?()|[]{}^$),   *)
(*    with the theorem that it is injective-by-construction (unescaping    *)
(*    gives the input back), evaluated on every generated string;          *)
(*  - for patterns of the AST universe: NumSubexp, SubexpNames,            *)
(*    SubexpIndex as functions of the syntax tree (MC_Search records carry *)
(*    nc and names; the harness checks them there).                        *)
(* The harness compiles every string with regexp and coregex (Compile,     *)
(* CompilePOSIX, MustCompile) and compares acceptance, error text and all  *)
(* accessors; regexp is the judge of acceptance.                           *)
(***************************************************************************)
EXTENDS Integers, Sequences, FiniteSets, TLC, Json, SequencesExt

CONSTANTS MaxLen, Shard, NShards

\* token alphabet as byte values:  ( ) [ ] { } * + ? | \ ^ $ . , - : a 1 P < > d b i z
Tok == <<40, 41, 91, 93, 123, 125, 42, 43, 63, 124, 92, 94, 36, 46, 44, 45, 58, 97, 49, 80, 60, 62, 100, 98, 105, 122>>
TokSet == {Tok[i] : i \in DOMAIN Tok}

Special == {92, 46, 43, 42, 63, 40, 41, 124, 91, 93, 123, 125, 94, 36}   \* \.+*?()|[]{}^$
RECURSIVE QuoteMeta(_)
QuoteMeta(b) == IF b = <<>> THEN <<>>
                ELSE (IF Head(b) \in Special THEN <<92, Head(b)>> ELSE <<Head(b)>>) \o QuoteMeta(Tail(b))
RECURSIVE Unquote(_)
Unquote(q) == IF q = <<>> THEN <<>>
              ELSE IF Head(q) = 92 /\ Len(q) >= 2 THEN <<q[2]>> \o Unquote(SubSeq(q, 3, Len(q)))
              ELSE <<Head(q)>> \o Unquote(Tail(q))

RECURSIVE Rep(_,_)
Rep(s, k) == IF k = 0 THEN <<>> ELSE s \o Rep(s, k-1)
Digits(n) == IF n < 10 THEN <<48 + n>> ELSE IF n < 100 THEN <<48 + (n \div 10), 48 + (n % 10)>>
             ELSE IF n < 1000 THEN <<48 + (n \div 100), 48 + ((n \div 10) % 10), 48 + (n % 10)>>
             ELSE <<48 + (n \div 1000), 48 + ((n \div 100) % 10), 48 + ((n \div 10) % 10), 48 + (n % 10)>>

\* limit families at their boundaries
Families ==
  [i \in 1..8 |-> LET k == <<1, 99, 100, 101, 150, 999, 1000, 1001>>[i] IN
     [name |-> "nest", k |-> k, b |-> Rep(<<40>>, k) \o <<97>> \o Rep(<<41>>, k)]]
  \o [i \in 1..8 |-> LET k == <<1, 99, 100, 101, 150, 999, 1000, 1001>>[i] IN
     [name |-> "nestnc", k |-> k, b |-> Rep(<<40,63,58>>, k) \o <<97>> \o Rep(<<41>>, k)]]
  \o [i \in 1..7 |-> LET n == <<0, 1, 2, 999, 1000, 1001, 9999>>[i] IN
     [name |-> "repeat", k |-> n, b |-> <<97, 123>> \o Digits(n) \o <<125>>]]
  \o [i \in 1..6 |-> LET n == <<2, 31, 32, 33, 100, 1000>>[i] IN
     [name |-> "repeat2", k |-> n, b |-> <<40, 97, 123>> \o Digits(n) \o <<125, 41, 123>> \o Digits(n) \o <<125>>]]
  \o [i \in 1..5 |-> LET n == <<1, 2, 10, 100, 500>>[i] IN
     [name |-> "star-nest", k |-> n, b |-> Rep(<<40>>, n) \o <<97>> \o Rep(<<41, 42>>, n)]]
  \o [i \in 1..4 |-> LET n == <<2, 10, 100, 1000>>[i] IN
     [name |-> "alt", k |-> n, b |-> Rep(<<97, 124>>, n) \o <<98>>]]
  \o << [name |-> "range-rev", k |-> 0, b |-> <<91, 122, 45, 97, 93>>],
        [name |-> "min>max", k |-> 0, b |-> <<97, 123, 50, 44, 49, 125>>],
        [name |-> "dupname", k |-> 0, b |-> <<40,63,80,60,97,62,97,41,40,63,80,60,97,62,98,41>>],
        [name |-> "name-new", k |-> 0, b |-> <<40,63,60,97,62,97,41>>],
        [name |-> "flags", k |-> 0, b |-> <<40,63,105,115,109,85,41,97>>],
        [name |-> "badflag", k |-> 0, b |-> <<40,63,122,41>>],
        [name |-> "posix-class", k |-> 0, b |-> <<91,91,58,97,108,112,104,97,58,93,93>>],
        [name |-> "perl-d", k |-> 0, b |-> <<92, 100, 43>>],
        [name |-> "unicode-p", k |-> 0, b |-> <<92, 112, 76>>],
        [name |-> "invalid-utf8", k |-> 0, b |-> <<97, 255>>] >>

All == SetToSeq(UNION {[1..n -> TokSet] : n \in 0..MaxLen})
NStr == Len(All)
Idx == {i \in 1..NStr : i % NShards = Shard} \cup {-i : i \in DOMAIN Families}

VARIABLES idx, out
Rec(i) == IF i < 0 THEN [kind |-> "fam"] @@ Families[-i]
          ELSE LET b == All[i]  q == QuoteMeta(b) IN
               IF Assert(Unquote(q) = b /\ Len(q) = Len(b) + Cardinality({j \in DOMAIN b : b[j] \in Special}), <<"QuoteMeta", b>>)
               THEN [kind |-> "str", i |-> i, b |-> b, q |-> q] ELSE [kind |-> "str", i |-> i, b |-> b, q |-> q]
Init == idx \in Idx /\ out = <<>>
Next == out = <<>> /\ out' = Rec(idx) /\ UNCHANGED idx
Spec == Init /\ [][Next]_<<idx, out>>
Emit == out = <<>> \/ PrintT(ToJson(out))
=============================================================================
