------------------------------ MODULE MC_Config ------------------------------
(***************************************************************************)
(* The configuration space of the meta engine (C12).                       *)
(*                                                                         *)
(* Valid(c) transcribes meta.Config.Validate.  TLC enumerates the product  *)
(* of boundary values of every field and prints each configuration with    *)
(* the verdict of Valid; the harness (1) checks that Validate() agrees     *)
(* with Valid on every one of them, (2) compiles every pattern of the      *)
(* universe under a rotating subset of the valid ones and requires the     *)
(* results to be identical to the default configuration's and to the plain *)
(* NFA simulation.  The property itself is relational: the specification   *)
(* says a configuration is not an input of RegexAPI at all.                *)
(***************************************************************************)
EXTENDS Integers, Sequences, FiniteSets, TLC, Json, SequencesExt

Bools == {TRUE, FALSE}
Configs == [ dfa : Bools, pf : Bools,
             maxStates : {0, 1, 2, 10, 10000, 1000000, 1000001},
             detLimit  : {9, 10, 1000, 100000, 100001},
             minLit    : {0, 1, 2, 3, 64, 65},
             maxLits   : {0, 1, 2, 64, 256, 1000, 1001},
             depth     : {9, 10, 100, 1000, 1001},
             ascii     : Bools ]

Valid(c) ==
  /\ c.dfa => /\ c.maxStates >= 1 /\ c.maxStates <= 1000000
              /\ c.detLimit >= 10 /\ c.detLimit <= 100000
  /\ c.pf  => /\ c.minLit >= 1 /\ c.minLit <= 64
              /\ c.maxLits >= 1 /\ c.maxLits <= 1000
  /\ c.depth >= 10 /\ c.depth <= 1000

\* fields that are not consulted when their feature is off do not make a configuration invalid
Theorem1 == \A c \in Configs : (~c.dfa /\ ~c.pf /\ c.depth \in 10..1000) => Valid(c)

CONSTANTS Shard, NShards
All == SetToSeq(Configs)
VARIABLES idx, out
Init == idx \in {i \in 1..Len(All) : i % NShards = Shard} /\ out = <<>>
Next == out = <<>> /\ out' = [cfg |-> All[idx], valid |-> Valid(All[idx]), i |-> idx] /\ UNCHANGED idx
Spec == Init /\ [][Next]_<<idx, out>>
Emit == out = <<>> \/ PrintT(ToJson(out))
ASSUME Theorem1
=============================================================================
