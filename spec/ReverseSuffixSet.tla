-------------------------- MODULE ReverseSuffixSet --------------------------
(***************************************************************************)
(* The reverse-suffix-SET search (meta/reverse_suffix_set.go) as an        *)
(* algorithm over the reference semantics: the pattern is  A.(L1|..|Ln)    *)
(* and the candidates are the occurrences of ANY of the suffix literals    *)
(* (LS, a sequence: the length of a candidate is that of the FIRST literal *)
(* of LS that occurs there, getSuffixLen).  The driver is the one of       *)
(* ReverseSuffix with three differences, all modelled:                     *)
(*   - a guarded hit is taken as it is (there is no rescan),               *)
(*   - the end of the match comes from the NFA searching UNANCHORED from   *)
(*     the start found; if that search begins elsewhere the driver reports *)
(*     [start found, end of the candidate] (matchFrom),                    *)
(*   - the `.*(..|..)` shortcut reports the line start and the end of the  *)
(*     LAST occurrence position on the line that fits before the line end. *)
(* Find is FindAt from the beginning.                                      *)
(***************************************************************************)
EXTENDS ReverseSuffix

OccLen(LS, h, p) ==        \* getSuffixLen: 0 = none of the literals occurs at p
  LET c == {i \in DOMAIN LS : OccursAt(LS[i], h, p)} IN IF c = {} THEN 0 ELSE Len(LS[MinOf(c)])
NextOccSet(LS, h, from) ==
  LET c == {p \in from..Len(h) : OccLen(LS, h, p) > 0} IN IF c = {} THEN 0 ELSE MinOf(c)

\* matchFrom
MatchFrom(prog, nc, h, ms, sEnd) ==
  LET m == FindP(prog, nc, h, ms, FALSE) IN IF m # <<>> /\ m[1] = ms THEN <<ms, m[2]>> ELSE <<ms, sEnd>>

\* the `.*` shortcut: line start, end of the last candidate position on the line whose literal ends before the line end
DotStarSet(LS, h, at, pos, sEnd) ==
  LET ls == LineStart(h, at, pos)
      le == LineEnd(h, pos)
      c  == {p \in (pos+1)..(le-1) : OccLen(LS, h, p) > 0 /\ p + OccLen(LS, h, p) <= le}
  IN <<ls, IF c = {} THEN sEnd ELSE MaxOf(c) + OccLen(LS, h, MaxOf(c))>>

RECURSIVE SSFindAtLoop(_,_,_,_,_,_,_,_)
SSFindAtLoop(prog, nc, LS, msz, h, at, searchStart, minStart) ==
  LET pos == NextOccSet(LS, h, searchStart) IN
  IF pos = 0 THEN <<>>
  ELSE LET sEnd == pos + OccLen(LS, h, pos) IN
       IF msz THEN DotStarSet(LS, h, at, pos, sEnd)
       ELSE LET r == RevLimited(prog, h, at, sEnd, minStart) IN
            IF r > 0 THEN MatchFrom(prog, nc, h, r, sEnd)
            ELSE IF r = Quadratic THEN Two(FindP(prog, nc, h, at, FALSE))
            ELSE IF pos >= Len(h) THEN <<>>
            ELSE SSFindAtLoop(prog, nc, LS, msz, h, at, pos + 1, IF sEnd > minStart THEN sEnd ELSE minStart)

SSFindAt(prog, nc, LS, msz, h, at) == IF at > Len(h) THEN <<>> ELSE SSFindAtLoop(prog, nc, LS, msz, h, at, at, at)
SSFind(prog, nc, LS, msz, h) == IF Len(h) = 0 THEN <<>> ELSE SSFindAt(prog, nc, LS, msz, h, 1)

RECURSIVE SSIsMatchLoop(_,_,_,_,_,_)
SSIsMatchLoop(prog, nc, LS, h, start, minStart) ==
  LET pos == NextOccSet(LS, h, start) IN
  IF pos = 0 THEN FALSE
  ELSE LET e == pos + OccLen(LS, h, pos)
           r == RevLimited(prog, h, 1, e, minStart)
       IN IF r > 0 THEN TRUE
          ELSE IF r = Quadratic THEN FindP(prog, nc, h, 1, FALSE) # <<>>
          ELSE IF pos >= Len(h) THEN FALSE
          ELSE SSIsMatchLoop(prog, nc, LS, h, pos + 1, IF e > minStart THEN e ELSE minStart)
SSIsMatch(prog, nc, LS, h) == IF Len(h) = 0 THEN FALSE ELSE SSIsMatchLoop(prog, nc, LS, h, 1, 1)
=============================================================================
