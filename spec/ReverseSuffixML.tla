--------------------------- MODULE ReverseSuffixML ---------------------------
(***************************************************************************)
(* The multiline reverse-suffix search (meta/reverse_suffix_multiline.go)  *)
(* for patterns  (?m)^ [P] W L : a line anchor, an optional literal P, a   *)
(* wildcard, a literal suffix L.  Every match begins at a line start, so   *)
(* the driver                                                              *)
(*   1. asks the prefilter for the next occurrence of L                    *)
(*   2. takes the start of the line that occurrence lies on - but not      *)
(*      before the search start `at`                                       *)
(*   3. rejects the line at once if it does not begin with P (when there   *)
(*      is a P), otherwise runs the forward automaton anchored there;      *)
(*      a hit is the answer                                                *)
(*   4. on failure continues behind the end of the line (with P) or one    *)
(*      position behind the occurrence (without P).                        *)
(* Step 3 is the repaired form: the driver used to answer [line start,     *)
(* end of THIS occurrence] as soon as the line began with P (Variant       *)
(* "prefixonly", the negative control).  What remains outside the driver's *)
(* reach is a `(?s:.)` that crosses lines: a match can then begin on a     *)
(* line that has no occurrence of L (reported by TLC on the family, listed *)
(* as a known finding).                                                    *)
(***************************************************************************)
EXTENDS ReverseSuffix

HasPrefixAt(P, h, p) == p + Len(P) - 1 <= Len(h) /\ \A k \in 1..Len(P) : h[p+k-1] = P[k]
FullLineStart(h, pos) == LET c == {p \in 1..(pos-1) : h[p] = NL} IN IF c = {} THEN 1 ELSE MaxOf(c) + 1

LineVerdict(prog, nc, P, S, h, ls, pos) ==      \* <<>> or the match that begins at ls
  IF Len(P) > 0 /\ ~HasPrefixAt(P, h, ls) THEN <<>>
  ELSE IF Variant = "prefixonly" /\ Len(P) > 0 THEN <<ls, pos + Len(S)>>
  ELSE Two(AnchoredP(prog, nc, h, ls))

RECURSIVE MLLoop(_,_,_,_,_,_,_)
MLLoop(prog, nc, P, S, h, at, from) ==
  LET pos == NextOcc(S, h, from) IN
  IF pos = 0 THEN <<>>
  ELSE LET ls0 == FullLineStart(h, pos)
           ls  == IF ls0 < at THEN at ELSE ls0
           v   == LineVerdict(prog, nc, P, S, h, ls, pos)
           le  == LineEnd(h, pos)                 \* position of the next "\n", Len(h)+1 if none
           nx  == IF Len(P) > 0 THEN (IF le > Len(h) THEN 0 ELSE le + 1) ELSE pos + 1
       IN IF v # <<>> THEN v
          ELSE IF nx = 0 \/ nx > Len(h) THEN <<>>
          ELSE MLLoop(prog, nc, P, S, h, at, nx)

MLFindAt(prog, nc, P, S, h, at) == IF at > Len(h) THEN <<>> ELSE MLLoop(prog, nc, P, S, h, at, at)
MLFind(prog, nc, P, S, h)       == IF Len(h) = 0 THEN <<>> ELSE MLLoop(prog, nc, P, S, h, 1, 1)
MLIsMatch(prog, nc, P, S, h)    == MLFind(prog, nc, P, S, h) # <<>>
=============================================================================
