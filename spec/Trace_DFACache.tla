------------------------------ MODULE Trace_DFACache ------------------------------
(***************************************************************************)
(* Trace validation of the lazy-DFA cache accounting (hook H-dfa) against  *)
(* the protocol of spec/DFACache.tla, for any number of caches (each event *)
(* carries the cache id).                                                  *)
(*   new    c cap maxclears maxstate   harness: a cache was created        *)
(*   insert c usage cap clears n       Insert is about to add a state      *)
(*   full   c usage cap clears         Insert refused: ErrCacheFull        *)
(*   clear  c usage cap clears         ClearKeepMemory done                *)
(*   probe  c usage                    harness: MemoryUsage() after a call *)
(***************************************************************************)
EXTENDS Integers, Sequences, TLC, Json

CONSTANT TraceFile
Trace == ndJsonDeserialize(TraceFile)
VARIABLES l, cap, maxclears, maxstate, clears, last
vars == <<l, cap, maxclears, maxstate, clears, last>>
\* per cache id (functions over small ids assigned by the harness)
Ids == 1..64
Init == /\ l = 1 /\ cap = [c \in Ids |-> 0] /\ maxclears = [c \in Ids |-> 0] /\ maxstate = [c \in Ids |-> 0]
        /\ clears = [c \in Ids |-> 0] /\ last = [c \in Ids |-> 0]
IsEvent(e) == l <= Len(Trace) /\ Trace[l].ev = e /\ l' = l + 1
E == Trace[l]

New == /\ IsEvent("new")
       /\ cap' = [cap EXCEPT ![E.c] = E.cap] /\ maxclears' = [maxclears EXCEPT ![E.c] = E.maxclears]
       /\ maxstate' = [maxstate EXCEPT ![E.c] = E.maxstate] /\ clears' = [clears EXCEPT ![E.c] = 0]
       /\ last' = [last EXCEPT ![E.c] = 0]
\* DFACache!Insert: only while usage < capacity
Insert == /\ IsEvent("insert") /\ E.cap = cap[E.c] /\ E.usage < cap[E.c] /\ E.clears = clears[E.c]
          /\ last' = [last EXCEPT ![E.c] = E.usage] /\ UNCHANGED <<cap, maxclears, maxstate, clears>>
Full == /\ IsEvent("full") /\ E.usage >= cap[E.c] /\ E.clears = clears[E.c]
        /\ E.usage <= cap[E.c] + maxstate[E.c]               \* C20: at most one state over
        /\ UNCHANGED <<cap, maxclears, maxstate, clears, last>>
\* DFACache!Clear: only within the budget; the counter advances by one
Clear == /\ IsEvent("clear") /\ E.clears = clears[E.c] + 1 /\ E.clears <= maxclears[E.c]
         /\ E.usage < cap[E.c] + maxstate[E.c]
         /\ clears' = [clears EXCEPT ![E.c] = E.clears]
         /\ UNCHANGED <<cap, maxclears, maxstate, last>>
Probe == /\ IsEvent("probe") /\ E.usage <= cap[E.c] + maxstate[E.c]
         /\ UNCHANGED <<cap, maxclears, maxstate, clears, last>>
Next == New \/ Insert \/ Full \/ Clear \/ Probe
Spec == Init /\ [][Next]_vars
Accepted == TLCGet("stats").diameter - 1 = Len(Trace)
=============================================================================
