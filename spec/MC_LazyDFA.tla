------------------------------ MODULE MC_LazyDFA ------------------------------
(* LazyDFA!DFAEnd is the reference's leftmost-first end, or a decline, for every pattern without look-around of a
   family shard, every haystack, every start offset, every cache capacity in Caps and clear budget in ClearBudgets. *)
EXTENDS Universe, LazyDFA

CONSTANTS Family, Shard, NShards, Budget, LCap, Caps, ClearBudgets, Resume

Base  == IF IsG2(Family) THEN G2Base(Family) ELSE SetToSeq(FamilySet(Family))
USize == IF IsG2(Family) THEN D2Size(Base) ELSE Len(Base)
UAt(i) == IF IsG2(Family) THEN D2At(Base, i) ELSE Base[i]
Idx == {i \in 1..USize : i % NShards = Shard /\ ~HasOp(UAt(i), {"look"})}

VARIABLES idx, bad
Check(i) ==
  LET re   == UAt(i)
      rn   == Number(re, 1)
      prog == Prog(Simp(rn))
      nc   == NCaps(re)
      al   == Alphabet(re, MBFor(i), ILLFor(i))
      L    == LenFor(Cardinality(al), Budget, LCap)
      H    == SeqsUpTo(al, L)
  IN {t \in {<<h, at, cp, mc>> : h \in H, at \in 1..(LCap + 1), cp \in Caps, mc \in ClearBudgets} :
        /\ t[2] <= Len(t[1]) + 1
        /\ LET d == DFAEnd(prog, t[1], t[2], t[3], t[4], Resume) IN d # Declined /\ d # RefEnd(prog, nc, t[1], t[2])}

Init == idx \in Idx /\ bad = {}
Next == bad = {} /\ idx > 0 /\ bad' = Check(idx) /\ idx' = -idx
Spec == Init /\ [][Next]_<<idx, bad>>
Exact == bad = {}
=============================================================================
