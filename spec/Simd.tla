-------------------------------- MODULE Simd --------------------------------
(***************************************************************************)
(* C18: vectorised byte-search primitives (package simd of coregex).       *)
(*                                                                         *)
(* Part A  the one-line scalar definition of every public primitive over   *)
(*         byte sequences (bytes are 0..255, results are 0-based indices   *)
(*         or -1, exactly what the Go functions return).                   *)
(* Part B  a model of how such a primitive is implemented with vector      *)
(*         instructions: a scalar head up to an alignment boundary, a main *)
(*         loop over blocks of W lanes, and a tail; the model records the  *)
(*         set `reads` of (1-based) positions it loads from.  MC_Simd lets *)
(*         TLC check  BlockScan = scalar definition  and  reads \subseteq  *)
(*         1..n  for all short inputs; the tail has several modes so that  *)
(*         the classical mistakes (reading a whole block at the tail,      *)
(*         stopping one byte early, forgetting the offset of the second    *)
(*         load of a pair search, double counting in an overlapping last   *)
(*         block) are distinguishable.                                     *)
(* Part C  the candidate/verify loop of the substring search, for an       *)
(*         arbitrary choice of the two "rare" needle positions.            *)
(***************************************************************************)
EXTENDS Integers, Sequences, FiniteSets

MinOf(S) == CHOOSE x \in S : \A y \in S : x <= y
Min2(a, b) == IF a <= b THEN a ELSE b

(* ------------------------- Part A: scalar definitions ------------------- *)

\* the least i in 0..n-1 with P(i), or -1
FirstIdx(n, P(_)) == LET S == {i \in 0..(n-1) : P(i)} IN IF S = {} THEN 0 - 1 ELSE MinOf(S)

Memchr(h, b)             == FirstIdx(Len(h), LAMBDA i : h[i+1] = b)
Memchr2(h, b1, b2)       == FirstIdx(Len(h), LAMBDA i : h[i+1] \in {b1, b2})
Memchr3(h, b1, b2, b3)   == FirstIdx(Len(h), LAMBDA i : h[i+1] \in {b1, b2, b3})

\* position i of b1 such that b2 stands at i+d  (d = 0: both bytes at the same place; d < 0 is outside the
\* documented domain: the definition says -1 like the code, but the harness never calls it)
MemchrPair(h, b1, b2, d) == IF d < 0 THEN 0 - 1
                            ELSE FirstIdx(Len(h) - d, LAMBDA i : h[i+1] = b1 /\ h[i+d+1] = b2)

\* bytes.Index: the empty needle is found at 0, also in the empty haystack
Memmem(h, nd)            == FirstIdx(Len(h) - Len(nd) + 1, LAMBDA i : \A k \in 1..Len(nd) : h[i+k] = nd[k])

IsDigit(b) == b >= 48 /\ b <= 57
IsWord(b)  == (b >= 48 /\ b <= 57) \/ (b >= 65 /\ b <= 90) \/ (b >= 97 /\ b <= 122) \/ b = 95

WordSet    == {b \in 0..255 : IsWord(b)}        \* the table of \w

MemchrDigit(h)           == FirstIdx(Len(h), LAMBDA i : IsDigit(h[i+1]))
MemchrDigitAt(h, at)     == IF at < 0 \/ at >= Len(h) THEN 0 - 1
                            ELSE FirstIdx(Len(h), LAMBDA i : i >= at /\ IsDigit(h[i+1]))
MemchrWord(h)            == FirstIdx(Len(h), LAMBDA i : IsWord(h[i+1]))
MemchrNotWord(h)         == FirstIdx(Len(h), LAMBDA i : ~IsWord(h[i+1]))
\* a table [256]bool is the set T of bytes whose entry is true
MemchrInTable(h, T)      == FirstIdx(Len(h), LAMBDA i : h[i+1] \in T)
MemchrNotInTable(h, T)   == FirstIdx(Len(h), LAMBDA i : h[i+1] \notin T)

IsASCII(h)               == \A i \in 1..Len(h) : h[i] < 128
CountIn(h, T)            == Cardinality({i \in 1..Len(h) : h[i] \in T})
CountNonASCII(h)         == CountIn(h, 128..255)
FirstNonASCII(h)         == FirstIdx(Len(h), LAMBDA i : h[i+1] >= 128)

(* ------------------------- Part B: block-scan model --------------------- *)
(* A scan is described by the set HS of 0-based positions at which the     *)
(* lane predicate holds; n = length, a = address of byte 0 modulo W.       *)
(* Results are records [res, reads].                                       *)

\* byte-by-byte over lo..hi-1, stopping at the first hit
ScalarPart(lo, hi, HS) ==
  LET S == {i \in lo..(hi-1) : i \in HS}
  IN IF S = {} THEN [res |-> 0 - 1, reads |-> (lo+1)..hi]
               ELSE [res |-> MinOf(S), reads |-> (lo+1)..(MinOf(S)+1)]

\* one vector load of W lanes at q: all lanes are read, the lowest set mask bit among lanes >= from wins
BlockPart(q, W, from, HS) ==
  LET S == {i \in q..(q+W-1) : i \in HS /\ i >= from}
  IN [res |-> IF S = {} THEN 0 - 1 ELSE MinOf(S), reads |-> (q+1)..(q+W)]

TailModesOK  == {"scalar", "overlap"}                 \* correct ways to finish
TailModesBad == {"overread", "short", "nomask"}       \* negative controls: TLC must reject each

TailPart(t, n, W, mode, HS) ==
  IF t >= n THEN [res |-> 0 - 1, reads |-> {}]
  ELSE CASE mode = "scalar"   -> ScalarPart(t, n, HS)
         [] mode = "overlap"  -> IF n >= W THEN BlockPart(n - W, W, t, HS) ELSE ScalarPart(t, n, HS)
         [] mode = "nomask"   -> IF n >= W THEN BlockPart(n - W, W, 0, HS) ELSE ScalarPart(t, n, HS)
         [] mode = "overread" -> LET b == BlockPart(t, W, t, HS)
                                 IN [res |-> IF b.res >= n THEN 0 - 1 ELSE b.res, reads |-> b.reads]
         [] mode = "short"    -> ScalarPart(t, n - 1, HS)

RECURSIVE MainLoop(_, _, _, _, _, _)
MainLoop(q, n, W, mode, HS, reads) ==
  IF q + W <= n
  THEN LET b == BlockPart(q, W, q, HS)
       IN IF b.res # 0 - 1 THEN [res |-> b.res, reads |-> reads \cup b.reads]
          ELSE MainLoop(q + W, n, W, mode, HS, reads \cup b.reads)
  ELSE LET t == TailPart(q, n, W, mode, HS) IN [res |-> t.res, reads |-> reads \cup t.reads]

BlockScan(n, a, W, mode, HS) ==
  LET head == Min2(n, (W - a) % W)
      hd   == ScalarPart(0, head, HS)
  IN IF hd.res # 0 - 1 THEN hd ELSE MainLoop(head, n, W, mode, HS, hd.reads)

\* counting scan (no early exit): the overlapping last block must mask the lanes already counted
RECURSIVE CountLoop(_, _, _, _, _, _, _)
CountLoop(q, n, W, mode, HS, cnt, reads) ==
  IF q + W <= n
  THEN CountLoop(q + W, n, W, mode, HS, cnt + Cardinality({i \in q..(q+W-1) : i \in HS}), reads \cup ((q+1)..(q+W)))
  ELSE IF q >= n THEN [res |-> cnt, reads |-> reads]
  ELSE CASE mode \in {"overlap", "nomask"} /\ n >= W ->
              LET from == IF mode = "overlap" THEN q ELSE 0
              IN [res |-> cnt + Cardinality({i \in (n-W)..(n-1) : i \in HS /\ i >= from}), reads |-> reads \cup ((n-W+1)..n)]
         [] mode = "overread" ->
              [res |-> cnt + Cardinality({i \in q..(n-1) : i \in HS}), reads |-> reads \cup ((q+1)..(q+W))]
         [] mode = "short" ->
              [res |-> cnt + Cardinality({i \in q..(n-2) : i \in HS}), reads |-> reads \cup ((q+1)..(n-1))]
         [] OTHER ->
              [res |-> cnt + Cardinality({i \in q..(n-1) : i \in HS}), reads |-> reads \cup ((q+1)..n)]

CountScan(n, a, W, mode, HS) ==
  LET head == Min2(n, (W - a) % W)
  IN CountLoop(head, n, W, mode, HS, Cardinality({i \in 0..(head-1) : i \in HS}), 1..head)

\* pair scan: lanes of the load at p are compared with b1, lanes of the load at p+d with b2.
\* The vector loop may run only while p + d + W <= n ("overread" forgets the d, "short" loses the last position).
RECURSIVE PairTail(_, _, _, _, _, _)
PairTail(p, lim, d, H1, H2, reads) ==
  IF p >= lim THEN [res |-> 0 - 1, reads |-> reads]
  ELSE IF p \in H1
       THEN IF p + d \in H2 THEN [res |-> p, reads |-> reads \cup {p+1, p+d+1}]
            ELSE PairTail(p + 1, lim, d, H1, H2, reads \cup {p+1, p+d+1})
       ELSE PairTail(p + 1, lim, d, H1, H2, reads \cup {p+1})

RECURSIVE PairLoop(_, _, _, _, _, _, _, _)
PairLoop(p, n, d, W, mode, H1, H2, reads) ==
  IF (IF mode = "overread" THEN p + W <= n ELSE p + d + W <= n)
  THEN LET S  == {i \in p..(p+W-1) : i \in H1 /\ i + d \in H2 /\ i + d < n}
           rd == reads \cup ((p+1)..(p+W)) \cup ((p+d+1)..(p+d+W))
       IN IF S # {} THEN [res |-> MinOf(S), reads |-> rd]
          ELSE PairLoop(p + W, n, d, W, mode, H1, H2, rd)
  ELSE PairTail(p, IF mode = "short" THEN n - d - 1 ELSE n - d, d, H1, H2, reads)

PairScan(n, a, d, W, mode, H1, H2) ==
  IF d < 0 \/ n <= d THEN [res |-> 0 - 1, reads |-> {}]
  ELSE LET head == Min2(n - d, (W - a) % W)
           hd   == PairTail(0, head, d, H1, H2, {})
       IN IF hd.res # 0 - 1 THEN hd ELSE PairLoop(head, n, d, W, mode, H1, H2, hd.reads)

(* ------------------------- Part C: candidate / verify ------------------- *)
(* Substring search through a two-byte prefilter: the needle bytes at      *)
(* positions i1 and i1+d (d = 0: a single byte) are located with the pair  *)
(* search; each candidate is verified; the search resumes one past the     *)
(* candidate.  Correct for EVERY choice of (i1, d), i.e. independent of    *)
(* the byte-frequency heuristic that picks the positions.                  *)
Tl(h, k) == SubSeq(h, k + 1, Len(h))           \* h[k:]
RECURSIVE MemmemCand(_, _, _, _, _)
MemmemCand(h, nd, i1, d, start) ==
  LET c == MemchrPair(Tl(h, start), nd[i1+1], nd[i1+d+1], d)
  IN IF c = 0 - 1 THEN 0 - 1
     ELSE LET cp == c + start
              s  == cp - i1
          IN IF s >= 0 /\ s + Len(nd) <= Len(h) /\ SubSeq(h, s + 1, s + Len(nd)) = nd THEN s
             ELSE IF cp + 1 >= Len(h) - d THEN 0 - 1
             ELSE MemmemCand(h, nd, i1, d, cp + 1)

MemmemViaPair(h, nd, i1, d) ==
  IF Len(nd) = 0 THEN 0
  ELSE IF Len(h) = 0 \/ Len(nd) > Len(h) THEN 0 - 1
  ELSE MemmemCand(h, nd, i1, d, 0)
=============================================================================
