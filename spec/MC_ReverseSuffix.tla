--------------------------- MODULE MC_ReverseSuffix ---------------------------
(* For every pattern  A.L  of the family and every haystack over its alphabet: the three entry points of the
   reverse-suffix driver (ReverseSuffix.tla) against the reference.
     Family "RSW"  the wildcard is the first element and L follows it directly        -> theorem: the driver is exact
     Family "RSG"  what meta.isSafeForReverseSuffix also admits: something before the wildcard, or between the
                   wildcard and L                                                       -> no theorem: TLC reports where the
                   driver differs from the reference (`bad`), the harness then asks the real selector and the real searcher
   One record per pattern: the suffix, the `.*L` flag, per haystack the model's answers and the reference. *)
EXTENDS Universe, ReverseSuffix, Json

CONSTANTS Family, Shard, NShards, Budget, LCap,
          Claim            \* TRUE: assert the theorem (RSW with Variant = "code"; the negative controls must violate it)

RSLits == {<<sc>>, <<sa,sb>>, <<sc,sc>>, <<sa,sb,sa>>, <<sdot,sa>>, <<sc,sx>>}
RSWild == {Star(Dot,TRUE), Plus(Dot,TRUE), Star(DotS,TRUE), Plus(Cls({sa,sb}),TRUE), Plus(NCls({sx}),TRUE),
           Plus(Cls({sa,sb,sc}),TRUE), Rep(Cls({sa,sb}),2,2,TRUE), Rep(Cls({sa,sc}),1,2,TRUE), Rep(Lit(sx),1,3,TRUE),
           Rep(Dot,1,2,TRUE),
           Rep(Cls({sa,sc}),1,3,TRUE)}     \* a bounded class that contains the suffix bytes and reaches across a resume position
RSHead == {Lit(sa), Quest(Lit(sa),TRUE), Alt(Lit(sa), LitStr(<<sa,sb>>)), Alt(Cat(LitStr(<<sa,sb>>), Dot), Lit(sb)),
           Cls({sa,sb}), Alt(LitStr(<<sa,sb>>), Lit(sa)), Star(Lit(sa),TRUE), Cap(Alt(Cat(Lit(sa), Dot), Lit(sb)))}
RSMid  == {Dot, Quest(Lit(sa),TRUE), Alt(Lit(sa), LitStr(<<sa,sc>>)), Cls({sa,sc}), Star(Lit(sc),TRUE), Plus(Dot,TRUE),
           Quest(LitStr(<<sx,sb,sc>>),TRUE), Quest(LitStr(<<sc,sa>>),TRUE)}   \* an optional part that contains the suffix
RSW2   == {Plus(Dot,TRUE), Plus(Cls({sa,sb,sc}),TRUE), Star(Dot,TRUE), Plus(Cls({sa,sb}),TRUE)}

\* a family member: the pattern and its suffix literal
RSW == {[re |-> Cat(w, LitStr(l)), S |-> l] : w \in RSWild, l \in RSLits}
RSG == {[re |-> Cat(p, Cat(w, LitStr(l))), S |-> l] : p \in RSHead, w \in RSW2, l \in {<<sc>>, <<sc,sx>>, <<sa,sb>>}}
  \cup {[re |-> Cat(w, Cat(m, LitStr(l))), S |-> l] : w \in RSW2, m \in RSMid, l \in {<<sc>>, <<sc,sx>>, <<sa,sb>>}}

\* a repeated group before the suffix: the starts of the matches that end at one occurrence are not contiguous
RSRep == {Rep(Cat(Plus(Cls({sa,sb}),TRUE), Lit(sc)),1,3,TRUE), Rep(Cat(Plus(Lit(sa),TRUE), Lit(sc)),2,3,TRUE),
          Rep(Cat(Lit(sa), Quest(Lit(sb),TRUE)),1,3,TRUE), Rep(Cat(Plus(Cls({sa,sb}),TRUE), Cls({sc,sb})),2,4,TRUE)}
RSR == {[re |-> Cat(w, LitStr(l)), S |-> l] : w \in RSRep, l \in {<<sa>>, <<sc>>, <<sb,sa>>, <<sc,sa>>, <<sa,sc>>}}

Base  == SetToSeq(IF Family = "RSW" THEN RSW ELSE IF Family = "RSR" THEN RSR ELSE RSG)
Idx == {i \in 1..Len(Base) : i % NShards = Shard} \cup {0}

VARIABLES idx, out, bad
vars == <<idx, out, bad>>

Off2(h, m) == IF m = <<>> THEN <<>> ELSE <<Off(h, m[1]), Off(h, m[2])>>

Eval(i) ==
  LET re   == Base[i].re
      S    == Base[i].S
      rn   == Number(re, 1)
      prog == Prog(Simp(rn))
      nc   == NCaps(re)
      msz  == re.op = "cat" /\ re.a = Star(Dot,TRUE) /\ re.b = LitStr(S) /\ NL \notin {S[k] : k \in DOMAIN S}
      \* the pattern's own symbols (and "\n" when it has a dot): one symbol fewer than Universe!Alphabet buys one more
      \* symbol of haystack length, and the driver's candidate loop needs length (two occurrences of the suffix and a head)
      al   == SymsIn(re) \cup (IF HasOp(re, {"any"}) THEN {NL} ELSE {})
      L    == LenFor(Cardinality(al), Budget, LCap)
      H    == SetToSeq(SeqsUpTo(al, L) \cup Splice(prog, al, Budget \div 3))
      fa(h) == [p \in 1..(Len(h)+1) |-> RSFindAt(prog, nc, S, msz, h, p)]
      rf(h) == [p \in 1..(Len(h)+1) |-> RefAt(prog, nc, h, p)]
      \* the code refuses a search that starts at the end of the input (`at >= len`): no non-empty suffix fits there
      Bad(h) == \/ \E p \in 1..Len(h) : fa(h)[p] # rf(h)[p]
                \/ RSFind(prog, nc, S, msz, h) # rf(h)[1]
                \/ RSIsMatch(prog, nc, S, h) # (rf(h)[1] # <<>>)
  IN [rec |-> [fam |-> Family, i |-> i, re |-> rn, nc |-> nc, names |-> Names(rn), rsS |-> Bytes(S), msz |-> msz,
               hs |-> [j \in 1..Len(H) |->
                         [h |-> H[j],
                          rfa |-> [p \in 1..(Len(H[j])+1) |-> Off2(H[j], fa(H[j])[p])],
                          rf  |-> Off2(H[j], RSFind(prog, nc, S, msz, H[j])),
                          rim |-> RSIsMatch(prog, nc, S, H[j]),
                          atf |-> [p \in 1..(Len(H[j])+1) |-> Off2(H[j], rf(H[j])[p])],
                          rbad |-> Bad(H[j])]]],
      bad |-> {j \in 1..Len(H) : Bad(H[j])}]

Init == idx \in Idx /\ out = <<>> /\ bad = {}
Next == /\ out = <<>>
        /\ IF idx = 0 THEN out' = [sym |-> Sym, fam |-> Family] /\ bad' = {}
           ELSE LET e == Eval(idx) IN out' = e.rec /\ bad' = e.bad
        /\ UNCHANGED idx
Spec == Init /\ [][Next]_vars
Emit == out = <<>> \/ PrintT(ToJson(out))
Exact == Claim => bad = {}
=============================================================================
