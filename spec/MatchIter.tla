------------------------------ MODULE MatchIter ------------------------------
(***************************************************************************)
(* The match-iteration protocol (C04, C08, C11).                           *)
(*                                                                         *)
(* Three loops over the same abstract haystack:                            *)
(*   Std   regexp.allMatches          (pos, prevEnd, out)                  *)
(*   Rpl   regexp.replaceAll          (sp, lastEnd, rout)                  *)
(*   Impl  the loop shape of coregex  (ipos, ilast, iout)                  *)
(*         meta/findall.go:findAllIndicesLoop, Count, FindAllSubmatch,     *)
(*         regex.go:AllIndex, ReplaceAll*, with the resume rule `adv`      *)
(* The haystack is abstracted to                                           *)
(*   W  rune widths: W[p+1] = width of the code point starting at byte p,  *)
(*      0 when p is inside a code point                                    *)
(*   A  a match landscape: A[s] = end of the leftmost-first match that     *)
(*      starts exactly at byte s, -1 if none.  A search from p returns the *)
(*      match at the least s >= p with A[s] # -1 (look-behind sees the     *)
(*      whole haystack, so this does not depend on p).                     *)
(* A landscape need not come from one regular expression, so what TLC      *)
(* checks here holds for all patterns at once.                             *)
(*                                                                         *)
(* Adv selects the resume rule of Impl after an empty match:               *)
(*   "rune"  one code point  (the repaired code)                           *)
(*   "byte"  one byte        (coregex before the fix: finds the multi-byte *)
(*                            divergence, kept as a negative control)      *)
(***************************************************************************)
EXTENDS IterRules, FiniteSets, TLC

CONSTANTS N,        \* haystack length in bytes
          Lims,     \* set of limits n to explore (-1 = unlimited)
          Adv       \* "rune" | "byte"

Pos == 0..N

RECURSIVE Widths(_)
Widths(p) == IF p = N THEN {<<>>}
             ELSE UNION { { <<w>> \o [i \in 1..(w-1) |-> 0] \o rest : rest \in Widths(p+w) } :
                          w \in {x \in 1..4 : p + x <= N} }
Bnd(W) == {p \in Pos : p = N \/ W[p+1] > 0}
WidthAt(W, p) == IF p < N THEN W[p+1] ELSE 0
\* On code-point boundaries the landscape is what regexp sees.  coregex's engines are
\* byte-level: asked to start INSIDE a code point they may report a match there (an
\* empty-matching pattern does), so the landscape also has arbitrary entries at the other
\* offsets; only a loop that resumes inside a code point ever consults them.
Landscapes(W) == { A \in [Pos -> (Pos \cup {-1})] :
                     \A s \in Pos : A[s] = -1 \/ (A[s] >= s /\ (s \in Bnd(W) => A[s] \in Bnd(W))) }

Least(D) == CHOOSE x \in D : \A y \in D : x <= y
\* regexp's search primitive: leftmost match starting at a boundary at or after p
First(Wv, A, p) == LET D == {s \in Bnd(Wv) : s >= p /\ A[s] # -1} IN
               IF D = {} THEN <<>> ELSE <<Least(D), A[Least(D)]>>
\* the byte-level engine: candidate starts are p itself, the following offsets while still
\* inside p's code point (each such byte is consumed as one ill-formed byte), then boundaries
FirstI(Wv, A, p) == LET D == {s \in Pos : s >= p /\ A[s] # -1 /\
                                          (s \in Bnd(Wv) \/ \A q \in p..s : q \notin Bnd(Wv))} IN
                IF D = {} THEN <<>> ELSE <<Least(D), A[Least(D)]>>

VARIABLES W, A, lim,                  \* the abstract input (constant along a behaviour)
          pos, prevEnd, out, done,    \* regexp.allMatches
          sp, lastEnd, rout, rdone,   \* regexp.replaceAll: rout = the matches that get substituted
          ipos, ilast, iout, idone    \* the implementation's loop
input == <<W, A, lim>>
std   == <<pos, prevEnd, out, done>>
rpl   == <<sp, lastEnd, rout, rdone>>
impl  == <<ipos, ilast, iout, idone>>
vars  == <<input, std, rpl, impl>>

Init == /\ W \in Widths(0) /\ A \in Landscapes(W) /\ lim \in Lims
        /\ pos = 0 /\ prevEnd = -1 /\ out = <<>> /\ done = FALSE
        /\ sp = 0 /\ lastEnd = 0 /\ rout = <<>> /\ rdone = FALSE
        /\ ipos = 0 /\ ilast = -1 /\ iout = <<>> /\ idone = FALSE

(* one iteration of regexp.allMatches *)
StdIter ==
  /\ ~done
  /\ IF ~((lim < 0 \/ Len(out) < lim) /\ pos <= N) \/ First(W, A, pos) = <<>>
     THEN done' = TRUE /\ UNCHANGED <<pos, prevEnd, out>>
     ELSE LET m == First(W, A, pos)
              d == StdDecide(W, N, m, pos, prevEnd)
          IN /\ out' = IF d.accept THEN Append(out, m) ELSE out
             /\ pos' = d.np
             /\ prevEnd' = d.prev
             /\ done' = FALSE
  /\ UNCHANGED <<input, rpl, impl>>

(* one iteration of regexp.replaceAll *)
RplIter ==
  /\ ~rdone
  /\ IF sp > N \/ First(W, A, sp) = <<>>
     THEN rdone' = TRUE /\ UNCHANGED <<sp, lastEnd, rout>>
     ELSE LET a == First(W, A, sp)
              w == WidthAt(W, sp)
          IN /\ rout' = IF a[2] > lastEnd \/ a[1] = 0 THEN Append(rout, a) ELSE rout
             /\ lastEnd' = a[2]
             /\ sp' = IF sp + w > a[2] THEN sp + w ELSE IF sp + 1 > a[2] THEN sp + 1 ELSE a[2]
             /\ rdone' = FALSE
  /\ UNCHANGED <<input, std, impl>>

(* one iteration of the implementation's loop; n <= 0 means unlimited there *)
ImplIter ==
  /\ ~idone
  /\ IF lim = 0 \/ ~(lim <= 0 \/ Len(iout) < lim) \/ ipos > N \/ FirstI(W, A, ipos) = <<>>
     THEN idone' = TRUE /\ UNCHANGED <<ipos, ilast, iout>>
     ELSE LET m == FirstI(W, A, ipos)
              d == ImplDecide(Adv, W, N, m, ipos, ilast)
          IN /\ iout' = IF d.skip THEN iout ELSE Append(iout, m)
             /\ ilast' = d.last
             /\ ipos' = d.np
             /\ idone' = FALSE
  /\ UNCHANGED <<input, std, rpl>>

Next == StdIter \/ RplIter \/ ImplIter
Spec == Init /\ [][Next]_vars /\ WF_vars(StdIter) /\ WF_vars(RplIter) /\ WF_vars(ImplIter)

(* ------------------------------ properties ------------------------------- *)
IsPrefixOf(s, t) == Len(s) <= Len(t) /\ \A i \in 1..Len(s) : s[i] = t[i]

\* the implementation enumerates exactly regexp's sequence
ImplRefinesStd == /\ IsPrefixOf(iout, out) \/ IsPrefixOf(out, iout)
                  /\ (done /\ idone) => iout = out
\* with no limit, the substituted matches of replaceAll are exactly the enumerated ones
RplIsStd == (done /\ rdone /\ lim < 0) => rout = out
\* C07/C04 shape: ordered, non-overlapping, an empty match never directly follows a match's end
WellFormed == \A i \in 1..(Len(out) - 1) :
                 /\ out[i][2] <= out[i+1][1]
                 /\ (out[i+1][1] = out[i+1][2] => out[i][2] < out[i+1][1])
\* FindAll(n) is the length-n prefix of FindAll(-1): follows because out never shrinks and lim only stops it
Monotone == [][IsPrefixOf(out, out') /\ IsPrefixOf(iout, iout') /\ IsPrefixOf(rout, rout')]_vars
Termination == <>(done /\ rdone /\ idone)
=============================================================================
