------------------------------ MODULE Trace_MatchIter ------------------------------
(***************************************************************************)
(* Trace validation of the match-iteration loops.                          *)
(*                                                                         *)
(* The harness runs each of the nine loops of coregex (FindAll loop, Count,*)
(* FindAllSubmatch, AllIndex, five ReplaceAll* loops) on real inputs with  *)
(* the `verif` hooks on; every loop iteration emits one event AFTER the    *)
(* loop updated its position.  This module replays the recorded events     *)
(* through the implementation-shaped iteration rule IterRules!ImplDecide   *)
(* (the same operator MatchIter!ImplIter uses, proved there to refine      *)
(* regexp.allMatches for every landscape) and infers the match landscape   *)
(* from the logged search results:                                         *)
(*   known[s] = -2 not yet observed, -1 observed "no match starts here",   *)
(*              e  observed match <<s,e>>                                  *)
(* A recorded execution is accepted iff every line is explained:           *)
(*   - the loop searched from the position the model is at,                *)
(*   - the search result is consistent with everything observed so far,    *)
(*   - the skip/emit decision and the new position are the model's,        *)
(*   - the limit n is honoured and the final count is the model's.         *)
(* Many traces are concatenated; "begin" resets the model.                 *)
(***************************************************************************)
EXTENDS IterRules, TLC, Json, FiniteSets

CONSTANT TraceFile
Trace == ndJsonDeserialize(TraceFile)

VARIABLES l,            \* next line of the trace
          N, W, lim,    \* input of the current call
          ipos, ilast, cnt, known, stopped
vars == <<l, N, W, lim, ipos, ilast, cnt, known, stopped>>

Init == /\ l = 1 /\ N = 0 /\ W = <<>> /\ lim = -1
        /\ ipos = 0 /\ ilast = -1 /\ cnt = 0 /\ known = <<>> /\ stopped = TRUE

IsEvent(e) == l <= Len(Trace) /\ Trace[l].ev = e /\ l' = l + 1

Begin == /\ IsEvent("begin")
         /\ N' = Trace[l].len /\ W' = Trace[l].w /\ lim' = Trace[l].n
         /\ ipos' = 0 /\ ilast' = -1 /\ cnt' = 0 /\ stopped' = FALSE
         /\ known' = [p \in 1..(Trace[l].len + 1) |-> -2]     \* known[p+1] for byte offset p

\* the search from ipos reported the match <<s,e>>: nothing was seen to start in ipos..s-1,
\* and s was either unobserved or observed with the same end
Consistent(s, e) == /\ ipos <= s /\ s <= e /\ e <= N
                    /\ \A p \in ipos..(s-1) : known[p+1] \in {-2, -1}
                    /\ known[s+1] \in {-2, e}
Learn(s, e) == [p \in DOMAIN known |-> IF p - 1 >= ipos /\ p - 1 < s THEN -1
                                        ELSE IF p - 1 = s THEN e ELSE known[p]]

Iter == /\ IsEvent("iter")
        /\ ~stopped
        /\ lim # 0 /\ (lim < 0 \/ cnt < lim)                   \* the limit is honoured
        /\ ipos <= N
        /\ LET ev == Trace[l]
               d  == ImplDecide("rune", W, N, <<ev.s, ev.e>>, ipos, ilast)
           IN /\ ev.pos = ipos
              /\ Consistent(ev.s, ev.e)
              /\ ev.emit = (IF d.skip THEN 0 ELSE 1)
              /\ ev.np = d.np
              /\ known' = Learn(ev.s, ev.e)
              /\ ipos' = d.np /\ ilast' = d.last
              /\ cnt' = IF d.skip THEN cnt ELSE cnt + 1
        /\ UNCHANGED <<N, W, lim, stopped>>

\* the search from ipos found nothing: no observed match may start at or after ipos
Stop == /\ IsEvent("stop")
        /\ ~stopped
        /\ Trace[l].pos = ipos
        /\ \A p \in ipos..N : known[p+1] \in {-2, -1}
        /\ stopped' = TRUE
        /\ UNCHANGED <<N, W, lim, ipos, ilast, cnt, known>>

\* the call returned: count = -1 means the API does not expose it
End == /\ IsEvent("end")
       /\ (Trace[l].count = -1 \/ Trace[l].count = cnt)
       \* the loop may only end because the search failed, the limit was reached, or the input is exhausted
       /\ (stopped \/ (lim > 0 /\ cnt >= lim) \/ ipos > N \/ Trace[l].abandoned = 1)
       /\ stopped' = TRUE
       /\ UNCHANGED <<N, W, lim, ipos, ilast, cnt, known>>

\* start-anchored patterns: the FindAll loop short-circuits to one search at offset 0
Anch == /\ IsEvent("anch")
        /\ ~stopped /\ ipos = 0 /\ cnt = 0
        /\ Trace[l].found \in {0, 1}
        /\ (Trace[l].found = 1 => Trace[l].s = 0 /\ Trace[l].s <= Trace[l].e /\ Trace[l].e <= N)
        /\ cnt' = Trace[l].found
        /\ stopped' = TRUE
        /\ UNCHANGED <<N, W, lim, ipos, ilast, known>>

Next == Begin \/ Iter \/ Stop \/ Anch \/ End
Spec == Init /\ [][Next]_vars

\* acceptance: every line consumed (one state per line plus the initial state)
Accepted == TLCGet("stats").diameter - 1 = Len(Trace)
=============================================================================
