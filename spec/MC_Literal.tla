------------------------------ MODULE MC_Literal ------------------------------
(***************************************************************************)
(* C17: extracted literals are necessary for every match (translation      *)
(* validation of literal/extractor.go's OUTPUT, not of its algorithm).     *)
(*                                                                         *)
(* The harness (`vh litexport`) has run the real extractor on every        *)
(* pattern printed by MC_Search under a set of ExtractorConfigs and wrote  *)
(* one JSON line per pattern: the abstract syntax as TLC printed it, and   *)
(* the distinct extractor outputs (each with the list of configs that      *)
(* produced it): for ExtractPrefixes / ExtractSuffixes / ExtractInner /    *)
(* ExtractInnerForReverseSearch the flags IsEmpty, IsPartialCoverage and   *)
(* the literals (bytes, Complete).                                         *)
(*                                                                         *)
(* TLC rebuilds the pattern (FromJson), compiles it with RegexRef!Compile  *)
(* and enumerates its bounded language                                     *)
(*     Ms = all <<cl, w, cr>> : the pattern matches the text w (|w| <= L)  *)
(*          when the symbol before it is cl and the symbol behind it is cr *)
(*          (0 = none; only 0 for patterns without look-around: contexts   *)
(*          add nothing then; one symbol decides every look-around)        *)
(* over the pattern's alphabet (MC_Search's), L <= LCap as far as Budget   *)
(* search nodes reach, and checks, on BYTES (Symbols!Bytes):               *)
(*   necessity : a sequence that is neither empty nor partial has, for     *)
(*               every match text, a literal that is a byte-prefix         *)
(*               (prefixes) / byte-suffix (suffixes) / byte-substring      *)
(*               (inner, inner-for-reverse) of it;                         *)
(*   complete  : a literal marked Complete (any of the four sequences) is, *)
(*               by itself, the text of a match in some context: decided   *)
(*               with EndsP on the decoded literal, independent of L;      *)
(*   longer    : for a Complete PREFIX literal l, every context cl and     *)
(*               every extension x, |x| <= XLen, such that l is a match    *)
(*               there and no EARLIER literal of the sequence occurs at    *)
(*               l's start in cl.l.x (a complete prefilter reports the     *)
(*               first literal in sequence order), the leftmost-first      *)
(*               match anchored there (AnchoredP) does not extend beyond l.*)
(* A Complete prefix literal that fails to match in SOME context (look-    *)
(* around) is printed as information only: the statement does not forbid   *)
(* it and meta/compile.go wraps such prefilters as incomplete.             *)
(* Nothing else is required of the extractor (which literals, how many,    *)
(* how long): benign heuristic changes never alarm.                        *)
(* Every violated obligation is printed with a witness and is confirmed    *)
(* against package regexp and a fresh run of the extractor by              *)
(* `vh litconfirm` before it counts.                                       *)
(***************************************************************************)
EXTENDS Universe, Json

CONSTANTS LitFile,          \* ndjson written by `vh litexport`
          Shard, NShards,   \* lines are sharded by line index
          Budget, LCap,     \* bound of the language: texts up to length LCap, at most Budget search nodes per pattern
          XLen              \* longest extension tried behind a Complete prefix literal

Lines == ndJsonDeserialize(LitFile)

(* ------------------------- JSON -> abstract syntax ------------------------ *)
ArrSet(q) == {q[j] : j \in DOMAIN q}

RECURSIVE FromJson(_)
FromJson(j) ==
  CASE j.op = "lit"   -> [op |-> "lit", c |-> j.c, fold |-> j.fold]
    [] j.op = "cls"   -> [op |-> "cls", s |-> ArrSet(j.s), neg |-> j.neg, fold |-> j.fold]
    [] j.op = "any"   -> [op |-> "any", nl |-> j.nl]
    [] j.op = "emp"   -> [op |-> "emp"]
    [] j.op = "look"  -> [op |-> "look", k |-> j.k]
    [] j.op \in Bin   -> [op |-> j.op, a |-> FromJson(j.a), b |-> FromJson(j.b)]
    [] j.op \in {"star","plus","quest"} -> [op |-> j.op, a |-> FromJson(j.a), g |-> j.g]
    [] j.op = "rep"   -> [op |-> "rep", a |-> FromJson(j.a), min |-> j.min, max |-> j.max, g |-> j.g]
    [] j.op = "cap"   -> [op |-> "cap", a |-> FromJson(j.a), i |-> j.i, name |-> j.name]

(* ------------------------------ the language ------------------------------ *)
RECURSIVE HasNegCls(_)
HasNegCls(r) == CASE r.op = "cls" -> r.neg
                  [] r.op \in Leaf -> FALSE
                  [] r.op \in Bin -> HasNegCls(r.a) \/ HasNegCls(r.b)
                  [] OTHER -> HasNegCls(r.a)
\* can the pattern consume a symbol it does not mention?  (U+FFFD also matches every ill-formed byte)
Wildish(re) == HasOp(re, {"any"}) \/ HasNegCls(re) \/ sfffd \in SymsIn(re)
\* MC_Search's alphabet; the multi-byte / ill-formed extras can only occur in a match of a Wildish pattern
LAlpha(re, i) == IF Wildish(re) THEN Alphabet(re, MBFor(i), ILLFor(i)) ELSE Alphabet(re, 0, 0)

(* The bounded language is enumerated by a depth-first search over match TEXTS that extends a text only while   *)
(* some thread of the program is still alive (Thompson simulation of RegexRef!Prog: the same instructions, the  *)
(* same zero-width tests, no priorities - exactly the reachability EndsAcc computes).  A match is <<cl, w, cr>>: *)
(* the pattern matches the text w when the symbol before it is cl and the symbol behind it is cr (0: none, the   *)
(* text starts / ends the haystack).  One symbol of context decides every look-around of RegexRef!LookOK, so     *)
(* for patterns with look-around every cl, cr of the alphabet is tried; without, only 0.                         *)
(* The search is an accelerator, not an oracle: MC checks it against EndsP on every context of every text of    *)
(* length <= 2 (SelfCheck), re-validates every reported witness with EndsP, and `vh litconfirm` re-validates it *)
(* with package regexp.                                                                                         *)
WordS(s) == s # 0 /\ IsWord(s)
LookCtx(k, pv, nx) ==
  CASE k = "bot" -> pv = 0
    [] k = "eot" -> nx = 0
    [] k = "bol" -> pv = 0 \/ pv = NL
    [] k = "eol" -> nx = 0 \/ nx = NL
    [] k = "wb"  -> WordS(pv) # WordS(nx)
    [] k = "nwb" -> WordS(pv) = WordS(nx)
\* the instructions reachable from pc without consuming, between the symbols pv and nx
RECURSIVE CloAcc(_,_,_,_,_)
CloAcc(prog, pc, pv, nx, seen) ==
  IF pc \in seen THEN seen
  ELSE LET v == seen \cup {pc}
           i == prog[pc]
       IN CASE i.op \in {"match", "rune"} -> v
            [] i.op \in {"nop", "cap"}    -> CloAcc(prog, i.out, pv, nx, v)
            [] i.op = "look"              -> IF LookCtx(i.k, pv, nx) THEN CloAcc(prog, i.out, pv, nx, v) ELSE v
            [] i.op = "alt"               -> CloAcc(prog, i.arg, pv, nx, CloAcc(prog, i.out, pv, nx, v))
RECURSIVE CloSet(_,_,_,_,_)
CloSet(prog, P, pv, nx, seen) ==
  IF P = {} THEN seen
  ELSE LET pc == CHOOSE x \in P : TRUE IN CloSet(prog, P \ {pc}, pv, nx, CloAcc(prog, pc, pv, nx, seen))

\* Breadth-first over text lengths.  F: the live nodes [cl, w, P, pv] of length k (P: the threads waiting behind the
\* text w, pv: the symbol before them); n: nodes expanded so far; acc: matches found so far.  The search stops at
\* length cap, when no thread is alive, or when the next level would exceed the node budget: the result is the
\* COMPLETE set of matches <<cl, w, cr>> with |w| <= L, and L.
RECURSIVE Bfs(_,_,_,_,_,_,_,_,_)
Bfs(prog, al, CR, cap, budget, F, k, n, acc) ==
  LET Clo(f, nx) == IF CR = {0} THEN CloSet(prog, f.P, 0, 0, {})    \* without look-around the context is irrelevant
                    ELSE CloSet(prog, f.P, f.pv, nx, {})
      here == UNION {{<<f.cl, f.w, cr>> : cr \in {c \in CR : Len(prog) \in Clo(f, c)}} : f \in F}
      Step(f, a) == {prog[pc].out : pc \in {x \in Clo(f, a) : prog[x].op = "rune" /\ a \in prog[x].s}}
      nxt == {g \in {[cl |-> f.cl, w |-> Append(f.w, a), P |-> Step(f, a), pv |-> a] : f \in F, a \in al} : g.P # {}}
  IN IF k >= cap \/ nxt = {} \/ n + Cardinality(nxt) > budget
     THEN [ms |-> acc \cup here, L |-> IF k >= cap \/ nxt = {} THEN cap ELSE k]
     ELSE Bfs(prog, al, CR, cap, budget, nxt, k + 1, n + Cardinality(nxt), acc \cup here)
\* CX: the contexts tried on either side (0 = none)
MatchesOf(prog, al, CX, cap, budget) ==
  Bfs(prog, al, CX, cap, budget, {[cl |-> cl, w |-> <<>>, P |-> {1}, pv |-> cl] : cl \in CX}, 0, Cardinality(CX), {})

Ctx(c) == IF c = 0 THEN <<>> ELSE <<c>>
\* the match <<cl, w, cr>> as haystack, start and end position
MHay(m) == Ctx(m[1]) \o m[2] \o Ctx(m[3])
MStart(m) == Len(Ctx(m[1])) + 1
MEnd(m) == MStart(m) + Len(m[2])
\* the same set by RegexRef!EndsP (the definition)
MatchesRef(prog, al, CX, L) ==
  {m \in CX \X SeqsUpTo(al, L) \X CX : MEnd(m) \in EndsP(prog, MHay(m), MStart(m))}
(* --------------------------- bytes and symbols ---------------------------- *)
IsInfix(l, b) == \E k \in 0..(Len(b) - Len(l)) : SubSeq(b, k+1, k+Len(l)) = l
Covers(kind, l, b) == CASE kind = "pre" -> Len(l) <= Len(b) /\ SubSeq(b, 1, Len(l)) = l
                        [] kind = "suf" -> Len(l) <= Len(b) /\ SubSeq(b, Len(b) - Len(l) + 1, Len(b)) = l
                        [] OTHER        -> IsInfix(l, b)

\* one decoding step of Go's utf8.DecodeRune restricted to the symbol table: the longest symbol at byte i (0: none)
SymAt(b, i) ==
  LET c == {s \in AllSyms : i + Width(s) - 1 <= Len(b) /\ SubSeq(b, i, i + Width(s) - 1) = Sym[s].b}
  IN IF c = {} THEN 0 ELSE CHOOSE s \in c : \A t \in c : Width(t) <= Width(s)
RECURSIVE DecAcc(_,_,_)
DecAcc(b, i, acc) == IF i > Len(b) THEN acc
                     ELSE LET s == SymAt(b, i) IN IF s = 0 THEN <<0>> ELSE DecAcc(b, i + Width(s), Append(acc, s))
Decode(b) == DecAcc(b, 1, <<>>)          \* <<0>>: b is not a sequence of table symbols

(* ------------------------------- the checks ------------------------------- *)
Kinds == <<"pre", "suf", "inn", "rev">>
APIName(k) == CASE k = "pre" -> "ExtractPrefixes" [] k = "suf" -> "ExtractSuffixes"
                [] k = "inn" -> "ExtractInner"    [] k = "rev" -> "ExtractInnerForReverseSearch"
SeqAt(o, k) == CASE k = "pre" -> o.pre [] k = "suf" -> o.suf [] k = "inn" -> o.inn [] k = "rev" -> o.rev

\* a violated obligation: the witness is the match h[s..e) in the context h, printed in bytes
\* (hb, byte offsets so/eo, nb/na = symbols before/behind the match); l = the literal concerned; n = number of witnesses
Bad(kind, api, cfg, h, s, e, l, n) ==
  [kind |-> kind, api |-> api, cfg |-> cfg, hb |-> Bytes(h), so |-> Off(h, s), eo |-> Off(h, e),
   nb |-> s - 1, na |-> Len(h) - (e - 1), l |-> l, n |-> n]

Check(ln) ==
  LET re    == FromJson(ln.re)
      outs  == ln.outs
      al    == LAlpha(re, ln.i)
      prog  == Compile(re)
      nc    == NCaps(re)
      look  == HasOp(re, {"look"})
      CX    == IF look THEN al \cup {0} ELSE {0}
      Srch  == MatchesOf(prog, al, CX, LCap, Budget)
      L     == Srch.L                                       \* every match text of length <= L is in Ms
      Ms    == Srch.ms
      TB    == {<<Bytes(t), t>> : t \in {m[2] : m \in Ms}}     \* the match texts, in bytes and in symbols
      BS    == {p[1] : p \in TB}
      \* a witness for the text t: the match with the least context
      Wit(t) == LET W == {m \in Ms : m[2] = t}
                    m == CHOOSE m \in W : \A m2 \in W : Len(MHay(m)) <= Len(MHay(m2))
                IN IF Assert(MEnd(m) \in EndsP(prog, MHay(m), MStart(m)), <<"search and EndsP disagree", ln.pat, m>>)
                   THEN <<MHay(m), MStart(m), MEnd(m)>> ELSE <<>>
      \* the search against the definition: all contexts of all texts of length <= 1, no context for length <= 2
      SelfCheck == LET l1 == IF L < 1 THEN L ELSE 1   l2 == IF L < 2 THEN L ELSE 2 IN
                   /\ Assert({m \in Ms : Len(m[2]) <= l1} = MatchesRef(prog, al, CX, l1), <<"search # EndsP up to length 1", ln.pat>>)
                   /\ Assert({m \in Ms : Len(m[2]) <= l2 /\ m[1] = 0 /\ m[3] = 0} = MatchesRef(prog, al, {0}, l2),
                             <<"search # EndsP up to length 2", ln.pat>>)
      CL    == IF look THEN SeqsUpTo(al, 1) ELSE {<<>>}       \* one symbol of context decides every look-around
      CLX   == CL \X SeqsUpTo(al, XLen)
      IsMatchAt(h, s, e) == e \in EndsP(prog, h, s)
      InLang(d) == \E cl \in CL, cr \in CL : IsMatchAt(cl \o d \o cr, Len(cl) + 1, Len(cl) + Len(d) + 1)

      \* the distinct sequences of one kind over all configurations, each reported with the first configuration
      \* (in the exporter's order: the production configuration first) that produced it
      QS(k) == {SeqAt(outs[j], k) : j \in DOMAIN outs}
      CfgOf(q, k) == outs[Min({j \in DOMAIN outs : SeqAt(outs[j], k) = q})].cfgs[1]

      Necessity(q, k) ==
        IF q.empty \/ q.partial THEN <<>>
        ELSE LET bad == {p \in TB : ~ \E j \in DOMAIN q.lits : Covers(k, q.lits[j].b, p[1])} IN
             IF bad = {} THEN <<>>
             ELSE LET n == Min({Len(p[2]) : p \in bad})
                      m == Wit((CHOOSE p \in bad : Len(p[2]) = n)[2])
                  IN << Bad("necessity", APIName(k), CfgOf(q, k), m[1], m[2], m[3], <<>>, Cardinality(bad)) >>

      \* the leftmost-first match starting at the literal d in every context <<cl, x>> (computed once per literal)
      Anch(d) == {[c |-> c, r |-> AnchoredP(prog, nc, c[1] \o d \o c[2], Len(c[1]) + 1)] : c \in CLX}
      Smallest(T) == CHOOSE t \in T : \A u \in T : Len(t.c[1]) + Len(t.c[2]) <= Len(u.c[1]) + Len(u.c[2])
      OccursAt(b, hb, off) == off + Len(b) <= Len(hb) /\ SubSeq(hb, off + 1, off + Len(b)) = b
      \* l = q.lits[j] is the FIRST literal of the sequence (the order a complete prefilter reports in) found there
      FirstAt(q, j, c, d) == LET hb == Bytes(c[1] \o d \o c[2])  off == Len(Bytes(c[1]))
                             IN \A j2 \in 1..(j-1) : ~OccursAt(q.lits[j2].b, hb, off)

      \* <<violations, information>> for literal j of sequence q
      LitOne(q, k, j) ==
        LET lit == q.lits[j]  cfg == CfgOf(q, k) IN
        IF ~lit.c THEN << <<>>, <<>> >>
        ELSE LET d == Decode(lit.b) IN
             IF d = <<0>> THEN << << Bad("complete_undecodable", APIName(k), cfg, <<>>, 1, 1, lit.b, 1) >>, <<>> >>
             ELSE IF ~InLang(d) THEN << << Bad("complete_notin", APIName(k), cfg, d, 1, Len(d) + 1, lit.b, 1) >>, <<>> >>
             ELSE IF k # "pre" THEN << <<>>, <<>> >>
             ELSE LET A  == Anch(d)
                      \* contexts where l is a match, the first literal found, and yet something longer is preferred
                      lg == {t \in A : /\ t.r # <<>> /\ t.r[2] > Len(t.c[1]) + Len(d) + 1
                                       /\ FirstAt(q, j, t.c, d)
                                       /\ IsMatchAt(t.c[1] \o d \o t.c[2], Len(t.c[1]) + 1, Len(t.c[1]) + Len(d) + 1)}
                      \* information only: contexts (look-around) where nothing matches at l although l occurs
                      nm == IF look THEN {t \in A : t.r = <<>>} ELSE {}
                  IN << IF lg = {} THEN <<>>
                        ELSE LET t == Smallest(lg) IN
                             << Bad("complete_longer", APIName(k), cfg, t.c[1] \o d \o t.c[2], Len(t.c[1]) + 1, t.r[2],
                                    lit.b, Cardinality(lg)) >>,
                        IF nm = {} THEN <<>>
                        ELSE LET t == Smallest(nm) IN
                             << Bad("complete_ctx", APIName(k), cfg, t.c[1] \o d \o t.c[2], Len(t.c[1]) + 1,
                                    Len(t.c[1]) + Len(d) + 1, lit.b, Cardinality(nm)) >> >>
      PerSeq(q, k) == LET per == [j \in DOMAIN q.lits |-> LitOne(q, k, j)]
                      IN << Necessity(q, k) \o FlattenSeq([j \in DOMAIN per |-> per[j][1]]),
                            FlattenSeq([j \in DOMAIN per |-> per[j][2]]) >>
      PerKind(k) == LET qs == SetToSeq(QS(k))  per == [n \in DOMAIN qs |-> PerSeq(qs[n], k)]
                    IN << FlattenSeq([n \in DOMAIN per |-> per[n][1]]), FlattenSeq([n \in DOMAIN per |-> per[n][2]]) >>
      All   == [k \in DOMAIN Kinds |-> PerKind(Kinds[k])]
      Panics == FlattenSeq([j \in DOMAIN outs |-> IF outs[j].panic = "" THEN <<>>
                                 ELSE << Bad("panic", outs[j].panic, outs[j].cfgs[1], <<>>, 1, 1, <<>>, 1) >>])
      NonVac == {<<k, q>> \in UNION {{<<k, q>> : q \in QS(Kinds[k])} : k \in DOMAIN Kinds} : ~(q.empty \/ q.partial)}
      NCompl == FoldFunction(+, 0, [k \in DOMAIN Kinds |->
                   FoldFunctionOnSet(+, 0, [q \in QS(Kinds[k]) |-> Cardinality({j \in DOMAIN q.lits : q.lits[j].c})], QS(Kinds[k]))])
  IN IF ~SelfCheck THEN [fam |-> ln.fam] ELSE
     [fam |-> ln.fam, i |-> ln.i, patb |-> ln.patb, L |-> L, nalpha |-> Cardinality(al),
      nmatch |-> Cardinality(Ms), ntext |-> Cardinality(BS),
      nouts |-> Len(outs), ncfgs |-> FoldFunction(+, 0, [j \in DOMAIN outs |-> Len(outs[j].cfgs)]),
      nseqs |-> Cardinality(NonVac),                        \* distinct non-vacuous sequences checked
      nnec  |-> Cardinality(NonVac) * Cardinality(BS),      \* (sequence, match text) necessity checks
      ncompl |-> NCompl,                                    \* Complete literals checked
      bad  |-> Panics \o FlattenSeq([k \in DOMAIN All |-> All[k][1]]),
      info |-> FlattenSeq([k \in DOMAIN All |-> All[k][2]])]

(* -------------------------------- driver ---------------------------------- *)
VARIABLES idx, out
Rec(i) == IF i = 0 THEN [hdr |-> TRUE, lines |-> Len(Lines), shard |-> Shard, nshards |-> NShards,
                         budget |-> Budget, lcap |-> LCap, xlen |-> XLen]
          ELSE Check(Lines[i])
Init == idx \in ({i \in 1..Len(Lines) : i % NShards = Shard} \cup {0}) /\ out = <<>>
Next == out = <<>> /\ out' = Rec(idx) /\ UNCHANGED idx
Spec == Init /\ [][Next]_<<idx, out>>
Emit == out = <<>> \/ PrintT(ToJson(out))

\* sanity of the decoder: every haystack decodes back from its bytes when it holds at most one kind of
\* ill-formed symbol (as every alphabet does)
ASSUME \A s \in AllSyms : Decode(Sym[s].b) = <<s>>
ASSUME Decode(<<226, 132, 170, 226>>) = <<sKEL, 28>> /\ Decode(<<195>>) = <<0>>
=============================================================================
