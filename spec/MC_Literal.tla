------------------------------ MODULE MC_Literal ------------------------------
(***************************************************************************)
(* C17: extracted literals are necessary for every match (translation      *)
(* validation of literal/extractor.go's OUTPUT, not of its algorithm).     *)
(*                                                                         *)
(* The harness (`vh litexport`) has run the real extractor on every        *)
(* pattern printed by MC_Search under a set of ExtractorConfigs and wrote  *)
(* one JSON line per pattern: the abstract syntax as TLC printed it, and   *)
(* the distinct extractor outputs (each with the list of configs that      *)
(* produced it): for ExtractPrefixes / ExtractSuffixes / ExtractInner /    *)
(* ExtractInnerForReverseSearch the flags IsEmpty, IsPartialCoverage and   *)
(* the literals (bytes, Complete).                                         *)
(*                                                                         *)
(* TLC rebuilds the pattern, computes its bounded language with the        *)
(* reference semantics                                                     *)
(*     Ms = all (h, s, e) with h over the pattern's alphabet, |h| <= L,    *)
(*          e \in EndsP(prog, h, s)                                        *)
(* (for patterns without look-around only s = 1, e = |h|+1: substrings of  *)
(* haystacks add nothing then) and checks, on BYTES:                       *)
(*   necessity : a sequence that is neither empty nor partial has, for     *)
(*               every match text, a literal that is a byte-prefix         *)
(*               (prefixes) / byte-suffix (suffixes) / byte-substring      *)
(*               (inner, inner-for-reverse) of it;                         *)
(*   complete  : a literal marked Complete is, by itself, the text of a    *)
(*               match (in some one-symbol context when the pattern has    *)
(*               look-around): decided directly with EndsP on the decoded  *)
(*               literal, independent of the bound L;                      *)
(*   longer    : for a Complete PREFIX literal l and every extension x,    *)
(*               |x| <= XLen, such that no EARLIER literal of the sequence *)
(*               occurs at l's start in l.x (a complete prefilter reports  *)
(*               the first literal in sequence order), the leftmost-first  *)
(*               match anchored there does not extend beyond l.            *)
(* Nothing else is required of the extractor (which literals, how many,    *)
(* how long): benign heuristic changes never alarm.                        *)
(* Every violated obligation is printed with a witness and is confirmed    *)
(* against package regexp by `vh litconfirm` before it counts.             *)
(***************************************************************************)
EXTENDS Universe, Json

CONSTANTS LitFile,          \* ndjson written by `vh litexport`
          Shard, NShards,   \* lines are sharded by line index
          Budget, LCap,     \* bound of the language: |h| <= LenFor(|alphabet|, Budget, LCap)
          XLen              \* longest extension tried behind a Complete prefix literal

Lines == ndJsonDeserialize(LitFile)

(* ------------------------- JSON -> abstract syntax ------------------------ *)
ArrSet(q) == {q[j] : j \in DOMAIN q}

RECURSIVE FromJson(_)
FromJson(j) ==
  CASE j.op = "lit"   -> [op |-> "lit", c |-> j.c, fold |-> j.fold]
    [] j.op = "cls"   -> [op |-> "cls", s |-> ArrSet(j.s), neg |-> j.neg, fold |-> j.fold]
    [] j.op = "any"   -> [op |-> "any", nl |-> j.nl]
    [] j.op = "emp"   -> [op |-> "emp"]
    [] j.op = "look"  -> [op |-> "look", k |-> j.k]
    [] j.op \in Bin   -> [op |-> j.op, a |-> FromJson(j.a), b |-> FromJson(j.b)]
    [] j.op \in {"star","plus","quest"} -> [op |-> j.op, a |-> FromJson(j.a), g |-> j.g]
    [] j.op = "rep"   -> [op |-> "rep", a |-> FromJson(j.a), min |-> j.min, max |-> j.max, g |-> j.g]
    [] j.op = "cap"   -> [op |-> "cap", a |-> FromJson(j.a), i |-> j.i, name |-> j.name]

(* ------------------------------ the language ------------------------------ *)
RECURSIVE HasNegCls(_)
HasNegCls(r) == CASE r.op = "cls" -> r.neg
                  [] r.op \in Leaf -> FALSE
                  [] r.op \in Bin -> HasNegCls(r.a) \/ HasNegCls(r.b)
                  [] OTHER -> HasNegCls(r.a)
\* can the pattern consume a symbol it does not mention?  (U+FFFD also matches every ill-formed byte)
Wildish(re) == HasOp(re, {"any"}) \/ HasNegCls(re) \/ sfffd \in SymsIn(re)
\* MC_Search's alphabet; the multi-byte / ill-formed extras can only occur in a match of a Wild pattern
LAlpha(re, i) == IF Wildish(re) THEN Alphabet(re, MBFor(i), ILLFor(i)) ELSE Alphabet(re, 0, 0)

\* a match is <<h, s, e>>: the pattern matches h[s..e) (symbol positions) in the context h
MatchesOf(prog, H, look) ==
  IF look
  THEN UNION {UNION {{<<w, s, e>> : e \in EndsP(prog, w, s)} : s \in 1..(Len(w)+1)} : w \in H}
  ELSE {<<w, 1, Len(w)+1>> : w \in {v \in H : (Len(v)+1) \in EndsP(prog, v, 1)}}
MText(m) == SubSeq(m[1], m[2], m[3]-1)

(* --------------------------- bytes and symbols ---------------------------- *)
IsInfix(l, b) == \E k \in 0..(Len(b) - Len(l)) : SubSeq(b, k+1, k+Len(l)) = l
Covers(kind, l, b) == CASE kind = "pre" -> IsPrefix(l, b)
                        [] kind = "suf" -> IsSuffix(l, b)
                        [] OTHER        -> IsInfix(l, b)

\* one decoding step of Go's utf8.DecodeRune restricted to the symbol table: the longest symbol at byte i (0: none)
SymAt(b, i) ==
  LET c == {s \in AllSyms : i + Width(s) - 1 <= Len(b) /\ SubSeq(b, i, i + Width(s) - 1) = Sym[s].b}
  IN IF c = {} THEN 0 ELSE CHOOSE s \in c : \A t \in c : Width(t) <= Width(s)
RECURSIVE DecAcc(_,_,_)
DecAcc(b, i, acc) == IF i > Len(b) THEN acc
                     ELSE LET s == SymAt(b, i) IN IF s = 0 THEN <<0>> ELSE DecAcc(b, i + Width(s), Append(acc, s))
Decode(b) == DecAcc(b, 1, <<>>)          \* <<0>>: b is not a sequence of table symbols

ShortestOf(S) == LET n == Min({Len(b) : b \in S}) IN CHOOSE b \in S : Len(b) = n

(* ------------------------------- the checks ------------------------------- *)
Kinds == <<"pre", "suf", "inn", "rev">>
APIName(k) == CASE k = "pre" -> "ExtractPrefixes" [] k = "suf" -> "ExtractSuffixes"
                [] k = "inn" -> "ExtractInner"    [] k = "rev" -> "ExtractInnerForReverseSearch"
SeqAt(o, k) == CASE k = "pre" -> o.pre [] k = "suf" -> o.suf [] k = "inn" -> o.inn [] k = "rev" -> o.rev

\* a violated obligation: the witness is the match h[s..e) in the context h, printed in bytes
\* (hb, byte offsets so/eo, nb/na = symbols before/behind the match); l = the literal concerned; n = number of witnesses
Bad(kind, api, cfg, h, s, e, l, n) ==
  [kind |-> kind, api |-> api, cfg |-> cfg, hb |-> Bytes(h), so |-> Off(h, s), eo |-> Off(h, e),
   nb |-> s - 1, na |-> Len(h) - (e - 1), l |-> l, n |-> n]

Check(ln) ==
  LET re    == FromJson(ln.re)
      al    == LAlpha(re, ln.i)
      L     == LenFor(Cardinality(al), Budget, LCap)
      prog  == Compile(re)
      nc    == NCaps(re)
      look  == HasOp(re, {"look"})
      Ms    == MatchesOf(prog, SeqsUpTo(al, L), look)
      BS    == {Bytes(MText(m)) : m \in Ms}
      Wit(b) == CHOOSE m \in Ms : Bytes(MText(m)) = b
      CL    == IF look THEN SeqsUpTo(al, 1) ELSE {<<>>}       \* one symbol of context decides every look-around
      X     == SeqsUpTo(al, XLen)
      InLang(d) == \E cl \in CL, cr \in CL : (Len(cl) + Len(d) + 1) \in EndsP(prog, cl \o d \o cr, Len(cl) + 1)
      \* contexts <<cl, x>> in which l = Bytes(d) is the FIRST literal of the sequence (in sequence order: the order a
      \* complete prefilter reports in) found at the position behind cl, ...
      OccursAt(b, hb, off) == off + Len(b) <= Len(hb) /\ SubSeq(hb, off + 1, off + Len(b)) = b
      FirstAt(q, j, c, d) == LET hb == Bytes(c[1] \o d \o c[2])  off == Len(Bytes(c[1]))
                             IN \A j2 \in 1..(j-1) : ~OccursAt(q.lits[j2].b, hb, off)
      \* ... and yet the leftmost-first match starting there extends beyond it
      Longer(q, j, d) == {c \in CL \X X : /\ FirstAt(q, j, c, d)
                                          /\ LET r == AnchoredP(prog, nc, c[1] \o d \o c[2], Len(c[1]) + 1)
                                             IN r # <<>> /\ r[2] > Len(c[1]) + Len(d) + 1}
      NoMatch(d) == {c \in CL \X X : AnchoredP(prog, nc, c[1] \o d \o c[2], Len(c[1]) + 1) = <<>>}

      Necessity(o, k) ==
        LET q == SeqAt(o, k) IN
        IF q.empty \/ q.partial THEN <<>>
        ELSE LET bad == {b \in BS : ~ \E j \in DOMAIN q.lits : Covers(k, q.lits[j].b, b)} IN
             IF bad = {} THEN <<>>
             ELSE LET m == Wit(ShortestOf(bad))
                  IN << Bad("necessity", APIName(k), o.cfgs[1], m[1], m[2], m[3], <<>>, Cardinality(bad)) >>

      CompleteOne(o, k, q, j) ==
        LET lit == q.lits[j] IN
        IF ~lit.c THEN <<>>
        ELSE LET d == Decode(lit.b) IN
             IF d = <<0>> THEN << Bad("complete_undecodable", APIName(k), o.cfgs[1], <<>>, 1, 1, lit.b, 1) >>
             ELSE IF ~InLang(d) THEN << Bad("complete_notin", APIName(k), o.cfgs[1], d, 1, Len(d) + 1, lit.b, 1) >>
             ELSE IF k # "pre" THEN <<>>
             ELSE LET lg == Longer(q, j, d) IN
                  IF lg = {} THEN <<>>
                  ELSE LET c == CHOOSE c \in lg : \A c2 \in lg : Len(c[1]) + Len(c[2]) <= Len(c2[1]) + Len(c2[2])
                           h == c[1] \o d \o c[2]
                       IN << Bad("complete_longer", APIName(k), o.cfgs[1], h, Len(c[1]) + 1,
                                 AnchoredP(prog, nc, h, Len(c[1]) + 1)[2], lit.b, Cardinality(lg)) >>
      Complete(o, k) == LET q == SeqAt(o, k) IN FlattenSeq([j \in DOMAIN q.lits |-> CompleteOne(o, k, q, j)])

      \* information only: a Complete prefix literal that is not a match in every context (look-around)
      CtxOne(o, lit) ==
        IF ~lit.c THEN <<>>
        ELSE LET d == Decode(lit.b) IN
             IF d = <<0>> \/ ~InLang(d) THEN <<>>
             ELSE LET nm == NoMatch(d) IN
                  IF nm = {} THEN <<>>
                  ELSE LET c == CHOOSE c \in nm : \A c2 \in nm : Len(c[1]) + Len(c[2]) <= Len(c2[1]) + Len(c2[2])
                       IN << Bad("complete_ctx", "ExtractPrefixes", o.cfgs[1], c[1] \o d \o c[2], Len(c[1]) + 1,
                                 Len(c[1]) + Len(d) + 1, lit.b, Cardinality(nm)) >>
      Ctx(o) == IF look THEN FlattenSeq([j \in DOMAIN o.pre.lits |-> CtxOne(o, o.pre.lits[j])]) ELSE <<>>

      Panic(o) == IF o.panic = "" THEN <<>> ELSE << Bad("panic", o.panic, o.cfgs[1], <<>>, 1, 1, <<>>, 1) >>
      PerOut(o) == Panic(o) \o FlattenSeq([k \in DOMAIN Kinds |-> Necessity(o, Kinds[k]) \o Complete(o, Kinds[k])])
      NonVac(o) == Cardinality({k \in DOMAIN Kinds : ~(SeqAt(o, Kinds[k]).empty \/ SeqAt(o, Kinds[k]).partial)})
      NCompl(o) == LET Cnt(q) == Cardinality({j \in DOMAIN q.lits : q.lits[j].c})
                   IN Cnt(o.pre) + Cnt(o.suf) + Cnt(o.inn) + Cnt(o.rev)
      Sum(f) == FoldFunction(+, 0, f)
  IN [fam |-> ln.fam, i |-> ln.i, pat |-> ln.pat, L |-> L, nalpha |-> Cardinality(al),
      nmatch |-> Cardinality(Ms), ntext |-> Cardinality(BS),
      nouts |-> Len(ln.outs), ncfgs |-> Sum([j \in DOMAIN ln.outs |-> Len(ln.outs[j].cfgs)]),
      nseqs |-> Sum([j \in DOMAIN ln.outs |-> NonVac(ln.outs[j])]),             \* non-vacuous sequences checked
      nnec  |-> Sum([j \in DOMAIN ln.outs |-> NonVac(ln.outs[j])]) * Cardinality(BS),   \* (sequence, match text) necessity checks
      ncompl |-> Sum([j \in DOMAIN ln.outs |-> NCompl(ln.outs[j])]),            \* Complete literals checked
      bad  |-> FlattenSeq([j \in DOMAIN ln.outs |-> PerOut(ln.outs[j])]),
      info |-> FlattenSeq([j \in DOMAIN ln.outs |-> Ctx(ln.outs[j])])]

(* -------------------------------- driver ---------------------------------- *)
VARIABLES idx, out
Rec(i) == IF i = 0 THEN [hdr |-> TRUE, lines |-> Len(Lines), shard |-> Shard, nshards |-> NShards,
                         budget |-> Budget, lcap |-> LCap, xlen |-> XLen]
          ELSE Check(Lines[i])
Init == idx \in ({i \in 1..Len(Lines) : i % NShards = Shard} \cup {0}) /\ out = <<>>
Next == out = <<>> /\ out' = Rec(idx) /\ UNCHANGED idx
Spec == Init /\ [][Next]_<<idx, out>>
Emit == out = <<>> \/ PrintT(ToJson(out))

\* sanity of the decoder: every haystack decodes back from its bytes when it holds at most one kind of
\* ill-formed symbol (as every alphabet does)
ASSUME \A s \in AllSyms : Decode(Sym[s].b) = <<s>>
ASSUME Decode(<<226, 132, 170, 226>>) = <<sKEL, 28>> /\ Decode(<<195>>) = <<0>>
=============================================================================
